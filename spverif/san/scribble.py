"""Hostile-caller sanitizer for returned buffers.

Every ``pack()`` of a library class hands its caller a *copy* of the bytearray it produced and then scribbles over the
original (appends junk, inverts octets) - which is what a caller is entitled to do with a buffer it was given
(``raw = x.pack(); raw.extend(...)`` is the usual way to assemble a frame, and the library does it itself).  If the library
keeps a reference to a buffer it has handed out (a memoised serialisation, a cached header image), the next pack of that
object - or of an object that embeds it - emits the scribbled octets, and the ordinary comparisons of the check with the
reference encoding fail.  On code that returns fresh buffers this changes nothing that is observable.

The number of scribbled buffers is reported as evidence; zero means the sanitizer was not armed.
"""
from __future__ import annotations

import functools
import sys

COUNT = {"scribbled": 0, "classes": 0}
_INSTALLED = False
EDGE = 48


def _wrap(orig):
    @functools.wraps(orig)
    def pack(self, *a, **k):
        out = orig(self, *a, **k)
        if type(out) is bytearray:
            cp = bytearray(out)
            n = len(out)
            if n <= 2 * EDGE:
                for i in range(n):
                    out[i] ^= 0xFF
            else:
                for i in range(EDGE):
                    out[i] ^= 0xFF
                    out[n - 1 - i] ^= 0xFF
            out.extend(b"\xde\xad\xbe")
            COUNT["scribbled"] += 1
            return cp
        return out
    pack.__spv_scribble__ = True
    return pack


def install():
    """Wrap ``pack`` of every class defined in an already imported spacepackets module (idempotent)."""
    global _INSTALLED
    import importlib
    import pkgutil
    import spacepackets
    for m in pkgutil.walk_packages(spacepackets.__path__, "spacepackets."):
        try:
            importlib.import_module(m.name)
        except Exception:  # noqa: BLE001
            pass
    for name, mod in list(sys.modules.items()):
        if not name.startswith("spacepackets") or mod is None:
            continue
        for cls in list(vars(mod).values()):
            if not isinstance(cls, type) or getattr(cls, "__module__", "") != name:
                continue
            fn = vars(cls).get("pack")
            if fn is None or getattr(fn, "__spv_scribble__", False) or getattr(fn, "__isabstractmethod__", False):
                continue
            if callable(fn) and not isinstance(fn, (staticmethod, classmethod)):
                setattr(cls, "pack", _wrap(fn))
                COUNT["classes"] += 1
    _INSTALLED = True
    from spverif.san import argform
    argform.install()          # the two hostile-caller sanitizers are armed together
    return COUNT["classes"]


def report(ctx):
    from spverif.san import argform
    if argform.COUNT["entry_points"]:
        argform.report(ctx)
    ctx.extra["hostile_caller_scribbled_pack_results"] = COUNT["scribbled"]
    ctx.extra["hostile_caller_wrapped_classes"] = COUNT["classes"]
