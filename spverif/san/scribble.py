"""Hostile-caller sanitizer for returned buffers.

Every ``pack()`` of a library class hands its caller a *copy* of the bytearray it produced and then scribbles over the
original (appends junk, inverts octets) - which is what a caller is entitled to do with a buffer it was given
(``raw = x.pack(); raw.extend(...)`` is the usual way to assemble a frame, and the library does it itself).  If the library
keeps a reference to a buffer it has handed out (a memoised serialisation, a cached header image), the next pack of that
object - or of an object that embeds it - emits the scribbled octets, and the ordinary comparisons of the check with the
reference encoding fail.  On code that returns fresh buffers this changes nothing that is observable.

The number of scribbled buffers is reported as evidence; zero means the sanitizer was not armed.
"""
from __future__ import annotations

import functools
import sys

COUNT = {"scribbled": 0, "classes": 0, "handed_out_and_watched": 0, "watched_buffers_changed": 0}
WATCH = []            # (buffer object handed to a harness-level caller as it is, snapshot, class name)
CHANGED = []          # class names whose handed-out buffer changed while the caller still held it
_ROOT = None
_INSTALLED = False
EDGE = 48


def _check_watched():
    for buf, snap, name in WATCH:
        if bytes(buf) != snap:
            COUNT["watched_buffers_changed"] += 1
            if len(CHANGED) < 8:
                CHANGED.append(name)
    del WATCH[:]


def _wrap(orig):
    @functools.wraps(orig)
    def pack(self, *a, **k):
        # a caller outside the library (the workload) alternately gets the very buffer the library produced and goes on holding
        # it while other packets are packed (it must not change under the caller's hands), or a copy while the original is scribbled
        outer = not sys._getframe(1).f_code.co_filename.startswith(_ROOT) if _ROOT else False
        if outer and WATCH and len(WATCH) >= 4:
            _check_watched()
        out = orig(self, *a, **k)
        if outer and type(out) is bytearray and (COUNT["scribbled"] + COUNT["handed_out_and_watched"]) % 3 == 2:
            WATCH.append((out, bytes(out), type(self).__name__))
            COUNT["handed_out_and_watched"] += 1
            return out
        if type(out) is bytearray:
            cp = bytearray(out)
            n = len(out)
            if n <= 2 * EDGE:
                for i in range(n):
                    out[i] ^= 0xFF
            else:
                for i in range(EDGE):
                    out[i] ^= 0xFF
                    out[n - 1 - i] ^= 0xFF
            out.extend(b"\xde\xad\xbe")
            COUNT["scribbled"] += 1
            return cp
        return out
    pack.__spv_scribble__ = True
    return pack


def install():
    """Wrap ``pack`` of every class defined in an already imported spacepackets module (idempotent)."""
    global _INSTALLED, _ROOT
    import os
    from spverif.core import repo as repo_mod
    _ROOT = os.path.abspath(repo_mod.REPO).rstrip("/") + "/"
    import importlib
    import pkgutil
    import spacepackets
    for m in pkgutil.walk_packages(spacepackets.__path__, "spacepackets."):
        try:
            importlib.import_module(m.name)
        except Exception:  # noqa: BLE001
            pass
    for name, mod in list(sys.modules.items()):
        if not name.startswith("spacepackets") or mod is None:
            continue
        for cls in list(vars(mod).values()):
            if not isinstance(cls, type) or getattr(cls, "__module__", "") != name:
                continue
            fn = vars(cls).get("pack")
            if fn is None or getattr(fn, "__spv_scribble__", False) or getattr(fn, "__isabstractmethod__", False):
                continue
            if callable(fn) and not isinstance(fn, (staticmethod, classmethod)):
                setattr(cls, "pack", _wrap(fn))
                COUNT["classes"] += 1
    _INSTALLED = True
    from spverif.san import argform
    argform.install()          # the two hostile-caller sanitizers are armed together
    return COUNT["classes"]


def report(ctx):
    from spverif.san import argform
    if argform.COUNT["entry_points"]:
        argform.report(ctx)
    _check_watched()
    ctx.extra["hostile_caller_scribbled_pack_results"] = COUNT["scribbled"]
    ctx.extra["hostile_caller_buffers_held_across_later_packs"] = COUNT["handed_out_and_watched"]
    if COUNT["handed_out_and_watched"]:
        ctx.ev("hostile_caller.returned_buffer_stable", COUNT["handed_out_and_watched"])
    for name in sorted(set(CHANGED)):
        ctx.fail("hostile_caller.returned_buffer_stable", "buffer_returned_by_pack_changed_while_the_caller_held_it", name, None, changed=COUNT["watched_buffers_changed"])
    ctx.extra["hostile_caller_wrapped_classes"] = COUNT["classes"]
