"""Loop budget: count backward jumps executed inside the package under test during one call.

sys.monitoring (3.12) JUMP / BRANCH events; locations that are not backward jumps inside the
monitored tree return DISABLE on first hit, so only loop back-edges stay armed.
"""
from __future__ import annotations

import sys

TOOL_ID = 4


class LoopBudgetExceeded(Exception):
    pass


class LoopGuard:
    def __init__(self, path_prefix: str):
        self.prefix = path_prefix
        self.active = False
        self.count = 0
        self.budget = 0
        self.max_seen = 0
        self.max_ratio = 0.0
        self.calls = 0
        self.total_back_edges = 0
        self.installed = False
        self.sites = set()

    def install(self):
        mon = sys.monitoring
        if self.installed:
            return
        mon.use_tool_id(TOOL_ID, "spverif-loopguard")
        mon.register_callback(TOOL_ID, mon.events.JUMP, self._jump)
        mon.register_callback(TOOL_ID, mon.events.BRANCH, self._jump)
        mon.set_events(TOOL_ID, mon.events.JUMP | mon.events.BRANCH)
        self.installed = True

    def uninstall(self):
        if self.installed:
            sys.monitoring.set_events(TOOL_ID, 0)
            sys.monitoring.free_tool_id(TOOL_ID)
            self.installed = False

    def _jump(self, code, src, dst):
        if dst >= src or not code.co_filename.startswith(self.prefix):
            return sys.monitoring.DISABLE
        if self.active:
            self.count += 1
            if self.count > self.budget:
                self.active = False
                raise LoopBudgetExceeded(f"{self.count} backward jumps > budget {self.budget} in {code.co_qualname}")
        return None

    def call(self, budget: int, fn, *a, **kw):
        self.count = 0
        self.budget = budget
        self.active = True
        try:
            return fn(*a, **kw)
        finally:
            self.active = False
            self.calls += 1
            self.total_back_edges += self.count
            if self.count > self.max_seen:
                self.max_seen = self.count
