"""Red-zone buffer: a bytes-like object (PEP 688 __buffer__) that records which offsets a decoder dereferences.

Slices return child views that remember their offset in the parent, so `data[6:]` followed by reading five octets
registers as five octets, not as a read to the end.  A dereference (integer index, buffer export, iteration, bytes(),
comparison, hex, decode, concatenation) at an offset >= limit is logged with the source line that did it.

The object is not a real `bytes` (isinstance tests in the library may take another path), so what it reports is
used to localise, never to decide (DESIGN C09).
"""
from __future__ import annotations

import sys


class Log:
    def __init__(self, limit: int, prefix: str):
        self.limit = limit
        self.prefix = prefix
        self.max_end = 0
        self.beyond = []          # (offset range, source line)

    def touch(self, a: int, b: int):
        if b > self.max_end:
            self.max_end = b
        if b > self.limit and a < b and len(self.beyond) < 5:
            f = sys._getframe(2)
            site = "?"
            while f is not None:
                fn = f.f_code.co_filename
                if fn.startswith(self.prefix):
                    site = f"{fn[len(self.prefix):].lstrip('/')}:{f.f_lineno} ({f.f_code.co_qualname})"
                    break
                f = f.f_back
            self.beyond.append((max(a, self.limit), b, site))


class RedZone:
    __slots__ = ("_b", "_base", "_log")

    def __init__(self, data: bytes, log: Log, base: int = 0):
        self._b = bytes(data)
        self._base = base
        self._log = log

    def _all(self):
        self._log.touch(self._base, self._base + len(self._b))
        return self._b

    def __len__(self):
        return len(self._b)

    def __getitem__(self, i):
        if isinstance(i, slice):
            start, stop, step = i.indices(len(self._b))
            if step != 1:
                return self._all()[i]
            return RedZone(self._b[start:stop], self._log, self._base + start)
        v = self._b[i]
        idx = i if i >= 0 else len(self._b) + i
        self._log.touch(self._base + idx, self._base + idx + 1)
        return v

    def __buffer__(self, flags):
        return memoryview(self._all())

    def __bytes__(self):
        return self._all()

    def __iter__(self):
        return iter(self._all())

    def __eq__(self, other):
        return self._all() == (other._all() if isinstance(other, RedZone) else other)

    def __ne__(self, other):
        return not self.__eq__(other)

    def __hash__(self):
        return hash(self._all())

    def __add__(self, other):
        return self._all() + bytes(other)

    def __radd__(self, other):
        if isinstance(other, bytearray):
            return bytearray(other) + self._all()
        return bytes(other) + self._all()

    def __repr__(self):
        return f"RedZone({self._b!r}, base={self._base})"

    def hex(self, *a, **kw):
        return self._all().hex(*a, **kw)

    def decode(self, *a, **kw):
        return self._all().decode(*a, **kw)

    def rstrip(self, *a):
        return self._all().rstrip(*a)
