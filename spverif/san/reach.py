"""Reach counters: which functions of the anchored source files did the workload really enter?

sys.monitoring PY_START on code objects of the tree under test; each function is counted up to CAP calls and
then its event location is DISABLEd, so the cost is bounded (the numbers are evidence of reach, not profiles).
"""
from __future__ import annotations

import os
import sys
import types

TOOL_ID = 5
CAP = 2000


class Reach:
    def __init__(self, prefix: str):
        self.prefix = prefix
        self.counts = {}
        self.lines = set()
        self.installed = False

    def install(self):
        mon = sys.monitoring
        if self.installed:
            return
        mon.use_tool_id(TOOL_ID, "spverif-reach")
        mon.register_callback(TOOL_ID, mon.events.PY_START, self._start)
        mon.register_callback(TOOL_ID, mon.events.LINE, self._line)
        mon.set_events(TOOL_ID, mon.events.PY_START | mon.events.LINE)
        self.installed = True

    def _line(self, code, line):
        # one-shot per line: record and disable this location, so the cost is paid once per source line
        if code.co_filename.startswith(self.prefix):
            self.lines.add((code.co_filename, line))
        return sys.monitoring.DISABLE

    def lines_hit(self, rel_files):
        out = {}
        for fn, line in self.lines:
            rel = fn[len(self.prefix):].lstrip("/")
            if rel in rel_files:
                out.setdefault(rel, []).append(line)
        return {k: sorted(v) for k, v in out.items()}

    def _start(self, code, offset):
        if not code.co_filename.startswith(self.prefix):
            return sys.monitoring.DISABLE
        c = self.counts.get(code, 0) + 1
        self.counts[code] = c
        if c >= CAP:
            return sys.monitoring.DISABLE
        return None

    def entered(self, rel_files):
        """{'<rel file>:<qualname>': calls (capped)} for the given repo-relative files."""
        out = {}
        for code, n in self.counts.items():
            rel = code.co_filename[len(self.prefix):].lstrip("/")
            if rel in rel_files and code.co_name not in ("<module>", "<lambda>", "<listcomp>", "<genexpr>", "<dictcomp>", "<setcomp>"):
                key = f"{rel}:{code.co_qualname}"
                out[key] = out.get(key, 0) + n
        return out


def defined_functions(prefix: str, rel_files):
    """All function qualnames defined in the given files of the imported tree (walks module code objects)."""
    out = set()
    for rel in rel_files:
        path = os.path.join(prefix, rel)
        try:
            with open(path) as f:
                top = compile(f.read(), path, "exec")
        except Exception:
            continue
        stack = [top]
        while stack:
            c = stack.pop()
            for k in c.co_consts:
                if isinstance(k, types.CodeType):
                    stack.append(k)
                    if k.co_name not in ("<lambda>", "<listcomp>", "<genexpr>", "<dictcomp>", "<setcomp>") and not _is_class_body(k):
                        out.add(f"{rel}:{k.co_qualname}")
    return out


def _is_class_body(code) -> bool:
    return "__qualname__" in code.co_names and "__module__" in code.co_names


def function_lines(prefix: str, rel_files):
    """{rel file: {line: qualname}} for every line that starts a statement inside a function body of the file."""
    out = {}
    for rel in rel_files:
        path = os.path.join(prefix, rel)
        try:
            with open(path) as f:
                top = compile(f.read(), path, "exec")
        except Exception:
            continue
        m = out.setdefault(rel, {})
        stack = [top]
        while stack:
            c = stack.pop()
            for k in c.co_consts:
                if isinstance(k, types.CodeType):
                    stack.append(k)
                    if _is_class_body(k):
                        continue
                    for _s, _e, ln in k.co_lines():
                        if ln is not None and ln != k.co_firstlineno:
                            m.setdefault(ln, k.co_qualname)
    return out


def ranges(nums):
    nums = sorted(nums)
    out, i = [], 0
    while i < len(nums):
        j = i
        while j + 1 < len(nums) and nums[j + 1] == nums[j] + 1:
            j += 1
        out.append(str(nums[i]) if i == j else f"{nums[i]}-{nums[j]}")
        i = j + 1
    return ",".join(out)
