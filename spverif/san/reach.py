"""Reach counters: which functions of the anchored source files did the workload really enter?

sys.monitoring PY_START on code objects of the tree under test; each function is counted up to CAP calls and
then its event location is DISABLEd, so the cost is bounded (the numbers are evidence of reach, not profiles).
"""
from __future__ import annotations

import os
import sys
import types

TOOL_ID = 5
CAP = 2000


class Reach:
    def __init__(self, prefix: str):
        self.prefix = prefix
        self.counts = {}
        self.installed = False

    def install(self):
        mon = sys.monitoring
        if self.installed:
            return
        mon.use_tool_id(TOOL_ID, "spverif-reach")
        mon.register_callback(TOOL_ID, mon.events.PY_START, self._start)
        mon.set_events(TOOL_ID, mon.events.PY_START)
        self.installed = True

    def _start(self, code, offset):
        if not code.co_filename.startswith(self.prefix):
            return sys.monitoring.DISABLE
        c = self.counts.get(code, 0) + 1
        self.counts[code] = c
        if c >= CAP:
            return sys.monitoring.DISABLE
        return None

    def entered(self, rel_files):
        """{'<rel file>:<qualname>': calls (capped)} for the given repo-relative files."""
        out = {}
        for code, n in self.counts.items():
            rel = code.co_filename[len(self.prefix):].lstrip("/")
            if rel in rel_files and code.co_name not in ("<module>", "<lambda>", "<listcomp>", "<genexpr>", "<dictcomp>", "<setcomp>"):
                key = f"{rel}:{code.co_qualname}"
                out[key] = out.get(key, 0) + n
        return out


def defined_functions(prefix: str, rel_files):
    """All function qualnames defined in the given files of the imported tree (walks module code objects)."""
    out = set()
    for rel in rel_files:
        path = os.path.join(prefix, rel)
        try:
            with open(path) as f:
                top = compile(f.read(), path, "exec")
        except Exception:
            continue
        stack = [top]
        while stack:
            c = stack.pop()
            for k in c.co_consts:
                if isinstance(k, types.CodeType):
                    stack.append(k)
                    if k.co_name not in ("<lambda>", "<listcomp>", "<genexpr>", "<dictcomp>", "<setcomp>") and not _is_class_body(k):
                        out.add(f"{rel}:{k.co_qualname}")
    return out


def _is_class_body(code) -> bool:
    return "__qualname__" in code.co_names and "__module__" in code.co_names
