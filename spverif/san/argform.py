"""Argument-form sanitizer for decoder inputs.

Callers hand decoders ``bytes`` (a datagram), ``bytearray`` (the result of another ``pack()``, a receive buffer) - the
repository's own tests do both.  This sanitizer wraps every decoding entry point of the library classes (``unpack``,
``unpack_from_raw``, ``read_from_raw``, ``from_raw``, ``from_bytes``, ``from_raw_to_holder``) and, for about half of the
calls (decided by the content, so that a replay takes the same decision), hands the callee the *other* form of the same
octets.  A decoder whose behaviour depends on the form of its input (an ``isinstance(x, bytes)`` fast path, a cache keyed on
the object, an in-place edit of a bytearray) then disagrees with the reference model in the ordinary comparisons.

When the sanitizer itself created the bytearray it passes on, it overwrites that buffer as soon as the decoder has returned
(receive-buffer re-use), so a decoded object that aliases its input instead of owning its octets is exposed.

It also checks that a decoder leaves a ``bytearray`` it was given unchanged; a write into the caller's receive buffer is
recorded (``written_input_buffers``) and reported by the checks that arm the sanitizer as informational evidence.
"""
from __future__ import annotations

import functools
import sys

COUNT = {"calls": 0, "swapped_to_bytearray": 0, "swapped_to_bytes": 0, "written_input_buffers": 0, "reused_input_buffers": 0, "entry_points": 0}
WRITTEN = []
NAMES = ("unpack", "unpack_from_raw", "read_from_raw", "from_raw", "from_bytes", "from_raw_to_holder")


def _wrap(fn, skip):
    @functools.wraps(fn)
    def wrapper(*args, **kw):
        if len(args) > skip and type(args[skip]) in (bytes, bytearray):
            b = args[skip]
            COUNT["calls"] += 1
            own = False
            if (len(b) + (b[0] if b else 0) + (b[-1] if b else 0)) & 1:
                if type(b) is bytes:
                    nb = bytearray(b)
                    own = True
                    COUNT["swapped_to_bytearray"] += 1
                else:
                    nb = bytes(b)
                    COUNT["swapped_to_bytes"] += 1
                args = args[:skip] + (nb,) + args[skip + 1:]
                b = nb
            if type(b) is bytearray:
                snap = bytes(b)
                try:
                    return fn(*args, **kw)
                finally:
                    if bytes(b) != snap:
                        COUNT["written_input_buffers"] += 1
                        if len(WRITTEN) < 5:
                            WRITTEN.append(getattr(fn, "__qualname__", repr(fn)))
                    if own:
                        # the receive buffer is re-used by its owner as soon as the decoder has returned: a decoded object
                        # that still refers to it (instead of owning its octets) changes under the ordinary comparisons
                        for i in range(len(b)):
                            b[i] ^= 0xFF
                        COUNT["reused_input_buffers"] += 1
        return fn(*args, **kw)
    wrapper.__spv_argform__ = True
    return wrapper


def install():
    import importlib
    import pkgutil
    import spacepackets
    for m in pkgutil.walk_packages(spacepackets.__path__, "spacepackets."):
        try:
            importlib.import_module(m.name)
        except Exception:  # noqa: BLE001
            pass
    for name, mod in list(sys.modules.items()):
        if not name.startswith("spacepackets") or mod is None:
            continue
        for cls in list(vars(mod).values()):
            if not isinstance(cls, type) or getattr(cls, "__module__", "") != name:
                continue
            for attr in NAMES:
                raw = vars(cls).get(attr)
                if raw is None:
                    continue
                if isinstance(raw, classmethod):
                    f = raw.__func__
                    if getattr(f, "__spv_argform__", False):
                        continue
                    setattr(cls, attr, classmethod(_wrap(f, 1)))
                elif isinstance(raw, staticmethod):
                    f = raw.__func__
                    if getattr(f, "__spv_argform__", False):
                        continue
                    setattr(cls, attr, staticmethod(_wrap(f, 0)))
                elif callable(raw) and not getattr(raw, "__isabstractmethod__", False):
                    if getattr(raw, "__spv_argform__", False):
                        continue
                    setattr(cls, attr, _wrap(raw, 1))
                else:
                    continue
                COUNT["entry_points"] += 1
    return COUNT["entry_points"]


def report(ctx):
    ctx.extra["argform_sanitizer"] = dict(COUNT)
    if WRITTEN:
        ctx.note("decoder wrote into the bytearray it was given: " + ", ".join(sorted(set(WRITTEN))))
