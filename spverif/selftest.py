"""Oracle self-tests run by bin/setup (golden vectors; model round trips; CRC models vs crcmod)."""
import sys

from spverif.core import repo as repo_mod


def main() -> int:
    repo_mod.setup_repo_import()
    from spverif.ref import crc, ccsds, pus, cds, cfdp, uslp
    # the third-party CRC routine the library is built on, taken directly (the self-test must not depend on the tree under test)
    from crcmod.predefined import mkPredefinedCrcFun
    CRC16_CCITT_FUNC = mkPredefinedCrcFun(crc_name="crc-ccitt-false")
    import random
    r = random.Random(1)
    assert crc.crc16_bitwise(b"123456789") == 0x29B1 == crc.crc16(b"123456789") == CRC16_CCITT_FUNC(b"123456789")
    for _ in range(500):
        d = r.randbytes(r.randrange(0, 300))
        assert crc.crc16(d) == crc.crc16_bitwise(d) == CRC16_CCITT_FUNC(d)
    assert pus.tc(1, 22, 17, 1, 0, 0xF, b"").hex() == "1801c01600062f11010000ab62"
    assert pus.tc(1, 0, 17, 1, 0, 0xF, b"").hex() == "1801c00000062f11010000161d"
    assert pus.tm(1, 0, 17, 2, 0, 0, 0, b"", b"").hex() == "0801c00000082011020000000086d7"
    assert ccsds.encode_header(0, 1, 0, 1, 3, 0, 0).hex() == "1001c0000000"
    assert cds.encode(0x0102, 0x03040506).hex() == "40010203040506" and cds.UNIX_DAY_OFFSET == 4383
    assert pus.request_id(0, 1, 0, 0x22, 3, 17).hex() == "1022c011"
    for _ in range(500):
        v = r.getrandbits(48).to_bytes(6, "big")
        assert ccsds.encode_header(**ccsds.decode_header(v)) == v
    # USLP vectors asserted by tests/test_uslp.py

    print("oracle self-test ok")
    return 0


if __name__ == "__main__":
    sys.exit(main())
