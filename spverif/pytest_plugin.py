"""pytest plugin: run the repository's own tests and doctests with the online contracts attached.

Enabled with `-p spverif.pytest_plugin` and SPACEPACKETS_VERIF=1; writes the recorder to $SPV_PLUGIN_OUT.
"""
import os


def pytest_configure(config):
    if os.environ.get("SPACEPACKETS_VERIF") != "1":
        return
    import spacepackets  # the tree under test (cwd of the pytest run)
    from spverif import contracts
    config._spv_wrapped = contracts.install()
    config._spv_tree = os.path.dirname(os.path.abspath(spacepackets.__file__))


def pytest_sessionfinish(session, exitstatus):
    out = os.environ.get("SPV_PLUGIN_OUT")
    if not out or os.environ.get("SPACEPACKETS_VERIF") != "1":
        return
    from spverif import contracts
    import json
    contracts.REC.dump(out)
    with open(out) as f:
        d = json.load(f)
    d["exitstatus"] = int(exitstatus)
    d["wrapped"] = getattr(session.config, "_spv_wrapped", 0)
    d["tree"] = getattr(session.config, "_spv_tree", "")
    d["testscollected"] = session.testscollected
    d["testsfailed"] = session.testsfailed
    with open(out, "w") as f:
        json.dump(d, f)
