"""Online contracts on the real functions (post-conditions vs the reference models).

Installed by the pytest plugin so that every call made by the repository's own test-suite and
doctests is observed.  Contracts never raise: they record into a Recorder and let the call proceed,
so a test that passes without them passes with them.  Each contract has a precondition (fields in
range, object self-consistent); when it does not hold the evaluation is counted as 'skipped', never
as a violation.
"""
from __future__ import annotations

import functools
import json
import traceback
from typing import Any, Callable, Dict

from spverif.ref import ccsds as H
from spverif.ref import pus as P
from spverif.ref import cfdp as R
from spverif.ref import cds as T
from spverif.ref.crc import crc16


class Recorder:
    def __init__(self):
        self.monitors: Dict[str, Dict[str, int]] = {}
        self.violations: Dict[str, dict] = {}
        self.skipped: Dict[str, int] = {}

    def ev(self, name):
        m = self.monitors.setdefault(name, {"evaluations": 0, "violations": 0})
        m["evaluations"] += 1

    def skip(self, name):
        self.skipped[name] = self.skipped.get(name, 0) + 1

    def fail(self, name, relation, features, **witness):
        prop = name.split(":")[0]
        sig = f"{prop}/{name.split(':', 1)[1]}/{relation}/{features}"
        m = self.monitors.setdefault(name, {"evaluations": 0, "violations": 0})
        m["violations"] += 1
        v = self.violations.setdefault(sig, {"signature": sig, "count": 0, "witnesses": []})
        v["count"] += 1
        if len(v["witnesses"]) < 3:
            w = {k: (x.hex() if isinstance(x, (bytes, bytearray)) else x if isinstance(x, (int, str, float, bool, type(None), list, dict)) else repr(x)) for k, x in witness.items()}
            w["stack"] = "".join(traceback.format_stack(limit=8)[:-2])[-900:]
            v["witnesses"].append(w)

    def dump(self, path):
        with open(path, "w") as f:
            json.dump({"monitors": self.monitors, "violations": self.violations, "skipped": self.skipped}, f)


REC = Recorder()


def _post(owner, attr, name, check: Callable, kind="method"):
    """Wrap owner.attr; check(rec, name, args, kwargs, result|None, exc|None) runs after the call and must not raise."""
    raw = owner.__dict__[attr] if isinstance(owner, type) else getattr(owner, attr)
    fn = raw.__func__ if isinstance(raw, (classmethod, staticmethod)) else raw

    @functools.wraps(fn)
    def wrapper(*a, **kw):
        try:
            res = fn(*a, **kw)
        except BaseException as e:  # noqa: BLE001
            try:
                check(REC, name, a, kw, None, e)
            except Exception as ce:  # a broken contract must never change the program
                REC.skipped[name + ":contract_error:" + type(ce).__name__] = REC.skipped.get(name + ":contract_error:" + type(ce).__name__, 0) + 1
            raise
        try:
            check(REC, name, a, kw, res, None)
        except Exception as ce:
            REC.skipped[name + ":contract_error:" + type(ce).__name__] = REC.skipped.get(name + ":contract_error:" + type(ce).__name__, 0) + 1
        return res
    if isinstance(raw, classmethod):
        setattr(owner, attr, classmethod(wrapper))
    elif isinstance(raw, staticmethod):
        setattr(owner, attr, staticmethod(wrapper))
    else:
        setattr(owner, attr, wrapper)


def _arg(a, kw, idx, name):
    return kw[name] if name in kw else a[idx]


# ----------------------------------------------------------------- contracts
def _hdr_in_range(h):
    try:
        return (0 <= h.ccsds_version < 8 and int(h.packet_type) in (0, 1) and 0 <= h.apid < 2048 and int(h.seq_flags) in (0, 1, 2, 3)
                and 0 <= h.seq_count < 16384 and 0 <= h.data_len < 65536)
    except Exception:
        return False


def c_sph_pack(rec, name, a, kw, res, exc):
    h = a[0]
    if exc is not None or not _hdr_in_range(h):
        return rec.skip(name)
    rec.ev(name)
    want = H.encode_header(h.ccsds_version, int(h.packet_type), int(bool(h.sec_header_flag)), h.apid, int(h.seq_flags), h.seq_count, h.data_len)
    if bytes(res) != want:
        rec.fail(name, "octets_differ_from_model", "", observed=bytes(res), expected=want)


def c_sph_unpack(rec, name, a, kw, res, exc):
    data = _arg(a, kw, 1, "data")
    try:
        n = len(data)
    except Exception:
        return rec.skip(name)
    rec.ev(name)
    if n < 6:
        if exc is None:
            rec.fail(name, "short_input_decoded", "", data=bytes(data))
        return
    if exc is not None:
        return rec.fail(name, "valid_length_refused", type(exc).__name__, data=bytes(data[:6]))
    d = H.decode_header(data)
    got = {"version": res.ccsds_version, "ptype": int(res.packet_type), "shf": int(bool(res.sec_header_flag)), "apid": res.apid, "flags": int(res.seq_flags),
           "count": res.seq_count, "length": res.data_len}
    if got != d:
        rec.fail(name, "fields_differ_from_model", ",".join(k for k in d if d[k] != got[k]), data=bytes(data[:6]), observed=got, expected=d)
    if res.packet_len != d["length"] + 7:
        rec.fail(name, "packet_len", "", observed=res.packet_len)


def c_tc_pack(rec, name, a, kw, res, exc):
    t = a[0]
    if exc is not None or not _hdr_in_range(t.sp_header):
        return rec.skip(name)
    recalc = kw.get("recalc_crc", a[1] if len(a) > 1 else True)
    if not recalc:
        return rec.skip(name)
    rec.ev(name)
    raw = bytes(res)
    if crc16(raw[:-2]).to_bytes(2, "big") != raw[-2:]:
        rec.fail(name, "trailer_is_not_crc_of_preceding_octets", "", observed=raw)
    sh = t.pus_tc_sec_header
    try:
        ok_fields = 0 <= sh.service < 256 and 0 <= sh.subservice < 256 and 0 <= sh.source_id < 65536 and 0 <= sh.ack_flags < 16
    except Exception:
        ok_fields = False
    h = t.sp_header
    if ok_fields and h.data_len == len(raw) - 7 and int(h.packet_type) == 1 and h.sec_header_flag and int(h.seq_flags) == 3:
        want = P.tc(h.apid, h.seq_count, sh.service, sh.subservice, sh.source_id, sh.ack_flags, bytes(t.app_data), version=h.ccsds_version)
        if raw != want:
            rec.fail(name, "octets_differ_from_model", "", observed=raw, expected=want)
    elif ok_fields and h.data_len != len(raw) - 7:
        rec.skip(name + ":inconsistent_length_field")


def c_tc_unpack(rec, name, a, kw, res, exc):
    data = _arg(a, kw, 1, "data")
    if exc is not None or data is None:
        return rec.skip(name)
    rec.ev(name)
    try:
        d = P.decode_tc(bytes(data))
    except AssertionError:
        return rec.fail(name, "undecodable_by_model_but_accepted", "", data=bytes(data)[:64])
    if not d["crc_ok"]:
        return rec.fail(name, "bad_crc_accepted", "", data=bytes(data)[:64])
    got = (res.apid, res.seq_count, res.service, res.subservice, res.source_id, res.pus_tc_sec_header.ack_flags, bytes(res.app_data), res.packet_len)
    exp = (d["apid"], d["count"], d["service"], d["subservice"], d["source_id"], d["ack"], d["data"], d["total"])
    if got != exp:
        rec.fail(name, "fields_differ_from_model", "", observed=repr(got)[:300], expected=repr(exp)[:300])


def c_tm_pack(rec, name, a, kw, res, exc):
    t = a[0]
    if exc is not None or not _hdr_in_range(t.space_packet_header):
        return rec.skip(name)
    recalc = kw.get("recalc_crc", a[1] if len(a) > 1 else True)
    if not recalc:
        return rec.skip(name)
    rec.ev(name)
    raw = bytes(res)
    if crc16(raw[:-2]).to_bytes(2, "big") != raw[-2:]:
        rec.fail(name, "trailer_is_not_crc_of_preceding_octets", "", observed=raw)
    sh = t.pus_tm_sec_header
    h = t.space_packet_header
    try:
        ok_fields = 0 <= sh.service < 256 and 0 <= sh.subservice < 256 and 0 <= sh.message_counter < 65536 and 0 <= sh.dest_id < 65536 and 0 <= sh.spacecraft_time_ref < 16
    except Exception:
        ok_fields = False
    if ok_fields and h.data_len == len(raw) - 7 and int(h.packet_type) == 0 and h.sec_header_flag and int(h.seq_flags) == 3 and int(sh.pus_version) == 2:
        want = P.tm(h.apid, h.seq_count, sh.service, sh.subservice, sh.message_counter, sh.dest_id, sh.spacecraft_time_ref, bytes(sh.timestamp), bytes(t.tm_data),
                    version=h.ccsds_version)
        if raw != want:
            rec.fail(name, "octets_differ_from_model", "", observed=raw, expected=want)


def c_tm_unpack(rec, name, a, kw, res, exc):
    data = _arg(a, kw, 1, "data")
    ts_len = _arg(a, kw, 2, "timestamp_len")
    if exc is not None or data is None:
        return rec.skip(name)
    rec.ev(name)
    try:
        d = P.decode_tm(bytes(data), ts_len)
    except AssertionError:
        return rec.fail(name, "undecodable_by_model_but_accepted", "", data=bytes(data)[:64], ts_len=ts_len)
    if not d["crc_ok"]:
        return rec.fail(name, "bad_crc_accepted", "", data=bytes(data)[:64])
    sh = res.pus_tm_sec_header
    got = (res.apid, res.seq_count, res.service, res.subservice, sh.message_counter, sh.dest_id, sh.spacecraft_time_ref, bytes(res.timestamp), bytes(res.tm_data), res.packet_len)
    exp = (d["apid"], d["count"], d["service"], d["subservice"], d["msg_counter"], d["dest_id"], d["time_ref"], d["timestamp"], d["data"], d["total"])
    if got != exp:
        rec.fail(name, "fields_differ_from_model", "", observed=repr(got)[:300], expected=repr(exp)[:300])


def c_pduhdr_pack(rec, name, a, kw, res, exc):
    h = a[0]
    if exc is not None:
        return rec.skip(name)
    try:
        idw, seqw = h.source_entity_id.byte_len, h.transaction_seq_num.byte_len
        if idw not in (1, 2, 4, 8) or seqw not in (1, 2, 4, 8) or h.dest_entity_id.byte_len != idw or not 0 <= h.pdu_data_field_len < 65536:
            return rec.skip(name)
        want = R.header(int(h.pdu_type), int(h.direction), int(h.transmission_mode), int(h.crc_flag), int(h.file_flag), h.pdu_data_field_len, int(h.seg_ctrl),
                        int(h.segment_metadata_flag), idw, seqw, h.source_entity_id.value, h.transaction_seq_num.value, h.dest_entity_id.value)
    except Exception:
        return rec.skip(name)
    rec.ev(name)
    if bytes(res) != want:
        rec.fail(name, "octets_differ_from_model", "", observed=bytes(res), expected=want)
    if h.header_len != len(want) or h.packet_len != len(want) + h.pdu_data_field_len:
        rec.fail(name, "header_len_or_packet_len", "", observed=[h.header_len, h.packet_len])


def c_pduhdr_unpack(rec, name, a, kw, res, exc):
    data = _arg(a, kw, 1, "data")
    rec.ev(name)
    try:
        d = R.decode_header(bytes(data))
    except R.RefError as e:
        if exc is None:
            rec.fail(name, "invalid_header_accepted", e.kind, data=bytes(data)[:24])
        return
    except Exception:
        return
    if exc is not None:
        return rec.fail(name, "valid_header_refused", type(exc).__name__, data=bytes(data)[:24])
    got = (int(res.pdu_type), int(res.direction), int(res.transmission_mode), int(res.crc_flag), int(res.file_flag), res.pdu_data_field_len, int(res.seg_ctrl),
           int(res.segment_metadata_flag), res.source_entity_id.byte_len, res.transaction_seq_num.byte_len, res.source_entity_id.value, res.transaction_seq_num.value,
           res.dest_entity_id.value)
    exp = tuple(d[k] for k in ("pdu_type", "direction", "mode", "crc", "large", "data_len", "segctrl", "segmeta", "idw", "seqw", "src", "seq", "dst"))
    if got != exp:
        rec.fail(name, "fields_differ_from_model", "", observed=got, expected=exp)


def c_pdu_pack(rec, name, a, kw, res, exc):
    """Every PDU: packed length == packet_len, length field == octets after the header, CRC trailer iff flag."""
    pdu = a[0]
    if exc is not None:
        return rec.skip(name)
    rec.ev(name)
    raw = bytes(res)
    h = pdu.pdu_header
    hl = 4 + 2 * h.source_entity_id.byte_len + h.transaction_seq_num.byte_len
    if len(raw) != pdu.packet_len:
        rec.fail(name, "packed_length_differs_from_packet_len", type(pdu).__name__, packed=len(raw), packet_len=pdu.packet_len)
    if int.from_bytes(raw[1:3], "big") != len(raw) - hl:
        rec.fail(name, "length_field_differs_from_octets_after_header", type(pdu).__name__, field=int.from_bytes(raw[1:3], "big"), octets=len(raw) - hl)
    if int(h.crc_flag) == 1 and crc16(raw) != 0:
        rec.fail(name, "crc_trailer_wrong", type(pdu).__name__, observed=raw[:80])


def c_pdu_unpack(rec, name, a, kw, res, exc):
    """Accepted PDU octets must be decodable by the model with the same kind and total length."""
    data = _arg(a, kw, 1, "data")
    if exc is not None:
        return rec.skip(name)
    rec.ev(name)
    try:
        d = R.decode_pdu(bytes(data))
    except R.RefError as e:
        return rec.fail(name, "model_refuses_what_the_decoder_accepted", f"{type(res).__name__}/{e.kind}", data=bytes(data)[:80])
    if res.packet_len != d["total"]:
        rec.fail(name, "packet_len_differs_from_model", type(res).__name__, observed=res.packet_len, expected=d["total"])


def c_tlv_pack(rec, name, a, kw, res, exc):
    t = a[0]
    if exc is not None:
        return rec.skip(name)
    rec.ev(name)
    want = R.tlv(int(t.tlv_type), bytes(t.value))
    if bytes(res) != want or t.packet_len != len(want):
        rec.fail(name, "octets_or_length_differ_from_model", "", observed=bytes(res), expected=want)


def c_tlv_unpack(rec, name, a, kw, res, exc):
    data = _arg(a, kw, 1, "data")
    rec.ev(name)
    try:
        t, v, n = R.decode_tlv(bytes(data))
    except R.RefError as e:
        if exc is None:
            rec.fail(name, "invalid_tlv_accepted", e.kind, data=bytes(data)[:24])
        return
    if exc is not None:
        return rec.fail(name, "valid_tlv_refused", type(exc).__name__, data=bytes(data)[:24])
    if (int(res.tlv_type), bytes(res.value), res.packet_len) != (t, v, n):
        rec.fail(name, "fields_differ_from_model", "", observed=[int(res.tlv_type), bytes(res.value).hex(), res.packet_len], expected=[t, v.hex(), n])


def c_lv_pack(rec, name, a, kw, res, exc):
    if exc is not None:
        return rec.skip(name)
    rec.ev(name)
    want = R.lv(bytes(a[0].value))
    if bytes(res) != want or a[0].packet_len != len(want):
        rec.fail(name, "octets_or_length_differ_from_model", "", observed=bytes(res), expected=want)


def c_lv_unpack(rec, name, a, kw, res, exc):
    data = _arg(a, kw, 1, "raw_bytes")
    rec.ev(name)
    try:
        v, n = R.decode_lv(bytes(data))
    except R.RefError as e:
        if exc is None:
            rec.fail(name, "invalid_lv_accepted", e.kind, data=bytes(data)[:24])
        return
    if exc is not None:
        return rec.fail(name, "valid_lv_refused", type(exc).__name__, data=bytes(data)[:24])
    if (bytes(res.value), res.packet_len) != (v, n):
        rec.fail(name, "fields_differ_from_model", "", observed=[bytes(res.value).hex(), res.packet_len])


def c_cds_pack(rec, name, a, kw, res, exc):
    t = a[0]
    if exc is not None or not (0 <= t.ccsds_days < 65536 and 0 <= t.ms_of_day < 2 ** 32):
        return rec.skip(name)
    rec.ev(name)
    if bytes(res) != T.encode(t.ccsds_days, t.ms_of_day):
        rec.fail(name, "octets_differ_from_model", "", observed=bytes(res))


def c_cds_setup(rec, name, a, kw, res, exc):
    t = a[0]
    if exc is not None or not (0 <= t.ccsds_days < 65536 and 0 <= t.ms_of_day < T.MS_PER_DAY):
        return rec.skip(name)
    rec.ev(name)
    if t.as_datetime() != T.instant(t.ccsds_days, t.ms_of_day):
        rec.fail(name, "datetime_differs_from_calendar_arithmetic", "pre1970" if t.ccsds_days < T.UNIX_DAY_OFFSET else "post1970",
                 days=t.ccsds_days, ms=t.ms_of_day, observed=t.as_datetime().isoformat())


def c_reqid_pack(rec, name, a, kw, res, exc):
    r = a[0]
    if exc is not None:
        return rec.skip(name)
    rec.ev(name)
    pid, psc = r.tc_packet_id, r.tc_psc
    try:
        want = P.request_id(r.ccsds_version, int(pid.ptype), int(bool(pid.sec_header_flag)), pid.apid, int(psc.seq_flags), psc.seq_count)
    except AssertionError:
        return rec.skip(name)
    if bytes(res) != want or r.as_u32() != int.from_bytes(want, "big"):
        rec.fail(name, "octets_or_u32_differ_from_model", "", observed=bytes(res), expected=want)


def c_ubf_init(rec, name, a, kw, res, exc):
    f = a[0]
    if exc is not None:
        return rec.skip(name)
    rec.ev(name)
    try:
        ok = bytes(f.as_bytes) == f.value.to_bytes(f.byte_len, "big") and len(f) == f.byte_len and int(f) == f.value
    except Exception:
        ok = False
    if not ok:
        rec.fail(name, "views_incoherent", f"w={getattr(f, 'byte_len', '?')}", value=getattr(f, "value", None))


def c_crc(fn, name):
    @functools.wraps(fn)
    def wrapper(data, *a, **kw):
        res = fn(data, *a, **kw)
        try:
            if not a and not kw:
                REC.ev(name)
                if res != crc16(bytes(data)):
                    REC.fail(name, "crcmod_disagrees_with_model", "", data=bytes(data)[:64], observed=res)
        except Exception:
            pass
        return res
    return wrapper


def c_escape(rec, name, a, kw, res, exc):
    """Any caller of a decoder: the outcome is a return value or a documented exception class."""
    from spverif.core.util import documented_errors, exc_sig
    rec.ev(name)
    if exc is not None and isinstance(exc, Exception) and not isinstance(exc, documented_errors()):
        # only judge calls whose first data argument is an octet string (a test handing in None or an int is not a decoder input)
        data = a[1] if len(a) > 1 else (list(kw.values())[0] if kw else None)
        if isinstance(data, (bytes, bytearray)):
            rec.fail(name, "undocumented_exception", exc_sig(exc), data=bytes(data)[:64])


def c_parser(fn, name):
    """parse_space_packets: nothing is invented, duplicated or reordered by one call (valid for any stream, with or without garbage)."""
    @functools.wraps(fn)
    def wrapper(analysis_queue, packet_ids, *a, **kw):
        try:
            before = b"".join(bytes(x) for x in analysis_queue)
        except Exception:
            before = None
        res = fn(analysis_queue, packet_ids, *a, **kw)
        try:
            if before is not None:
                REC.ev(name)
                after = b"".join(bytes(x) for x in analysis_queue)
                pos = 0
                ok = True
                for pkt in res:
                    j = before.find(bytes(pkt), pos)
                    if j < 0:
                        ok = False
                        break
                    pos = j + len(pkt)
                if not ok:
                    REC.fail(name, "returned_packet_is_not_a_substring_of_the_input_in_order", "", before=before[:120], returned=[bytes(x).hex()[:60] for x in res][:5])
                elif after and not before[pos:].endswith(after):
                    REC.fail(name, "queue_tail_is_not_a_suffix_of_the_unconsumed_input", "", before=before[:120], after=after[:120])
                elif len(after) + sum(len(x) for x in res) > len(before):
                    REC.fail(name, "more_octets_out_than_in", "", before=len(before), after=len(after))
        except Exception:
            pass
        return res
    return wrapper


def c_verif_add_tm(rec, name, a, kw, res, exc):
    """Model-independent invariants of the tracker, checked on every add_tm call of anybody."""
    # pre-state is captured by the pre-hook below (stored on the instance)
    v = a[0]
    pre = v.__dict__.pop("_spv_pre", None)
    if exc is not None or pre is None:
        return rec.skip(name)
    rec.ev(name)
    tm = a[1] if len(a) > 1 else kw.get("pus_1_tm")
    own = bytes(tm.tc_req_id.pack())
    now = {bytes(k.pack()): (bool(s.all_verifs_recvd), int(s.accepted), int(s.started), int(s.step), tuple(s.step_list), int(s.completed)) for k, s in v.verif_dict.items()}
    for k, st in pre.items():
        if k != own and now.get(k) != st:
            return rec.fail(name, "report_changed_other_telecommand", f"sub={int(tm.subservice)}")
    if own in pre and own in now:
        if pre[own][0] and not now[own][0]:
            rec.fail(name, "all_verifs_recvd_reverted", f"sub={int(tm.subservice)}")
        if pre[own][3] == 0 and now[own][3] != 0:
            rec.fail(name, "failed_step_overwritten", f"sub={int(tm.subservice)}")
    if res is not None and bool(res.completed) != (int(tm.subservice) in (2, 4, 6, 7, 8)):
        rec.fail(name, "completed_flag_wrong_for_subservice", f"sub={int(tm.subservice)}")
    if (res is None) != (own not in pre):
        rec.fail(name, "unknown_vs_known_answer", "")


def _pre_verif(cls):
    orig = cls.add_tm

    @functools.wraps(orig)
    def add_tm(self, *a, **kw):
        try:
            self.__dict__["_spv_pre"] = {bytes(k.pack()): (bool(s.all_verifs_recvd), int(s.accepted), int(s.started), int(s.step), tuple(s.step_list), int(s.completed))
                                         for k, s in self.verif_dict.items()}
        except Exception:
            pass
        return orig(self, *a, **kw)
    cls.add_tm = add_tm


def c_seq(rec, name, a, kw, res, exc):
    p = a[0]
    if exc is not None:
        return rec.skip(name)
    rec.ev(name)
    w = p.max_bit_width
    if not (isinstance(res, int) and 0 <= res < (1 << w)):
        return rec.fail(name, "returned_count_out_of_range", f"{type(p).__name__}", observed=res, width=w)
    fn = getattr(p, "file_name", None)
    if fn is not None:
        try:
            with open(fn, "rb") as f:
                line = f.readline().strip()
            if line != str((res + 1) % (1 << w)).encode():
                rec.fail(name, "file_does_not_hold_next_count", "", observed=line, returned=res, width=w)
        except OSError:
            pass


def c_uslp_hdr_pack(rec, name, a, kw, res, exc):
    h = a[0]
    if exc is not None:
        return rec.skip(name)
    try:
        from spverif.ref import uslp as U
        n = h.vcf_count_len
        if not (0 <= h.scid < 65536 and 0 <= h.vcid < 64 and 0 <= h.map_id < 16 and 0 <= h.frame_len < 65536 and 0 <= n < 8 and (n == 0 or 0 <= h.vcf_count < (1 << 8 * n))):
            return rec.skip(name)
        want = U.primary_header(h.scid, int(h.src_dest), h.vcid, h.map_id, h.frame_len, int(h.bypass_seq_ctrl_flag), int(h.prot_ctrl_cmd_flag), int(bool(h.op_ctrl_flag)), n,
                                h.vcf_count if n else 0)
    except Exception:
        return rec.skip(name)
    rec.ev(name)
    if bytes(res) != want or h.len() != len(want):
        rec.fail(name, "octets_differ_from_model", f"vcf_len={n}", observed=bytes(res), expected=want)


def c_factory(rec, name, a, kw, res, exc):
    data = a[0] if a else kw.get("data")
    if exc is not None or res is None:
        return rec.skip(name)
    rec.ev(name)
    try:
        d = R.decode_header(bytes(data))
    except R.RefError:
        return rec.fail(name, "header_refused_by_model_but_factory_returned_object", "")
    want = "FileDataPdu" if d["pdu_type"] == 1 else {4: "EofPdu", 5: "FinishedPdu", 6: "AckPdu", 7: "MetadataPdu", 8: "NakPdu", 9: "PromptPdu", 12: "KeepAlivePdu"}.get(bytes(data)[d["header_len"]])
    if type(res).__name__ != want:
        rec.fail(name, "wrong_pdu_kind", f"{type(res).__name__}_for_{want}", data=bytes(data)[:40])


def install():
    """Wrap the real callables in place.  Returns the number of wrapped targets."""
    from spacepackets.ccsds.spacepacket import SpacePacketHeader
    from spacepackets.ccsds.time import CdsShortTimestamp
    from spacepackets.ecss.tc import PusTc
    from spacepackets.ecss.tm import PusTm
    from spacepackets.ecss.req_id import RequestId
    from spacepackets.cfdp.pdu import PduHeader, AckPdu, EofPdu, FileDataPdu, FinishedPdu, KeepAlivePdu, MetadataPdu, NakPdu, PromptPdu
    from spacepackets.cfdp.tlv import CfdpTlv
    from spacepackets.cfdp.lv import CfdpLv
    from spacepackets.util import UnsignedByteField
    import spacepackets.crc as crcmod_holder
    import sys
    n = 0
    table = [
        (SpacePacketHeader, "pack", "C01:contract.SpacePacketHeader.pack", c_sph_pack),
        (SpacePacketHeader, "unpack", "C01:contract.SpacePacketHeader.unpack", c_sph_unpack),
        (PusTc, "pack", "C02:contract.PusTc.pack", c_tc_pack),
        (PusTc, "unpack", "C02:contract.PusTc.unpack", c_tc_unpack),
        (PusTm, "pack", "C03:contract.PusTm.pack", c_tm_pack),
        (PusTm, "unpack", "C03:contract.PusTm.unpack", c_tm_unpack),
        (PduHeader, "pack", "C05:contract.PduHeader.pack", c_pduhdr_pack),
        (PduHeader, "unpack", "C05:contract.PduHeader.unpack", c_pduhdr_unpack),
        (CfdpTlv, "pack", "C08:contract.CfdpTlv.pack", c_tlv_pack),
        (CfdpTlv, "unpack", "C08:contract.CfdpTlv.unpack", c_tlv_unpack),
        (CfdpLv, "pack", "C08:contract.CfdpLv.pack", c_lv_pack),
        (CfdpLv, "unpack", "C08:contract.CfdpLv.unpack", c_lv_unpack),
        (CdsShortTimestamp, "pack", "C14:contract.CdsShortTimestamp.pack", c_cds_pack),
        (CdsShortTimestamp, "_setup", "C14:contract.CdsShortTimestamp.datetime", c_cds_setup),
        (RequestId, "pack", "C15:contract.RequestId.pack", c_reqid_pack),
        (UnsignedByteField, "__init__", "C20:contract.UnsignedByteField.init", c_ubf_init),
    ]
    for cls in (AckPdu, EofPdu, FinishedPdu, KeepAlivePdu, MetadataPdu, NakPdu, PromptPdu):
        table.append((cls, "pack", "C06:contract.directive_pdu.pack", c_pdu_pack))
        table.append((cls, "pack", "C11:contract.pdu.length_consistency", c_pdu_pack))
        table.append((cls, "unpack", "C06:contract.directive_pdu.unpack", c_pdu_unpack))
    table.append((FileDataPdu, "pack", "C07:contract.file_data_pdu.pack", c_pdu_pack))
    table.append((FileDataPdu, "pack", "C11:contract.pdu.length_consistency", c_pdu_pack))
    table.append((FileDataPdu, "unpack", "C07:contract.file_data_pdu.unpack", c_pdu_unpack))
    # escape monitor on every decoder class method that takes octets
    for cls in (SpacePacketHeader, PusTc, PusTm, PduHeader, CfdpTlv, CfdpLv, AckPdu, EofPdu, FinishedPdu, KeepAlivePdu, MetadataPdu, NakPdu, PromptPdu, FileDataPdu, RequestId,
                CdsShortTimestamp):
        table.append((cls, "unpack", "C10:contract.escape", c_escape))
    for owner, attr, name, chk in table:
        _post(owner, attr, name, chk)
        n += 1
    # C12 factory, C16 tracker, C17 USLP header, C19 counters, C13 parser
    from spacepackets.cfdp.pdu import PduFactory
    from spacepackets.ecss.pus_verificator import PusVerificator
    from spacepackets.uslp.header import PrimaryHeader
    from spacepackets import seqcount
    import spacepackets.ccsds.spacepacket as spmod
    _post(PduFactory, "from_raw", "C12:contract.factory.kind", c_factory)
    _pre_verif(PusVerificator)
    _post(PusVerificator, "add_tm", "C16:contract.tracker.invariants", c_verif_add_tm)
    _post(PrimaryHeader, "pack", "C17:contract.PrimaryHeader.pack", c_uslp_hdr_pack)
    _post(seqcount.SeqCountProvider, "get_and_increment", "C19:contract.counter.range_and_file", c_seq)
    _post(seqcount.FileSeqCountProvider, "get_and_increment", "C19:contract.counter.range_and_file", c_seq)
    n += 5
    orig_parse = spmod.parse_space_packets
    wrapped_parse = c_parser(orig_parse, "C13:contract.parser.no_invention")
    for mod in list(sys.modules.values()):
        if mod is not None and getattr(mod, "__name__", "").startswith(("spacepackets", "tests")) and getattr(mod, "parse_space_packets", None) is orig_parse:
            setattr(mod, "parse_space_packets", wrapped_parse)
            n += 1
    # CRC function: rebind in every module that imported the name
    orig = crcmod_holder.CRC16_CCITT_FUNC
    wrapped = c_crc(orig, "C04:contract.crc_function_vs_model")
    for mod in list(sys.modules.values()):
        if mod is not None and getattr(mod, "__name__", "").startswith("spacepackets") and getattr(mod, "CRC16_CCITT_FUNC", None) is orig:
            setattr(mod, "CRC16_CCITT_FUNC", wrapped)
            n += 1
    return n
