"""CCSDS 301.0-B-4 3.3 CDS, 16-bit day segment, 32-bit ms of day, epoch 1958-01-01."""
import datetime as _dt

EPOCH = _dt.datetime(1958, 1, 1, tzinfo=_dt.timezone.utc)
UNIX = _dt.datetime(1970, 1, 1, tzinfo=_dt.timezone.utc)
MS_PER_DAY = 86_400_000
UNIX_DAY_OFFSET = (UNIX - EPOCH).days          # 4383, computed by the calendar, not copied


def encode(days, ms) -> bytes:
    assert 0 <= days < 65536 and 0 <= ms < 2 ** 32
    return b"\x40" + days.to_bytes(2, "big") + ms.to_bytes(4, "big")


def decode(b):
    b = bytes(b[:7])
    assert len(b) == 7
    return int.from_bytes(b[1:3], "big"), int.from_bytes(b[3:7], "big")


def pfield_ok(p: int) -> bool:
    """time code id (bits 4..6) == 0b100 and day-segment length bit (bit 2) == 0."""
    return ((p >> 4) & 0b111) == 0b100 and ((p >> 2) & 1) == 0


def instant(days, ms) -> _dt.datetime:
    return EPOCH + _dt.timedelta(days=days, milliseconds=ms)


def unix_seconds_exact(days, ms):
    """Exact rational unix seconds as (numerator_ms) : total milliseconds since the Unix epoch."""
    return (days - UNIX_DAY_OFFSET) * MS_PER_DAY + ms


def from_datetime(dt: _dt.datetime):
    """floor of the exact offset in ms -> (days, ms_of_day)."""
    delta = dt - EPOCH
    total_us = (delta.days * 86400 + delta.seconds) * 1_000_000 + delta.microseconds
    total_ms = total_us // 1000
    return total_ms // MS_PER_DAY, total_ms % MS_PER_DAY


def add(days, ms, td: _dt.timedelta):
    """Normalised (days, ms) or None when the day count leaves 16 bits."""
    td_ms = (td.days * 86400 + td.seconds) * 1000 + td.microseconds // 1000
    total = days * MS_PER_DAY + ms + td_ms
    d, m = total // MS_PER_DAY, total % MS_PER_DAY
    if d > 65535:
        return None
    return d, m
