"""CRC-16/CCITT-FALSE: poly 0x1021, init 0xFFFF, no reflection, xorout 0."""


def crc16_bitwise(data, crc=0xFFFF):
    for b in data:
        crc ^= b << 8
        for _ in range(8):
            crc = ((crc << 1) ^ 0x1021) & 0xFFFF if crc & 0x8000 else (crc << 1) & 0xFFFF
    return crc


def _table():
    t = []
    for i in range(256):
        c = i << 8
        for _ in range(8):
            c = ((c << 1) ^ 0x1021) & 0xFFFF if c & 0x8000 else (c << 1) & 0xFFFF
        t.append(c)
    return t


_T = _table()


def crc16(data, crc=0xFFFF):
    t = _T
    for b in data:
        crc = ((crc << 8) & 0xFFFF) ^ t[(crc >> 8) ^ b]
    return crc


def with_crc(data) -> bytes:
    data = bytes(data)
    return data + crc16(data).to_bytes(2, "big")


def find16(head: bytes, tail_of_x, target: int = 0, space: int = 65536):
    """Smallest x in range(space) with crc16(head + tail_of_x(x)) == target, or None (used to craft packets whose running
    CRC passes through a given register value - 0x0000, 0xFFFF - at a structural boundary)."""
    s0 = crc16(head)
    for x in range(space):
        if crc16(tail_of_x(x), s0) == target:
            return x
    return None
