"""Sequential reference models: stream parser (C13), verification tracker (C16), counters (C19)."""

UNSET, FAILURE, SUCCESS = -1, 0, 1


def split_stream(stream: bytes, ids):
    """ids: set of 13-bit packet ids.  -> (packets, index of first octet not consumed)."""
    out, i = [], 0
    n = len(stream)
    while n - i >= 6:
        if (int.from_bytes(stream[i:i + 2], "big") & 0x1FFF) in ids:
            ln = int.from_bytes(stream[i + 4:i + 6], "big") + 7
            if i + ln > n:
                break
            out.append(bytes(stream[i:i + ln]))
            i += ln
        else:
            i += 1
    return out, i


class VerifModel:
    """State machine of PusVerificator as documented (DESIGN.md appendix A)."""

    def __init__(self):
        self.d = {}     # request id (u32) -> dict

    @staticmethod
    def fresh():
        return {"accepted": UNSET, "started": UNSET, "step": UNSET, "completed": UNSET, "step_list": [], "all": False}

    def add_tc(self, rid):
        if rid in self.d:
            return False
        self.d[rid] = self.fresh()
        return True

    def add_tm(self, rid, sub, step=None):
        """-> None (unknown) or (completed flag, status copy)"""
        s = self.d.get(rid)
        if s is None:
            return None
        completed = sub % 2 == 0 or sub == 7
        if sub == 1:
            s["accepted"] = SUCCESS
        elif sub == 2:
            s["accepted"] = FAILURE
            s["all"] = True
        elif sub == 3:
            s["started"] = SUCCESS
        elif sub == 4:
            if s["accepted"] != UNSET:
                s["all"] = True
            s["started"] = FAILURE
        elif sub == 5:
            if s["step"] == UNSET:
                s["step"] = SUCCESS
            s["step_list"].append(step)
        elif sub == 6:
            if s["accepted"] != UNSET and s["started"] != UNSET:
                s["all"] = True
            s["step"] = FAILURE
            s["step_list"].append(step)
        elif sub in (7, 8):
            if s["accepted"] != UNSET and s["started"] != UNSET:
                s["all"] = True
            s["completed"] = SUCCESS if sub == 7 else FAILURE
        else:
            raise ValueError(sub)
        return completed, dict(s, step_list=list(s["step_list"]))

    def remove_entry(self, rid):
        return self.d.pop(rid, None) is not None

    def remove_completed(self):
        self.d = {k: v for k, v in self.d.items() if not v["all"]}


def seq_next(n, width):
    return (n + 1) % (1 << width)
