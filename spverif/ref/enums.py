"""Code tables of the standards, written out from the documents (name of the library's enumeration member -> the number the
standard assigns to that meaning).  Only members whose meaning is unambiguous are listed; members that are library
conventions (NONE, INVALID, NO_CONDITION_FIELD ...) are not.

CCSDS 133.0-B-2 (space packet), 301.0-B-4 (time codes), 727.0-B-5 (CFDP: tables 5-1, 5-4 ... 5-18), 732.1-B-2 (USLP),
ECSS-E-ST-70-41C (service 1 subtypes)."""

TABLES = {
    "spacepackets.ccsds.spacepacket.PacketType": {"TM": 0, "TC": 1},
    "spacepackets.ccsds.spacepacket.SequenceFlags": {"CONTINUATION_SEGMENT": 0, "FIRST_SEGMENT": 1, "LAST_SEGMENT": 2, "UNSEGMENTED": 3},
    "spacepackets.ccsds.time.common.CcsdsTimeCodeId": {"CUC_CCSDS_EPOCH": 1, "CUC_AGENCY_EPOCH": 2, "CDS": 4, "CCS": 5},
    "spacepackets.cfdp.defs.PduType": {"FILE_DIRECTIVE": 0, "FILE_DATA": 1},
    "spacepackets.cfdp.defs.Direction": {"TOWARDS_RECEIVER": 0, "TOWARDS_SENDER": 1},
    "spacepackets.cfdp.defs.TransmissionMode": {"ACKNOWLEDGED": 0, "UNACKNOWLEDGED": 1},
    "spacepackets.cfdp.defs.CrcFlag": {"NO_CRC": 0, "WITH_CRC": 1},
    "spacepackets.cfdp.defs.LargeFileFlag": {"NORMAL": 0, "LARGE": 1},
    "spacepackets.cfdp.defs.SegmentMetadataFlag": {"NOT_PRESENT": 0, "PRESENT": 1},
    "spacepackets.cfdp.defs.SegmentationControl": {"NO_RECORD_BOUNDARIES_PRESERVATION": 0, "RECORD_BOUNDARIES_PRESERVATION": 1},
    "spacepackets.cfdp.defs.FaultHandlerCode": {"NOTICE_OF_CANCELLATION": 1, "NOTICE_OF_SUSPENSION": 2, "IGNORE_ERROR": 3, "ABANDON_TRANSACTION": 4},
    "spacepackets.cfdp.defs.ConditionCode": {"NO_ERROR": 0, "POSITIVE_ACK_LIMIT_REACHED": 1, "KEEP_ALIVE_LIMIT_REACHED": 2, "INVALID_TRANSMISSION_MODE": 3, "FILESTORE_REJECTION": 4,
                                             "FILE_CHECKSUM_FAILURE": 5, "FILE_SIZE_ERROR": 6, "NAK_LIMIT_REACHED": 7, "INACTIVITY_DETECTED": 8, "CHECK_LIMIT_REACHED": 10,
                                             "UNSUPPORTED_CHECKSUM_TYPE": 11, "SUSPEND_REQUEST_RECEIVED": 14, "CANCEL_REQUEST_RECEIVED": 15},
    "spacepackets.cfdp.defs.ChecksumType": {"MODULAR": 0, "CRC_32_PROXIMITY_1": 1, "CRC_32C": 2, "CRC_32": 3, "NULL_CHECKSUM": 15},
    "spacepackets.cfdp.defs.DeliveryCode": {"DATA_COMPLETE": 0, "DATA_INCOMPLETE": 1},
    "spacepackets.cfdp.defs.FileStatus": {"DISCARDED_DELIBERATELY": 0, "DISCARDED_FILESTORE_REJECTION": 1, "FILE_RETAINED": 2, "FILE_STATUS_UNREPORTED": 3},
    "spacepackets.cfdp.pdu.ack.TransactionStatus": {"UNDEFINED": 0, "ACTIVE": 1, "TERMINATED": 2, "UNRECOGNIZED": 3},
    "spacepackets.cfdp.pdu.file_data.RecordContinuationState": {"NO_START_NO_END": 0, "START_WITHOUT_END": 1, "END_WITHOUT_START": 2, "START_AND_END": 3},
    "spacepackets.cfdp.pdu.file_directive.DirectiveType": {"EOF_PDU": 4, "FINISHED_PDU": 5, "ACK_PDU": 6, "METADATA_PDU": 7, "NAK_PDU": 8, "PROMPT_PDU": 9, "KEEP_ALIVE_PDU": 12},
    "spacepackets.cfdp.pdu.prompt.ResponseRequired": {"NAK": 0, "KEEP_ALIVE": 1},
    "spacepackets.cfdp.tlv.defs.TlvType": {"FILESTORE_REQUEST": 0, "FILESTORE_RESPONSE": 1, "MESSAGE_TO_USER": 2, "FAULT_HANDLER": 4, "FLOW_LABEL": 5, "ENTITY_ID": 6},
    "spacepackets.cfdp.tlv.defs.FilestoreActionCode": {"CREATE_FILE_SNM": 0, "DELETE_FILE_SNN": 1, "RENAME_FILE_SNP": 2, "APPEND_FILE_SNP": 3, "REPLACE_FILE_SNP": 4,
                                                       "CREATE_DIR_SNN": 5, "REMOVE_DIR_SNN": 6, "DENY_FILE_SMM": 7, "DENY_DIR_SNN": 8},
    # 727.0-B-5 table 5-18: action code in the high nibble, status in the low nibble
    "spacepackets.cfdp.tlv.defs.FilestoreResponseStatusCode": {
        "CREATE_SUCCESS": 0x00, "CREATE_NOT_ALLOWED": 0x01, "CREATE_NOT_PERFORMED": 0x0F,
        "DELETE_SUCCESS": 0x10, "DELETE_FILE_DOES_NOT_EXIST": 0x11, "DELETE_NOT_ALLOWED": 0x12, "DELETE_NOT_PERFORMED": 0x1F,
        "RENAME_SUCCESS": 0x20, "RENAME_OLD_FILE_DOES_NOT_EXIST": 0x21, "RENAME_NEW_FILE_DOES_EXIST": 0x22, "RENAME_NOT_ALLOWED": 0x23, "RENAME_NOT_PERFORMED": 0x2F,
        "APPEND_SUCCESS": 0x30, "APPEND_FILE_NAME_ONE_NOT_EXISTS": 0x31, "APPEND_FILE_NAME_TWO_NOT_EXISTS": 0x32, "APPEND_NOT_ALLOWED": 0x33, "APPEND_NOT_PERFORMED": 0x3F,
        "REPLACE_SUCCESS": 0x40, "REPLACE_FILE_NAME_ONE_TO_BE_REPLACED_DOES_NOT_EXIST": 0x41, "REPLACE_FILE_NAME_TWO_REPLACE_SOURCE_NOT_EXIST": 0x42, "REPLACE_NOT_ALLOWED": 0x43,
        "REPLACE_NOT_PERFORMED": 0x4F,
        "CREATE_DIR_SUCCESS": 0x50, "CREATE_DIR_CAN_NOT_BE_CREATED": 0x51, "CREATE_DIR_NOT_PERFORMED": 0x5F,
        "REMOVE_DIR_SUCCESS": 0x60, "REMOVE_DIR_DOES_NOT_EXIST": 0x61, "REMOVE_DIR_NOT_ALLOWED": 0x62, "REMOVE_DIR_NOT_PERFORMED": 0x6F,
        "DENY_FILE_DEL_SUCCESS": 0x70, "DENY_FILE_DEL_NOT_ALLOWED": 0x72, "DENY_FILE_DEL_NOT_PERFORMED": 0x7F,
        "DENY_DIR_DEL_SUCCESS": 0x80, "DENY_DIR_DEL_NOT_ALLOWED": 0x82, "DENY_DIR_DEL_NOT_PERFORMED": 0x8F},
    "spacepackets.cfdp.tlv.defs.ProxyMessageType": {"PUT_REQUEST": 0x00, "MSG_TO_USER": 0x01, "FS_REQUEST": 0x02, "FAULT_HANDLER_OVERRIDE": 0x03, "TRANSMISSION_MODE": 0x04, "FLOW_LABEL": 0x05,
                                                    "SEGMENTATION_CTRL": 0x06, "PUT_RESPONSE": 0x07, "FS_RESPONSE": 0x08, "PUT_CANCEL": 0x09, "CLOSURE_REQUEST": 0x0B},
    "spacepackets.cfdp.tlv.defs.DirectoryOperationMessageType": {"LISTING_REQUEST": 0x10, "LISTING_RESPONSE": 0x11, "CUSTOM_LISTING_PARAMETERS": 0x15},
    "spacepackets.ecss.pus_1_verification.Subservice": {"TM_ACCEPTANCE_SUCCESS": 1, "TM_ACCEPTANCE_FAILURE": 2, "TM_START_SUCCESS": 3, "TM_START_FAILURE": 4, "TM_STEP_SUCCESS": 5,
                                                        "TM_STEP_FAILURE": 6, "TM_COMPLETION_SUCCESS": 7, "TM_COMPLETION_FAILURE": 8},
    "spacepackets.ecss.pus_17_test.Subservice": {"TC_PING": 1, "TM_REPLY": 2},
    "spacepackets.ecss.defs.PusVersion": {"PUS_A": 1, "PUS_C": 2},
    "spacepackets.uslp.frame.TfdzConstructionRules": {"FpPacketSpanningMultipleFrames": 0, "FpFixedStartOfMapaSDU": 1, "FpContinuingPortionOfMapaSDU": 2, "VpOctetStream": 3,
                                                      "VpStartingSegment": 4, "VpContinuingSegment": 5, "VpLastSegment": 6, "VpNoSegmentation": 7},
    "spacepackets.uslp.frame.UslpProtocolIdentifier": {"SPACE_PACKETS_ENCAPSULATION_PACKETS": 0, "COP_1_CTRL_COMMANDS": 1, "COP_2_CTRL_COMMANDS": 2, "SDLS_CTRL_COMMANDS": 3,
                                                       "USER_DEFINED_OCTET_STREAM": 4, "MISSION_SPECIFIC_INFO_1_MAPA_SDU": 5, "PROXIMITY_1_SPDUS": 7, "IDLE_DATA": 31},
    "spacepackets.uslp.header.SourceOrDestField": {"SOURCE": 0, "DEST": 1},
    "spacepackets.uslp.header.BypassSequenceControlFlag": {"SEQ_CTRLD_QOS": 0, "EXPEDITED_QOS": 1},
    "spacepackets.uslp.header.ProtocolCommandFlag": {"USER_DATA": 0, "PROTOCOL_INFORMATION": 1},
}


def check(ctx, monitor, prefixes):
    """Compare every listed member of the enumerations whose qualified name starts with one of `prefixes`."""
    import importlib
    for qual, table in TABLES.items():
        if not any(qual.startswith(p) for p in prefixes):
            continue
        modname, clsname = qual.rsplit(".", 1)
        try:
            cls = getattr(importlib.import_module(modname), clsname)
        except Exception as e:  # noqa: BLE001
            ctx.check(monitor, False, "enumeration_missing", clsname, None, error=repr(e))
            continue
        for name, code in table.items():
            member = getattr(cls, name, None)
            ctx.check(monitor, member is not None and int(member) == code, "code_differs_from_the_standard", f"{clsname}.{name}", None,
                      observed=None if member is None else int(member), expected=code)
        # two names of one enumeration must not share a code unless the table says so
        vals = [int(getattr(cls, n)) for n in table if getattr(cls, n, None) is not None]
        ctx.check(monitor, len(set(vals)) == len(set(table.values())), "distinct_meanings_share_a_code", clsname, None)
