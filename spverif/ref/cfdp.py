"""CCSDS 727.0-B-5: fixed PDU header, LV/TLV items, the seven file directives and file data.

Independent bit-level encoders and decoders; nothing imported from spacepackets,
no struct.  Parameters are plain ints / bytes / dicts.
"""
from .crc import crc16

EOF, FINISHED, ACK, METADATA, NAK, PROMPT, KEEP_ALIVE = 0x04, 0x05, 0x06, 0x07, 0x08, 0x09, 0x0C
DIRECTIVES = (EOF, FINISHED, ACK, METADATA, NAK, PROMPT, KEEP_ALIVE)
TWO_NAME_ACTIONS = (0b0010, 0b0011, 0b0100)      # rename, append, replace
TLV_FS_REQUEST, TLV_FS_RESPONSE, TLV_MSG_TO_USER, TLV_FAULT_HANDLER, TLV_FLOW_LABEL, TLV_ENTITY_ID = 0, 1, 2, 4, 5, 6
TLV_TYPES = (0, 1, 2, 4, 5, 6)


class RefError(Exception):
    """The model refuses the octets; .kind says which documented class of error is expected."""

    def __init__(self, kind):
        super().__init__(kind)
        self.kind = kind


# ------------------------------------------------------------------ header
def header(pdu_type, direction, mode, crc, large, data_len, segctrl, segmeta, idw, seqw, src, seq, dst) -> bytes:
    assert idw in (1, 2, 4, 8) and seqw in (1, 2, 4, 8) and 0 <= data_len < 65536
    o0 = (0b001 << 5) | (pdu_type << 4) | (direction << 3) | (mode << 2) | (crc << 1) | large
    o3 = (segctrl << 7) | ((idw - 1) << 4) | (segmeta << 3) | (seqw - 1)
    return (bytes([o0]) + data_len.to_bytes(2, "big") + bytes([o3]) + src.to_bytes(idw, "big")
            + seq.to_bytes(seqw, "big") + dst.to_bytes(idw, "big"))


def header_len(idw, seqw) -> int:
    return 4 + 2 * idw + seqw


def decode_header(b):
    b = bytes(b)
    if len(b) < 4:
        raise RefError("short")
    if b[0] >> 5 != 0b001:
        raise RefError("version")
    idw = ((b[3] >> 4) & 7) + 1
    seqw = (b[3] & 7) + 1
    if idw not in (1, 2, 4, 8) or seqw not in (1, 2, 4, 8):
        raise RefError("width")
    hl = 4 + 2 * idw + seqw
    if len(b) < hl:
        raise RefError("short")
    return {
        "pdu_type": (b[0] >> 4) & 1, "direction": (b[0] >> 3) & 1, "mode": (b[0] >> 2) & 1,
        "crc": (b[0] >> 1) & 1, "large": b[0] & 1, "data_len": int.from_bytes(b[1:3], "big"),
        "segctrl": b[3] >> 7, "segmeta": (b[3] >> 3) & 1, "idw": idw, "seqw": seqw,
        "src": int.from_bytes(b[4:4 + idw], "big"),
        "seq": int.from_bytes(b[4 + idw:4 + idw + seqw], "big"),
        "dst": int.from_bytes(b[4 + idw + seqw:hl], "big"),
        "header_len": hl,
    }


# ------------------------------------------------------------------- LV/TLV
def lv(value) -> bytes:
    value = bytes(value)
    assert len(value) < 256
    return bytes([len(value)]) + value


def tlv(t, value) -> bytes:
    value = bytes(value)
    assert len(value) < 256
    return bytes([t, len(value)]) + value


def decode_lv(b, i=0):
    """-> (value, next index)"""
    if i >= len(b):
        raise RefError("short")
    n = b[i]
    if i + 1 + n > len(b):
        raise RefError("short")
    return bytes(b[i + 1:i + 1 + n]), i + 1 + n


def decode_tlv(b, i=0):
    """-> (type, value, next index)"""
    if i + 2 > len(b):
        raise RefError("short")
    t, n = b[i], b[i + 1]
    if t not in TLV_TYPES:
        raise RefError("tlvtype")
    if i + 2 + n > len(b):
        raise RefError("short")
    return t, bytes(b[i + 2:i + 2 + n]), i + 2 + n


def fs_request_value(action, first: bytes, second: bytes = b"") -> bytes:
    v = bytes([action << 4]) + lv(first)
    if action in TWO_NAME_ACTIONS:
        v += lv(second)
    return v


def fs_response_value(action, status4, first: bytes, second: bytes = b"", msg: bytes = b"") -> bytes:
    v = bytes([(action << 4) | status4]) + lv(first)
    if action in TWO_NAME_ACTIONS:
        v += lv(second)
    return v + lv(msg)


def decode_fs_value(v, response: bool):
    if len(v) < 1:
        raise RefError("short")
    action, status = v[0] >> 4, v[0] & 0xF
    first, i = decode_lv(v, 1)
    second = None
    if action in TWO_NAME_ACTIONS:
        second, i = decode_lv(v, i)
    msg = None
    if response:
        msg, i = decode_lv(v, i)
    return {"action": action, "status": status, "first": first, "second": second, "msg": msg, "used": i}


def fault_handler_value(cond, handler) -> bytes:
    return bytes([(cond << 4) | handler])


# ------------------------------------------------------------ PDU assembly
def _fss(v, large) -> bytes:
    return v.to_bytes(8 if large else 4, "big")


def assemble(cfg: dict, pdu_type: int, direction: int, body: bytes, segmeta: int = 0) -> bytes:
    """cfg: mode, crc, large, segctrl, idw, seqw, src, seq, dst.  body = data field without CRC."""
    n = len(body) + (2 if cfg["crc"] else 0)
    h = header(pdu_type, direction, cfg["mode"], cfg["crc"], cfg["large"], n, cfg["segctrl"], segmeta,
               cfg["idw"], cfg["seqw"], cfg["src"], cfg["seq"], cfg["dst"])
    p = h + body
    if cfg["crc"]:
        p += crc16(p).to_bytes(2, "big")
    return p


def eof(cfg, cond, checksum: bytes, size, fault_id: bytes = None) -> bytes:
    body = bytes([EOF, cond << 4]) + bytes(checksum) + _fss(size, cfg["large"])
    if fault_id is not None:
        body += tlv(TLV_ENTITY_ID, fault_id)
    return assemble(cfg, 0, 0, body)


def finished(cfg, cond, delivery, status, responses=(), fault_id: bytes = None) -> bytes:
    """responses: sequence of complete filestore-response TLV octet strings."""
    body = bytes([FINISHED, (cond << 4) | (delivery << 2) | status])
    for r in responses:
        body += bytes(r)
    if fault_id is not None:
        body += tlv(TLV_ENTITY_ID, fault_id)
    return assemble(cfg, 0, 1, body)


def ack(cfg, acked_directive, cond, tstatus) -> bytes:
    subtype = 1 if acked_directive == FINISHED else 0
    direction = 0 if acked_directive == FINISHED else 1
    body = bytes([ACK, (acked_directive << 4) | subtype, (cond << 4) | tstatus])
    return assemble(cfg, 0, direction, body)


def metadata(cfg, closure, cksum_type, size, src_name: bytes, dst_name: bytes, options=()) -> bytes:
    body = bytes([METADATA, (closure << 6) | cksum_type]) + _fss(size, cfg["large"]) + lv(src_name) + lv(dst_name)
    for o in options:
        body += bytes(o)
    return assemble(cfg, 0, 0, body)


def nak(cfg, start, end, segments=()) -> bytes:
    body = bytes([NAK]) + _fss(start, cfg["large"]) + _fss(end, cfg["large"])
    for s, e in segments:
        body += _fss(s, cfg["large"]) + _fss(e, cfg["large"])
    return assemble(cfg, 0, 1, body)


def prompt(cfg, response_required) -> bytes:
    return assemble(cfg, 0, 0, bytes([PROMPT, response_required << 7]))


def keep_alive(cfg, progress) -> bytes:
    return assemble(cfg, 0, 1, bytes([KEEP_ALIVE]) + _fss(progress, cfg["large"]))


def file_data(cfg, offset, data: bytes, seg_meta=None) -> bytes:
    """seg_meta: None or (record continuation state, metadata octets <= 63)."""
    body = b""
    if seg_meta is not None:
        st, md = seg_meta
        assert len(md) < 64
        body += bytes([(st << 6) | len(md)]) + bytes(md)
    body += _fss(offset, cfg["large"]) + bytes(data)
    return assemble(cfg, 1, 0, body, segmeta=0 if seg_meta is None else 1)


# ------------------------------------------------------------- PDU decoding
def decode_pdu(b):
    """Decode a complete PDU from the start of b; ignores octets after the declared length.

    Returns dict(header fields, kind, params..., total).  Raises RefError.
    """
    b = bytes(b)
    h = decode_header(b)
    hl = h["header_len"]
    total = hl + h["data_len"]
    if len(b) < total:
        raise RefError("short")
    p = b[:total]
    if h["crc"]:
        if h["data_len"] < 2:
            raise RefError("short")
        if crc16(p) != 0:
            raise RefError("crc")
        end = total - 2
    else:
        end = total
    d = p[hl:end]          # data field without CRC
    out = dict(h)
    out["total"] = total
    large = h["large"]
    fw = 8 if large else 4

    def need(n):
        if len(d) < n:
            raise RefError("short")

    if h["pdu_type"] == 1:
        i = 0
        out["kind"] = "file_data"
        out["seg_meta"] = None
        if h["segmeta"]:
            need(1)
            st, n = d[0] >> 6, d[0] & 0x3F
            need(1 + n)
            out["seg_meta"] = (st, d[1:1 + n])
            i = 1 + n
        need(i + fw)
        out["offset"] = int.from_bytes(d[i:i + fw], "big")
        out["data"] = d[i + fw:]
        return out
    need(1)
    code = d[0]
    out["directive"] = code
    if code == EOF:
        need(1 + 1 + 4 + fw)
        out["kind"] = "eof"
        out["cond"] = d[1] >> 4
        out["checksum"] = d[2:6]
        out["size"] = int.from_bytes(d[6:6 + fw], "big")
        i = 6 + fw
        out["fault_id"] = None
        if i < len(d):
            t, v, i = decode_tlv(d, i)
            if t != TLV_ENTITY_ID:
                raise RefError("tlvtype")
            out["fault_id"] = v
        if i != len(d):
            raise RefError("trailing")
    elif code == FINISHED:
        need(2)
        out["kind"] = "finished"
        out["cond"], out["delivery"], out["status"] = d[1] >> 4, (d[1] >> 2) & 1, d[1] & 3
        i = 2
        out["responses"] = []
        out["fault_id"] = None
        while i < len(d):
            t, v, j = decode_tlv(d, i)
            if t == TLV_FS_RESPONSE:
                out["responses"].append(d[i:j])
            elif t == TLV_ENTITY_ID:
                out["fault_id"] = v
            else:
                raise RefError("tlvtype")
            i = j
    elif code == ACK:
        need(3)
        out["kind"] = "ack"
        out["acked"], out["subtype"] = d[1] >> 4, d[1] & 0xF
        out["cond"], out["tstatus"] = d[2] >> 4, d[2] & 3
    elif code == METADATA:
        need(2 + fw)
        out["kind"] = "metadata"
        out["closure"] = (d[1] >> 6) & 1
        out["cksum_type"] = d[1] & 0xF
        out["size"] = int.from_bytes(d[2:2 + fw], "big")
        out["src_name"], i = decode_lv(d, 2 + fw)
        out["dst_name"], i = decode_lv(d, i)
        out["options"] = []
        while i < len(d):
            t, v, j = decode_tlv(d, i)
            out["options"].append((t, v))
            i = j
    elif code == NAK:
        need(1 + 2 * fw)
        out["kind"] = "nak"
        out["start"] = int.from_bytes(d[1:1 + fw], "big")
        out["end"] = int.from_bytes(d[1 + fw:1 + 2 * fw], "big")
        rest = d[1 + 2 * fw:]
        if len(rest) % (2 * fw):
            raise RefError("trailing")
        out["segments"] = [(int.from_bytes(rest[k:k + fw], "big"), int.from_bytes(rest[k + fw:k + 2 * fw], "big"))
                           for k in range(0, len(rest), 2 * fw)]
    elif code == PROMPT:
        need(2)
        out["kind"] = "prompt"
        out["response_required"] = d[1] >> 7
    elif code == KEEP_ALIVE:
        need(1 + fw)
        out["kind"] = "keep_alive"
        out["progress"] = int.from_bytes(d[1:1 + fw], "big")
    else:
        raise RefError("directive")
    return out


# -------------------------------------------------------- reserved messages
def reserved_message(msg_type: int, fields: bytes) -> bytes:
    """Complete message-to-user TLV of a reserved CFDP message."""
    return tlv(TLV_MSG_TO_USER, b"cfdp" + bytes([msg_type]) + bytes(fields))


def is_reserved(value: bytes) -> bool:
    return len(value) >= 5 and bytes(value[:4]) == b"cfdp"
