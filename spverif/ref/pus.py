"""ECSS-E-ST-70-41C PUS-C TC / TM packets and service-1 source data."""
from .ccsds import encode_header, decode_header
from .crc import crc16


def tc_sec_header(service, subservice, source_id, ack) -> bytes:
    return bytes([0x20 | ack, service, subservice]) + source_id.to_bytes(2, "big")


def tc(apid, count, service, subservice, source_id, ack, data, version=0, flags=3) -> bytes:
    body = tc_sec_header(service, subservice, source_id, ack) + bytes(data)
    total = 6 + len(body) + 2
    p = encode_header(version, 1, 1, apid, flags, count, total - 7) + body
    return p + crc16(p).to_bytes(2, "big")


def decode_tc(b):
    """Decode a complete TC (len(b) must be at least the declared length). Returns dict or raises AssertionError."""
    h = decode_header(b)
    n = h["length"] + 7
    assert len(b) >= n and n >= 6 + 5 + 2
    p = bytes(b[:n])
    assert p[6] >> 4 == 2
    return {
        **h,
        "ack": p[6] & 0xF,
        "service": p[7],
        "subservice": p[8],
        "source_id": int.from_bytes(p[9:11], "big"),
        "data": p[11:n - 2],
        "crc": p[n - 2:n],
        "crc_ok": crc16(p) == 0,
        "total": n,
    }


def tm_sec_header(service, subservice, msg_counter, dest_id, time_ref, timestamp) -> bytes:
    return (bytes([0x20 | time_ref, service, subservice]) + msg_counter.to_bytes(2, "big")
            + dest_id.to_bytes(2, "big") + bytes(timestamp))


def tm(apid, count, service, subservice, msg_counter, dest_id, time_ref, timestamp, data, version=0, flags=3) -> bytes:
    body = tm_sec_header(service, subservice, msg_counter, dest_id, time_ref, timestamp) + bytes(data)
    total = 6 + len(body) + 2
    p = encode_header(version, 0, 1, apid, flags, count, total - 7) + body
    return p + crc16(p).to_bytes(2, "big")


def decode_tm(b, ts_len):
    h = decode_header(b)
    n = h["length"] + 7
    assert len(b) >= n and n >= 6 + 7 + ts_len + 2
    p = bytes(b[:n])
    assert p[6] >> 4 == 2
    return {
        **h,
        "time_ref": p[6] & 0xF,
        "service": p[7],
        "subservice": p[8],
        "msg_counter": int.from_bytes(p[9:11], "big"),
        "dest_id": int.from_bytes(p[11:13], "big"),
        "timestamp": p[13:13 + ts_len],
        "data": p[13 + ts_len:n - 2],
        "crc": p[n - 2:n],
        "crc_ok": crc16(p) == 0,
        "total": n,
    }


def request_id(version, ptype, shf, apid, flags, count) -> bytes:
    return encode_header(version, ptype, shf, apid, flags, count, 0)[:4]


def srv1_source_data(req_id4: bytes, step=None, code=None, fdata=b"") -> bytes:
    """step / code are (width, value) tuples or None."""
    out = bytes(req_id4)
    if step is not None:
        out += step[1].to_bytes(step[0], "big")
    if code is not None:
        out += code[1].to_bytes(code[0], "big") + bytes(fdata)
    return out
