"""CCSDS 732.1-B-2 USLP primary / truncated header, TFDF header, frame assembly."""


def common(scid, src_dest, vcid, map_id, eofph) -> bytes:
    assert 0 <= scid < 65536 and src_dest in (0, 1) and 0 <= vcid < 64 and 0 <= map_id < 16 and eofph in (0, 1)
    w = (0b1100 << 28) | (scid << 12) | (src_dest << 11) | (vcid << 5) | (map_id << 1) | eofph
    return w.to_bytes(4, "big")


def truncated_header(scid, src_dest, vcid, map_id) -> bytes:
    return common(scid, src_dest, vcid, map_id, 1)


def primary_header(scid, src_dest, vcid, map_id, frame_len, bypass, pcc, ocf, vcf_len, vcf_count) -> bytes:
    assert 0 <= frame_len < 65536 and 0 <= vcf_len < 8
    assert vcf_len == 0 or 0 <= vcf_count < (1 << (8 * vcf_len))
    b6 = (bypass << 7) | (pcc << 6) | (ocf << 3) | vcf_len
    out = common(scid, src_dest, vcid, map_id, 0) + frame_len.to_bytes(2, "big") + bytes([b6])
    if vcf_len:
        out += vcf_count.to_bytes(vcf_len, "big")
    return out


def decode_common(b):
    w = int.from_bytes(bytes(b[:4]), "big")
    return {"tfvn": w >> 28, "scid": (w >> 12) & 0xFFFF, "src_dest": (w >> 11) & 1, "vcid": (w >> 5) & 0x3F,
            "map_id": (w >> 1) & 0xF, "eofph": w & 1}


def decode_primary(b):
    b = bytes(b)
    d = decode_common(b)
    d["frame_len"] = int.from_bytes(b[4:6], "big")
    d["bypass"], d["pcc"], d["ocf"], d["vcf_len"] = b[6] >> 7, (b[6] >> 6) & 1, (b[6] >> 3) & 1, b[6] & 7
    n = d["vcf_len"]
    d["vcf_count"] = int.from_bytes(b[7:7 + n], "big") if n else 0
    d["len"] = 7 + n
    return d


def tfdf(rule, upid, tfdz: bytes, pointer=None) -> bytes:
    out = bytes([(rule << 5) | upid])
    if pointer is not None:
        out += pointer.to_bytes(2, "big")
    return out + bytes(tfdz)


def frame(header: bytes, tfdf_octets: bytes, insert_zone=None, ocf=None, fecf=None) -> bytes:
    out = bytes(header)
    if insert_zone is not None:
        out += bytes(insert_zone)
    out += bytes(tfdf_octets)
    if ocf is not None:
        out += bytes(ocf)
    if fecf is not None:
        out += bytes(fecf)
    return out
