"""CCSDS 133.0-B-2 primary header, written from the field table (no struct, nothing from spacepackets)."""


def encode_header(version, ptype, shf, apid, flags, count, length) -> bytes:
    assert 0 <= version < 8 and ptype in (0, 1) and shf in (0, 1)
    assert 0 <= apid < 2048 and 0 <= flags < 4 and 0 <= count < 16384 and 0 <= length < 65536
    w0 = (version << 13) | (ptype << 12) | (shf << 11) | apid
    w1 = (flags << 14) | count
    return w0.to_bytes(2, "big") + w1.to_bytes(2, "big") + length.to_bytes(2, "big")


def decode_header(b):
    b = bytes(b[:6])
    assert len(b) == 6
    w0 = int.from_bytes(b[0:2], "big")
    w1 = int.from_bytes(b[2:4], "big")
    w2 = int.from_bytes(b[4:6], "big")
    return {
        "version": w0 >> 13,
        "ptype": (w0 >> 12) & 1,
        "shf": (w0 >> 11) & 1,
        "apid": w0 & 0x7FF,
        "flags": w1 >> 14,
        "count": w1 & 0x3FFF,
        "length": w2,
    }


def packet_id_raw(ptype, shf, apid) -> int:
    return (ptype << 12) | (shf << 11) | apid


def psc_raw(flags, count) -> int:
    return (flags << 14) | count


def total_len(length_field) -> int:
    return length_field + 7
