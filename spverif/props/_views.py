"""Delegated views: the convenience properties that wrapper objects (PUS TC / TM, service wrappers, PDUs, holders) offer
beside the header object they contain.  Every such property an object has is read and compared with what the packed
octets say - a property nobody reads in the main pack / unpack path is where a slip stays unnoticed (DESIGN 10, round 9).

Only properties that exist on the object are read (getattr with a sentinel), so the same function serves every class."""
from __future__ import annotations

from spverif.core.util import attempt

_MISSING = object()


def _read(obj, name):
    try:
        return True, getattr(obj, name, _MISSING)
    except RecursionError:
        raise
    except Exception as e:  # noqa: BLE001
        return False, e


def sp_views(ctx, monitor, obj, want: bytes, case, label):
    """obj: anything built around a space packet header (PusTc, PusTm, Service1Tm, Service17Tm, SpacePacketHeader, SpacePacket);
    want: the packed packet.  Every header view the object offers must say what want[:6] says."""
    w0, w1, ln = int.from_bytes(want[0:2], "big"), int.from_bytes(want[2:4], "big"), int.from_bytes(want[4:6], "big")
    exp = {"ccsds_version": w0 >> 13, "packet_type": (w0 >> 12) & 1, "sec_header_flag": (w0 >> 11) & 1, "apid": w0 & 0x7FF,
           "seq_flags": w1 >> 14, "seq_count": w1 & 0x3FFF, "packet_id": w0 & 0x1FFF, "packet_seq_control": w1, "sp_header": want[:6]}
    bad = []
    n = 0
    for name, e in exp.items():
        ok, v = _read(obj, name)
        if ok and v is _MISSING:
            continue
        n += 1
        if ok:
            try:
                if name in ("packet_id", "packet_seq_control"):
                    v = v.raw()
                elif name == "sp_header":
                    v = bytes(v.pack())
                else:
                    v = int(v)
            except Exception as ex:  # noqa: BLE001
                ok, v = False, ex
        if not ok or v != e:
            bad.append(name if ok else f"{name}:raised:{type(v).__name__}")
    ctx.table("delegated_views_read", label)
    ctx.check(monitor, not bad, "delegated_view_differs_from_packed_header", f"{label}/" + ",".join(bad), case, expected={k: (v.hex() if isinstance(v, bytes) else v) for k, v in exp.items()})
    return n


def pdu_views(ctx, monitor, pdu, want: bytes, hexp: dict, case, label):
    """pdu: any PDU object (or PduHeader); hexp: the header fields decoded from `want` by the reference model."""
    exp = {"direction": hexp["direction"], "transmission_mode": hexp["mode"], "crc_flag": hexp["crc"], "file_flag": hexp["large"],
           "large_file_flag_set": bool(hexp["large"]), "pdu_type": hexp["pdu_type"], "pdu_data_field_len": hexp["data_len"],
           "header_len": hexp["header_len"], "packet_len": len(want), "source_entity_id": (hexp["idw"], hexp["src"]), "dest_entity_id": (hexp["idw"], hexp["dst"]),
           "transaction_seq_num": (hexp["seqw"], hexp["seq"])}
    if getattr(type(pdu), "directive_type", None) is not None:
        exp["header_len"] += 1            # documented: for file directive PDUs the directive code octet is counted with the header
    bad = []
    for name, e in exp.items():
        ok, v = _read(pdu, name)
        if ok and v is _MISSING:
            continue
        if ok:
            try:
                v = (v.byte_len, v.value) if isinstance(e, tuple) else (bool(v) if isinstance(e, bool) else int(v))
            except Exception as ex:  # noqa: BLE001
                ok, v = False, ex
        if not ok or v != e:
            bad.append(name if ok else f"{name}:raised:{type(v).__name__}")
    ok, h = _read(pdu, "pdu_header")
    if ok and h is not _MISSING:
        ok2, hp = attempt(lambda: bytes(h.pack()))
        if not ok2 or hp != want[:hexp["header_len"]]:
            bad.append("pdu_header")
    ctx.table("delegated_views_read", label)
    ctx.check(monitor, not bad, "delegated_view_differs_from_packed_header", f"{label}/" + ",".join(bad), case, expected={k: v for k, v in exp.items()})
