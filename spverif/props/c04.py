"""C04 - a corrupted CRC-protected packet is never accepted (fault enumeration)."""
from __future__ import annotations

import json

from spverif.core.util import attempt, exc_sig, documented_errors, rand_uint, rand_bytes, hist_len
from spverif.ref import cfdp as R
from spverif.ref import pus as P
from spverif.ref.crc import crc16
from . import _cfdp as C
from . import c02, c03

SCRIBBLE = True
THOROUGH_SCALE = 1
COLD_ORDERS = 3
REVISIT_PER_KIND = 3          # the fault enumeration of one packet is expensive; three packets of every kind come back at the end
ID = "C04"
LEVEL = "fault_enumeration"
SHARDS = {"quick": 1, "thorough": 16}
RULE = ("cases = (packet, fault) where packet is a validly packed PUS TC, PUS TM or CFDP PDU of any of the 8 kinds built with the "
        "CRC flag, and fault is a single-bit flip at every bit or a burst of length 2..16 at every bit offset (patterns: both ends "
        "only, all ones, random interior; thorough: all 2^(L-2) interiors for L<=8) that does not touch a length-determining bit "
        "(TC/TM octets 4-5; CFDP octets 1-3 and the CRC-flag bit of octet 0), plus value-dependent bursts (every 16-bit window zeroed, set "
        "to all ones or byte-swapped; every octet forced to 00 / ff); every such fault is detectable by a CRC-16, so any "
        "acceptance is a defect; non-trivial = every (packet, fault) pair; distinct = distinct (packet octets, xor mask)")
TRUSTED = ["CPython 3.12", "spverif.ref.crc", "spverif.ref.pus / ref.cfdp for the uncorrupted-trailer check"]
ASSUMPTIONS = [
    "the CRC flag bit of a CFDP header is treated as length-determining: it states whether the last two octets are a checksum, and no decoder can notice its loss (DESIGN C04)",
    "documented error classes per DESIGN 4.5; PduFactory.from_raw returning None (unknown directive) counts as 'no packet object returned'",
]


def faults(n_octets: int, excluded_bits: set, rng, full: bool, packet: bytes = None, light: bool = False):
    """Yield (xor mask as int over the whole packet, description)."""
    nbits = 8 * n_octets
    if packet is not None:
        # value-dependent bursts: every 16-bit window at every octet offset forced to all-zero / all-one / byte-swapped
        # (the xor pattern is the window's own content, e.g. a trailer overwritten with 0000) - all have span <= 16 bits
        for i in range(n_octets - 1):
            if any(b in excluded_bits for b in range(8 * i, 8 * i + 16)):
                continue
            w = int.from_bytes(packet[i:i + 2], "big")
            for m, name in ((w, "zeroed"), (w ^ 0xFFFF, "all_ones"), (w ^ (((w & 0xFF) << 8) | (w >> 8)), "swapped")):
                if m:
                    yield m << (nbits - 8 * i - 16), (f"window_{name}", 8 * i, 16)
        for i in range(n_octets):
            if any(b in excluded_bits for b in range(8 * i, 8 * i + 8)):
                continue
            for m in (packet[i], packet[i] ^ 0xFF):
                if m:
                    yield m << (nbits - 8 * i - 8), ("octet_forced", 8 * i, 8)
    for pos in range(nbits):
        if pos in excluded_bits:
            continue
        yield 1 << (nbits - 1 - pos), ("flip", pos, 1)
    if light:          # single-bit flips and value-dependent bursts only (used for the additional crafted packets of the quick tier)
        return
    for L in range(2, 17):
        for pos in range(0, nbits - L + 1):
            if any((pos + k) in excluded_bits for k in range(L)):
                continue
            ends = (1 << (L - 1)) | 1
            pats = {ends, (1 << L) - 1}
            if L > 2:
                if full and L <= 8:
                    pats.update(ends | (m << 1) for m in range(1 << (L - 2)))
                else:
                    for _ in range(8 if full else 1):
                        pats.add(ends | (rng.getrandbits(L - 2) << 1))
            shift = nbits - pos - L
            for pat in pats:
                yield pat << shift, ("burst", pos, L)


def _apply(p: bytes, mask: int) -> bytes:
    return (int.from_bytes(p, "big") ^ mask).to_bytes(len(p), "big")


def _region_pus(n, pos_bit, sec_len):
    i = pos_bit // 8
    if i < 6:
        return "primary_header"
    if i < 6 + sec_len:
        return "secondary_header"
    if i >= n - 2:
        return "crc"
    return "payload"


def k_pus(ctx, which, raw, ts_len=0, full=False, fault=None, light=False):
    """Enumerate faults on one packed TC/TM.  fault=[mask_hex] replays one fault."""
    from spacepackets.ecss import check_pus_crc
    from spacepackets.ecss.tc import PusTc
    from spacepackets.ecss.tm import PusTm
    p = bytes.fromhex(raw)
    n = len(p)
    dec = (lambda b: PusTc.unpack(b)) if which == "tc" else (lambda b: PusTm.unpack(b, ts_len))
    base = {"k": "pus", "which": which, "raw": raw, "ts_len": ts_len}
    ok, u = attempt(dec, p)
    ctx.check("uncorrupted_accepted", ok and check_pus_crc(p) is True and crc16(p[:-2]).to_bytes(2, "big") == p[-2:], "valid_packet_refused", which, base,
              error=None if ok else repr(u))
    excluded = set(range(32, 48))
    sec_len = 5 if which == "tc" else 7 + ts_len
    doc = documented_errors()
    it = [(int(fault, 16), ("replay", 8 * n - int(fault, 16).bit_length(), 0))] if fault else faults(n, excluded, ctx.rng, full, p, light)
    cnt = 0
    n_standalone = 0
    for mask, (ftype, pos, L) in it:
        cnt += 1
        q = _apply(p, mask)
        ok, res = attempt(dec, q)
        if ok:
            ctx.fail("fault_rejected", "corrupted_packet_accepted", f"{which}/{_region_pus(n, pos, sec_len)}", dict(base, fault=hex(mask)), fault_kind=[ftype, pos, L])
        elif not isinstance(res, doc):
            ctx.fail("fault_rejected", "undocumented_error", f"{which}/{exc_sig(res)}", dict(base, fault=hex(mask)), error=repr(res))
        else:
            ctx.table(f"faults_by_region/{which}", _region_pus(n, pos, sec_len))
            ctx.table("rejection_class", f"{which}:{type(res).__name__}")
        # the stand-alone check builds its CRC table on every call (20 ms per 60 calls): every fault in the thorough tier, every 3rd in the quick tier
        if full or cnt % 3 == 0 or ftype != "burst":
            n_standalone += 1
            if check_pus_crc(q) is not False:
                ctx.fail("standalone_check_agrees", "corrupted_packet_passes_check_pus_crc", which, dict(base, fault=hex(mask)))
        if len(ctx.distinct) < 300_000:
            ctx.distinct.add(hash((p, mask)) & 0xFFFFFFFFFFFFFFFF)
    m = ctx.monitors.setdefault("fault_rejected", {"evaluations": 0, "violations": 0})
    m["evaluations"] += cnt
    m2 = ctx.monitors.setdefault("standalone_check_agrees", {"evaluations": 0, "violations": 0})
    m2["evaluations"] += n_standalone
    ctx.evaluations += cnt
    ctx.case(f"packet/{which}" + (f"/ts={ts_len}" if which == "tm" else ""), None, sample={"raw": raw, "faults": cnt})
    ctx.table("packets_fully_enumerated", which)


def _invalid_crc():
    from spacepackets.cfdp.exceptions import InvalidCrc
    return InvalidCrc


def k_pdu(ctx, kind, cfg, p, full=False, fault=None, decoder=None, light=False):
    X = C.lib()
    raw = C.ref_octets(kind, cfg, p)
    base = {"k": "pdu", "kind": kind, "cfg": cfg, "p": p}
    ok, pdu = attempt(lambda: bytes(C.build(kind, cfg, p).pack()))
    if not ctx.check("trailer_is_crc", ok and pdu == raw and crc16(pdu[:-2]).to_bytes(2, "big") == pdu[-2:], "packed_trailer_wrong", kind, base,
                     observed=pdu if ok else repr(pdu), expected=raw):
        return
    cls = X.CLS[kind]
    decs = (("class", cls.unpack), ("factory", X.PduFactory.from_raw))
    for name, d in decs:
        ok, u = attempt(d, raw)
        ctx.check("uncorrupted_accepted", ok and u is not None, "valid_packet_refused", f"{kind}/{name}", base, error=None if ok else repr(u))
        # the same uncorrupted PDU in a receive buffer that goes on behind it (next PDU, spare octets): a decoder may refuse to
        # look at such a buffer at all (NAK does), but it must not call the checksum of an intact PDU wrong
        for sfx in (raw[:7], b"\x00\x00", b"\xa5" * 9):
            ok2, u2 = attempt(d, raw + sfx)
            ctx.check("uncorrupted_accepted", ok2 or not isinstance(u2, _invalid_crc()), "checksum_of_an_intact_pdu_reported_wrong_when_octets_follow", f"{kind}/{name}", base,
                      error=None if ok2 else repr(u2))
    n = len(raw)
    hl = R.header_len(cfg["idw"], cfg["seqw"])
    excluded = set(range(8, 32)) | {6}
    doc = documented_errors()
    it = [(int(fault, 16), ("replay", 8 * n - int(fault, 16).bit_length(), 0))] if fault else faults(n, excluded, ctx.rng, full, raw, light)
    cnt = 0
    for mask, (ftype, pos, L) in it:
        cnt += 1
        q = _apply(raw, mask)
        name, d = decs[cnt & 1] if decoder is None else [x for x in decs if x[0] == decoder][0]
        ok, res = attempt(d, q)
        region = C.region_of(kind, cfg, p, raw, pos // 8)
        if ok and res is not None:
            ctx.fail("fault_rejected", "corrupted_packet_accepted", f"{kind}/{name}/{region}", dict(base, fault=hex(mask), decoder=name), fault_kind=[ftype, pos, L])
        elif not ok and not isinstance(res, doc):
            ctx.fail("fault_rejected", "undocumented_error", f"{kind}/{name}/{exc_sig(res)}", dict(base, fault=hex(mask), decoder=name), error=repr(res))
        else:
            ctx.table(f"faults_by_region/{kind}", region)
            ctx.table("rejection_class", f"{kind}:{'None' if ok else type(res).__name__}")
        if cnt % 3 == 0 or fault:
            # the corrupted PDU in a receive buffer that goes on behind it (one spare octet, the start of the next PDU, padding):
            # still refused, still with a documented error
            sfx = (b"\x00", raw[:7], b"\xa5" * 9)[(cnt // 3) % 3]
            ok, res = attempt(d, q + sfx)
            if ok and res is not None:
                ctx.fail("fault_rejected", "corrupted_packet_accepted_when_octets_follow", f"{kind}/{name}/{region}", dict(base, fault=hex(mask), decoder=name), fault_kind=[ftype, pos, L], suffix=sfx)
            elif not ok and not isinstance(res, doc):
                ctx.fail("fault_rejected", "undocumented_error_when_octets_follow", f"{kind}/{name}/{exc_sig(res)}", dict(base, fault=hex(mask), decoder=name), error=repr(res), suffix=sfx)
            else:
                ctx.table("rejection_class_with_octets_behind", f"{kind}:{'None' if ok else type(res).__name__}")
        if len(ctx.distinct) < 300_000:
            ctx.distinct.add(hash((raw, mask)) & 0xFFFFFFFFFFFFFFFF)
    m = ctx.monitors.setdefault("fault_rejected", {"evaluations": 0, "violations": 0})
    m["evaluations"] += cnt
    ctx.evaluations += cnt
    ctx.case(f"packet/{kind}/large={cfg['large']}", None, sample={"kind": kind, "raw": raw.hex()[:160], "faults": cnt})
    ctx.table("packets_fully_enumerated", kind)


def k_trailer_after_setters(ctx, which, seed):
    """Trailer is the CRC of all preceding octets whatever was set or changed before packing (incl. cached CRC state)."""
    import random
    r = random.Random(seed)
    case = {"k": "trailer_after_setters", "which": which, "seed": seed}
    ctx.case(f"trailer_after_setters/{which}", (which, seed), sample=case)
    from spacepackets.ecss import check_pus_crc
    produced = []           # (step index, op, octets) of everything that was packed along the way

    def emit(i, op, octets):
        produced.append((i, op, bytes(octets)))

    if which == "tc":
        t = c02.build(r.choice(c02.ROUTES), r.getrandbits(11), r.getrandbits(14), r.getrandbits(8), r.getrandbits(8), r.getrandbits(16), r.getrandbits(4), r.randbytes(r.randrange(0, 30)))
        steps = []
        for i in range(hist_len(r, 1, 7)):
            op = r.choice(("pack", "calc_crc", "apid", "seq_count", "source_id", "app_data_same_len", "app_data", "to_space_packet", "unpack_own", "poison", "calc_crc_pack_cached", "refused_own"))
            steps.append(op)
            if op == "pack":
                emit(i, op, t.pack())
            elif op == "poison":
                c02.poison_tc(r)
            elif op == "refused_own":
                # this very object is asked to serialise with a field that cannot be encoded (refused, whatever the error class),
                # the field is corrected, and the next serialisation through the same route is what counts
                good = t.source_id
                t.source_id = r.choice((70000, 1 << 16, -1))
                route = r.choice(("calc_crc", "to_space_packet", "pack"))
                okr, _ = attempt(getattr(t, route))
                ctx.table("refused_own_serialisation", f"tc.{route}:{'raised' if not okr else 'accepted'}")
                t.source_id = good
                if route == "calc_crc":
                    t.calc_crc()
                    emit(i, "calc_crc_pack_cached_after_refusal", t.pack(recalc_crc=False))
                elif route == "to_space_packet":
                    emit(i, "to_space_packet_after_refusal", t.to_space_packet().pack())
                else:
                    emit(i, "pack_after_refusal", t.pack())
            elif op == "calc_crc_pack_cached":
                t.calc_crc()
                emit(i, op, t.pack(recalc_crc=False))
            elif op == "calc_crc":
                t.calc_crc()
            elif op == "apid":
                t.apid = r.getrandbits(11)
            elif op == "seq_count":
                t.seq_count = r.getrandbits(14)
            elif op == "source_id":
                t.source_id = r.getrandbits(16)
            elif op == "app_data_same_len":
                t.app_data = r.randbytes(len(t.app_data))
            elif op == "app_data":
                t.app_data = r.randbytes(r.randrange(0, 30))
            elif op == "unpack_own":
                from spacepackets.ecss.tc import PusTc
                # decoded from a receive buffer that continues after the packet, then forwarded as it is
                t = PusTc.unpack(bytes(t.pack()) + r.randbytes(r.choice((0, 0, 1, 2, 9))))
                emit(i, "forward_decoded", t.pack(recalc_crc=False))
            else:
                emit(i, op, t.to_space_packet().pack())
        emit(len(steps), "final_pack", t.pack())
    elif which == "tm":
        ts = r.randbytes(r.choice((0, 7, 16)))
        t = c03.build(r.choice(("ctor", "composite")), r.getrandbits(11), r.getrandbits(14), r.getrandbits(8), r.getrandbits(8), r.getrandbits(16), r.getrandbits(16),
                      r.getrandbits(4), r.getrandbits(3), ts, r.randbytes(r.randrange(0, 30)))
        steps = []
        for i in range(hist_len(r, 1, 7)):
            op = r.choice(("pack", "calc_crc", "apid", "seq_count", "tm_data", "to_space_packet", "unpack_own", "poison", "calc_crc_pack_cached", "refused_own"))
            steps.append(op)
            if op == "pack":
                emit(i, op, t.pack())
            elif op == "poison":
                c03.poison_tm(r)
            elif op == "refused_own":
                good = t.pus_tm_sec_header.dest_id
                t.pus_tm_sec_header.dest_id = r.choice((70000, 1 << 16, -1))
                route = r.choice(("calc_crc", "to_space_packet", "pack"))
                okr, _ = attempt(getattr(t, route))
                ctx.table("refused_own_serialisation", f"tm.{route}:{'raised' if not okr else 'accepted'}")
                t.pus_tm_sec_header.dest_id = good
                if route == "calc_crc":
                    t.calc_crc()
                    emit(i, "calc_crc_pack_cached_after_refusal", t.pack(recalc_crc=False))
                elif route == "to_space_packet":
                    emit(i, "to_space_packet_after_refusal", t.to_space_packet().pack())
                else:
                    emit(i, "pack_after_refusal", t.pack())
            elif op == "calc_crc_pack_cached":
                t.calc_crc()
                emit(i, op, t.pack(recalc_crc=False))
            elif op == "calc_crc":
                t.calc_crc()
            elif op == "apid":
                t.apid = r.getrandbits(11)
            elif op == "seq_count":
                t.sp_header.seq_count = r.getrandbits(14)
            elif op == "tm_data":
                t.tm_data = r.randbytes(r.randrange(0, 30))
            elif op == "unpack_own":
                from spacepackets.ecss.tm import PusTm
                t = PusTm.unpack(bytes(t.pack()) + r.randbytes(r.choice((0, 0, 1, 2, 9))), len(ts))
                emit(i, "forward_decoded", t.pack(recalc_crc=False))
            else:
                emit(i, op, t.to_space_packet().pack())
        emit(len(steps), "final_pack", t.pack())
    else:
        raise AssertionError(which)
    for i, op, p in produced:
        ctx.table("trailer_after_setters/producing_op", f"{which}:{op}")
        prev = [s_ for s_ in steps[:i] if s_ not in ("pack", "to_space_packet", "calc_crc_pack_cached", "unpack_own", "refused_own")]
        how = op if op != "final_pack" else "pack"
        if not ctx.check("trailer_is_crc", crc16(p[:-2]).to_bytes(2, "big") == p[-2:] and check_pus_crc(p) is True, "packed_trailer_wrong",
                         f"{which}/{how}" + ("/after_changes" if prev else ""), case, steps=steps, at_step=i, observed=p):
            break


def k_pdu_setters(ctx, kind, cfg, p, seed):
    """A PDU with the CRC flag that reached its final values through the documented setters: trailer = CRC, and it is accepted."""
    from . import c06, c07
    X = C.lib()
    case = {"k": "pdu_setters", "kind": kind, "cfg": cfg, "p": p, "seed": seed}
    ctx.case(f"pdu_via_setters/{kind}/large={cfg['large']}", (kind, json.dumps(cfg, sort_keys=True), json.dumps(p, sort_keys=True), seed), sample=case)
    want = C.ref_octets(kind, cfg, p)
    if kind == "file_data":
        ok, pdu = attempt(c07.build_via_setters, cfg, p, seed)
    else:
        ok, b = attempt(c06.build_via_setters, kind, cfg, p, seed)
        pdu = b[0] if ok else b
    ok2, raw = attempt(lambda: bytes(pdu.pack())) if ok else (False, pdu)
    if not ctx.check("trailer_is_crc", ok and ok2 and crc16(raw[:-2]).to_bytes(2, "big") == raw[-2:] and raw == want, "packed_trailer_wrong",
                     f"{kind}/after_setters", case, observed=raw if ok2 else repr(raw), expected=want):
        return
    for name, d in (("class", X.CLS[kind].unpack), ("factory", X.PduFactory.from_raw)):
        ok, u = attempt(d, raw)
        ctx.check("uncorrupted_accepted", ok and u is not None, "valid_packet_refused", f"{kind}/{name}/after_setters", case, error=None if ok else repr(u))


def k_pdu_big(ctx, cfg, offset, n, seed):
    """Large File Data PDU with the CRC flag (sizes around block boundaries): trailer = CRC of everything before, accepted uncorrupted,
    and a few single-bit flips spread over the PDU are refused."""
    import random
    X = C.lib()
    r = random.Random(seed)
    p = {"offset": offset, "data": r.randbytes(n).hex(), "seg_meta": None}
    case = {"k": "pdu_big", "cfg": cfg, "offset": offset, "n": n, "seed": seed}
    ctx.case(f"pdu_big/large={cfg['large']}", (json.dumps(cfg, sort_keys=True), offset, n, seed), sample=case)
    ctx.table("big_pdu_total_len_mod_4096", (R.header_len(cfg["idw"], cfg["seqw"]) + (8 if cfg["large"] else 4) + n + 2) % 4096)
    want = C.ref_octets("file_data", cfg, p)
    ok, raw = attempt(lambda: bytes(C.build("file_data", cfg, p).pack()))
    if not ctx.check("trailer_is_crc", ok and raw == want and crc16(raw[:-2]).to_bytes(2, "big") == raw[-2:], "packed_trailer_wrong", "file_data/big", case,
                     observed=raw[-8:] if ok else repr(raw), expected=want[-8:]):
        return
    for name, d in (("class", X.FileDataPdu.unpack), ("factory", X.PduFactory.from_raw)):
        ok, u = attempt(d, want)
        ctx.check("uncorrupted_accepted", ok and u is not None, "valid_packet_refused", f"file_data/{name}/big", case, error=None if ok else repr(u))
    doc = documented_errors()
    for _ in range(6):
        pos = r.randrange(32, 8 * len(want))
        q = bytearray(want)
        q[pos // 8] ^= 0x80 >> (pos % 8)
        ok, res = attempt(X.FileDataPdu.unpack, bytes(q))
        ctx.ev("fault_rejected")
        if ok:
            ctx.fail("fault_rejected", "corrupted_packet_accepted", "file_data/class/big", dict(case, bit=pos))
        elif not isinstance(res, doc):
            ctx.fail("fault_rejected", "undocumented_error", f"file_data/class/{exc_sig(res)}", dict(case, bit=pos), error=repr(res))


KINDS = {"pdu_big": k_pdu_big, "pus": k_pus, "pdu": k_pdu, "trailer_after_setters": k_trailer_after_setters, "pdu_setters": k_pdu_setters}


def selftest(ctx):
    # every generated fault is detectable by CRC-16/CCITT: check on the model itself
    r = ctx.rng
    n = 0
    for _ in range(6):
        p = P.tc(r.getrandbits(11), r.getrandbits(14), 3, 4, 5, 6, r.randbytes(r.randrange(0, 12)))
        for mask, _ in faults(len(p), set(), r, False):
            assert crc16(_apply(p, mask)) != 0
            n += 1
    ctx.selftest["model CRC detects every enumerated fault"] = n


def run(ctx):
    from spverif.san import scribble
    scribble.install()
    r = ctx.rng
    full = not ctx.quick
    i = 0
    # PUS TC / TM
    tcs = [(0, 0, 17, 1, 0, 15, b""), (0x7FF, 0x3FFF, 255, 255, 0xFFFF, 0, b"\xff\x00\xff"), None, None]
    for spec in tcs[: 3 if ctx.quick else 4] + ([None] * (0 if ctx.quick else 40)):
        i += 1
        if not ctx.mine(i):
            continue
        if spec is None:
            spec = (rand_uint(r, 11), rand_uint(r, 14), rand_uint(r, 8), rand_uint(r, 8), rand_uint(r, 16), rand_uint(r, 4), rand_bytes(r, r.randrange(0, 24)))
        k_pus(ctx, "tc", P.tc(*spec).hex(), full=full)
    for ts_len in (0, 7, 16) if ctx.quick else (0, 1, 7, 8, 16, 32):
        for rep in range(1 if ctx.quick else 8):
            i += 1
            if not ctx.mine(i):
                continue
            raw = P.tm(rand_uint(r, 11), rand_uint(r, 14), rand_uint(r, 8), rand_uint(r, 8), rand_uint(r, 16), rand_uint(r, 16), rand_uint(r, 4),
                       rand_bytes(r, ts_len), rand_bytes(r, r.randrange(0, 20)), version=0)
            k_pus(ctx, "tm", raw.hex(), ts_len=ts_len, full=full)
    # CFDP PDUs with CRC
    for kind in C.KINDS8:
        for large in (0, 1):
            for rep in range((2 - large) if ctx.quick else 20):
                i += 1
                if not ctx.mine(i):
                    continue
                cfg = C.rand_cfg(r, segctrl=(kind == "file_data"), crc=1, large=large)
                if ctx.quick and rep == 0:
                    cfg = C.rand_cfg(r, crc=1, large=large, idw=1, seqw=1)
                p = C.rand_params(r, kind, cfg, rich=(rep > 0))
                if kind == "file_data":
                    p["data"] = p["data"][:40]
                if kind == "nak" and p["segments"]:
                    p["segments"] = p["segments"][:3]
                if len(C.ref_octets(kind, cfg, p)) > (90 if ctx.quick else 160):
                    p = C.rand_params(r, kind, cfg, rich=False)
                    if kind == "file_data":
                        p["data"] = p["data"][:20]
                    if kind == "metadata":
                        p["src_name"], p["dst_name"] = "a.txt", "b"
                k_pdu(ctx, kind, cfg, p, full=full)
    for s in range(ctx.n(600, 30_000)):
        k_trailer_after_setters(ctx, "tc" if s & 1 else "tm", ctx.seed * 1_000_003 + ctx.shard[0] * 100_003 + s)
    # packets whose running CRC is exactly 0x0000 / 0xFFFF at a structural boundary (after a header, after the offset field)
    for target in (0x0000, 0xFFFF):
        for where in ("primary", "secondary"):
            f = c02.craft_tc_crc_boundary(r, where, target, 3)
            if f is not None:
                ctx.table("crc_register_at_boundary", f"tc/{where}/{target:04x}")
                k_pus(ctx, "tc", P.tc(f[0], f[1], f[2], f[3], f[4], f[5], r.randbytes(3)).hex(), full=False, light=ctx.quick)
                t = c02.build("ctor", f[0], f[1], f[2], f[3], f[4], f[5], b"abc")
                for name, octets in (("pack", t.pack()), ("to_space_packet", t.to_space_packet().pack()), ("calc_crc+pack", (t.calc_crc(), t.pack(recalc_crc=False))[1])):
                    ctx.check("trailer_is_crc", crc16(bytes(octets)[:-2]).to_bytes(2, "big") == bytes(octets)[-2:], "packed_trailer_wrong", f"tc/{name}/crc_register_{target:04x}_after_{where}_header",
                              {"k": "note", "fields": list(f)}, observed=bytes(octets))
            ts = r.randbytes(7)
            g = c03.craft_tm_crc_boundary(r, where, target, ts, 3)
            if g is not None:
                ctx.table("crc_register_at_boundary", f"tm/{where}/{target:04x}")
                k_pus(ctx, "tm", P.tm(g[0], g[1], g[2], g[3], g[4], g[5], g[6], ts, r.randbytes(3), version=0).hex(), ts_len=7, full=False, light=ctx.quick)
                t = c03.build("ctor", g[0], g[1], g[2], g[3], g[4], g[5], g[6], 0, ts, b"abc")
                for name, octets in (("pack", t.pack()), ("to_space_packet", t.to_space_packet().pack()), ("calc_crc+pack", (t.calc_crc(), t.pack(recalc_crc=False))[1])):
                    ctx.check("trailer_is_crc", crc16(bytes(octets)[:-2]).to_bytes(2, "big") == bytes(octets)[-2:], "packed_trailer_wrong", f"tm/{name}/crc_register_{target:04x}_after_{where}_header",
                              {"k": "note", "fields": list(g)}, observed=bytes(octets))
        for kind in C.KINDS8:
            for where in ("header", "offset", "whole"):
                cfg = C.rand_cfg(r, crc=1, segctrl=(kind == "file_data"), seqw=r.choice((2, 4, 8)))
                p = C.rand_params(r, kind, cfg, rich=False)
                if kind == "file_data":
                    p["data"] = p["data"][:24]
                got = C.craft_crc_boundary(kind, cfg, p, where, target)
                if got is not None:
                    ctx.table("crc_register_at_boundary", f"{kind}/{where}/{target:04x}")
                    k_pdu(ctx, kind, got[0], got[1], full=False, light=ctx.quick)
    from spverif.core.util import block_boundary_sizes
    for large in (0, 1):
        cfg = C.rand_cfg(r, crc=1, large=large, segctrl=0)
        ov = R.header_len(cfg["idw"], cfg["seqw"]) + (8 if large else 4)
        for j, n in enumerate(block_boundary_sizes((ov, ov + 2), 65535 - (8 if large else 4) - 2, ctx.quick)):
            if ctx.mine(j) and (not ctx.quick or j % 3 == large):
                k_pdu_big(ctx, cfg, r.getrandbits(32), n, ctx.seed * 1_000_003 + j)
    # TC / TM whose CRC-covered length sits on a block boundary
    for j, n in enumerate(block_boundary_sizes((11, 13), 65529, ctx.quick)):
        if ctx.mine(j) and (not ctx.quick or j % 4 == 0):
            raw = P.tc(r.getrandbits(11), r.getrandbits(14), 3, 4, 5, 6, r.randbytes(n))
            from spacepackets.ecss.tc import PusTc
            from spacepackets.ecss import check_pus_crc
            ok, u = attempt(PusTc.unpack, raw)
            ctx.check("uncorrupted_accepted", ok and check_pus_crc(raw) is True, "valid_packet_refused", "tc/big", {"k": "note", "n": n}, error=None if ok else repr(u))
            if ok:
                ok2, rp = attempt(lambda: bytes(u.pack()))
                ctx.check("trailer_is_crc", ok2 and rp == raw, "packed_trailer_wrong", "tc/big", {"k": "note", "n": n})
            q = bytearray(raw)
            q[r.randrange(6, len(raw))] ^= 1 << r.randrange(8)
            ok, res = attempt(PusTc.unpack, bytes(q))
            ctx.check("fault_rejected", (not ok) and isinstance(res, documented_errors()) and check_pus_crc(bytes(q)) is False, "corrupted_packet_accepted", "tc/big",
                      {"k": "note", "n": n})
    for s in range(ctx.n(360, 18_000)):
        kind = ("eof", "finished", "metadata", "nak", "keep_alive", "file_data")[s % 6]
        cfg = C.rand_cfg(r, segctrl=(kind == "file_data"), crc=1)
        k_pdu_setters(ctx, kind, cfg, C.rand_params(r, kind, cfg), ctx.seed * 1_000_003 + ctx.shard[0] * 100_003 + s)


def conclude(ctx):
    ctx.require(ctx.extra.get("hostile_caller_scribbled_pack_results", 0) > 0, "hostile-caller sanitizer scribbled no pack() result")
    for k in ("tc", "tm") + C.KINDS8:
        ctx.require(ctx.tables.get("packets_fully_enumerated", {}).get(k, 0) > 0, f"no {k} packet fully enumerated")
    for k in ("tc", "tm"):
        for reg in ("primary_header", "secondary_header", "crc"):
            ctx.require(ctx.tables.get(f"faults_by_region/{k}", {}).get(reg, 0) > 0, f"fault region {k}/{reg} empty")
    ctx.require(ctx.tables.get("faults_by_region/tc", {}).get("payload", 0) > 0, "fault region tc/payload empty")
    for k in C.KINDS8:
        for reg in ("hdr_fixed", "hdr_ids", "params", "crc"):
            ctx.require(ctx.tables.get(f"faults_by_region/{k}", {}).get(reg, 0) > 0, f"fault region {k}/{reg} empty")
    for m in ("fault_rejected", "uncorrupted_accepted", "trailer_is_crc", "standalone_check_agrees"):
        ctx.require(ctx.monitors.get(m, {}).get("evaluations", 0) > 0, f"monitor {m} never evaluated")
