"""C11 - lengths track mutations, pack is repeatable, caller inputs are not modified (history checker)."""
from __future__ import annotations

import copy
import json
import random
import sys

from spverif.core.util import attempt, exc_sig, rand_bytes, rand_name, hist_len
from spverif.ref import cfdp as R
from spverif.ref import ccsds as H
from . import _cfdp as C
from . import c02, c03

SCRIBBLE = True
ID = "C11"
LEVEL = "exploration"
SHARDS = {"quick": 1, "thorough": 16}
RULE = ("cases = histories (initial object, sequence of 1..8 documented setter calls) for PusTc, PusTm, EOF, Finished, Metadata, "
        "NAK, File Data, Keep Alive PDUs and USLP frames, under CRC on/off, large-file on/off and the 16 width combinations, "
        "starting from a constructed or from a decoded object; after every step: len(pack()) == reported length, the length "
        "field inside the octets is what the format requires, the octets equal those of a freshly constructed object with the "
        "same final values, packing twice is identical and does not change equality; caller-supplied PduConfig / parameter "
        "objects are fingerprinted before construction and after construction and pack; small alphabets are enumerated "
        "exhaustively to depth 4; non-trivial = history with at least one setter step that changes a value; distinct = "
        "distinct (class, configuration, history)")
TRUSTED = ["CPython 3.12", "copy.deepcopy", "a freshly constructed library object as the oracle for 'same final values' (its absolute encoding is C02/C03/C06/C07/C17's job)"]
ASSUMPTIONS = [
    "setters = the documented property setters named in the property; direct attribute pokes are out of scope",
    "PusTc.from_sp_header takes ownership of the header object handed to it (it is the packet's header afterwards); only PduConfig, parameter dataclasses, lists and byte strings are treated as caller inputs",
]
MAX_STEPS = 8


# ---------------------------------------------------------------- write watch
def watched_config(cfg, direction):
    """PduConfig subclass instance whose attribute writes after arming are logged with the writing source line."""
    X = C.lib()
    base = C.lib_cfg(cfg, direction)
    log = []

    class WatchedPduConfig(type(base)):
        def __setattr__(self, k, v):
            if self.__dict__.get("_spv_armed") and id(self) == self.__dict__.get("_spv_id"):
                f = sys._getframe(1)
                log.append(f"{k} written at {f.f_code.co_filename.split('spacepackets/')[-1]}:{f.f_lineno} ({f.f_code.co_qualname})")
            object.__setattr__(self, k, v)

    w = WatchedPduConfig(**{f: getattr(base, f) for f in base.__dataclass_fields__})
    object.__setattr__(w, "_spv_id", id(w))
    object.__setattr__(w, "_spv_armed", True)
    return w, log


def fp_config(conf):
    return (conf.source_entity_id.value, conf.source_entity_id.byte_len, conf.dest_entity_id.value, conf.dest_entity_id.byte_len,
            conf.transaction_seq_num.value, conf.transaction_seq_num.byte_len, int(conf.trans_mode), int(conf.file_flag), int(conf.crc_flag),
            int(conf.direction), int(conf.seg_ctrl))


def fp(x):
    """Deep structural fingerprint of a caller-owned argument."""
    X = C.lib()
    if x is None or isinstance(x, (int, str, bool, float)):
        return x
    if isinstance(x, (bytes, bytearray)):
        return (type(x).__name__, bytes(x))
    if isinstance(x, (list, tuple)):
        return (type(x).__name__, tuple(fp(i) for i in x))
    if isinstance(x, X.conf.PduConfig):
        return fp_config(x)
    if hasattr(x, "pack") and hasattr(x, "tlv_type"):
        return ("tlv", type(x).__name__, int(x.tlv_type), bytes(x.value))
    if hasattr(x, "__dataclass_fields__"):
        return (type(x).__name__, tuple((f, fp(getattr(x, f))) for f in x.__dataclass_fields__))
    if hasattr(x, "pack"):
        return (type(x).__name__, bytes(x.pack()))
    return repr(x)


# ------------------------------------------------------------- PDU histories
SETTERS = {
    "eof": ("fault_location",),
    "finished": ("file_store_responses", "fault_location", "condition_code"),
    "metadata": ("options", "source_file_name", "dest_file_name"),
    "nak": ("segment_requests", "file_flag"),
    "file_data": ("file_data", "segment_metadata"),
    "keep_alive": ("file_flag",),
}


def rand_step(r, kind, cfg, p):
    s = r.choice(SETTERS[kind])
    if s == "fault_location":
        v = None if r.random() < 0.25 else rand_bytes(r, r.choice(C.WIDTHS)).hex()
    elif s == "condition_code":
        v = r.choice(C.CONDS)
    elif s == "file_store_responses":
        v = None if r.random() < 0.15 else [C.rand_response(r) for _ in range(r.choice((0, 1, 1, 2, 3)))]
    elif s == "options":
        v = None if r.random() < 0.2 else [C.rand_option(r) for _ in range(r.choice((0, 1, 2, 3)))]
    elif s in ("source_file_name", "dest_file_name"):
        v = r.choice((None, "", rand_name(r, 80), rand_name(r, 255)))
    elif s == "segment_requests":
        v = None if r.random() < 0.2 else [[r.getrandbits(31), r.getrandbits(31)] for _ in range(r.choice((0, 1, 2, 5, 20)))]
    elif s == "file_flag":
        v = r.getrandbits(1)
    elif s == "file_data":
        v = rand_bytes(r, r.choice((0, 1, 2, 50, 300))).hex()
    elif s == "segment_metadata":
        v = None if r.random() < 0.3 else [r.getrandbits(2), rand_bytes(r, r.choice((0, 1, 7, 63))).hex()]
    else:
        raise AssertionError(s)
    return [s, v]


def refused_step(r, kind):
    """A setter call with a value that does not fit the format (symbolic, expanded by apply_lib): it has to be refused with
    ValueError - and whatever the object does with it, the setter calls that follow must leave a coherent object."""
    if kind == "metadata":
        return [r.choice(("source_file_name", "dest_file_name")), {"name_octets": r.choice((256, 300))}, "refused"]
    if kind == "file_data":
        return ["file_data", {"oversize": 65536 + r.choice((0, 1, 40))}, "refused"]
    if kind == "nak":
        return ["segment_requests", {"count": 8192 + r.choice((0, 1, 100))}, "refused"]
    return None


def rand_steps(r, kind, cfg, p, n):
    out = []
    for _ in range(n):
        rs = refused_step(r, kind) if r.random() < 0.06 else None
        if rs is not None:
            out.append(rs)
            while True:                                   # ... followed by a valid call of the same setter
                st = rand_step(r, kind, cfg, p)
                if st[0] == rs[0]:
                    out.append(st)
                    break
        else:
            out.append(rand_step(r, kind, cfg, p))
    return out


def apply_model(kind, cfg, p, step):
    """Final values after a setter, as (cfg, params) for a fresh construction."""
    s, v = step
    cfg, p = dict(cfg), copy.deepcopy(p)
    if s == "fault_location":
        p["fault_id"] = v
    elif s == "condition_code":
        p["cond"] = v
    elif s == "file_store_responses":
        p["responses"] = v or []
    elif s == "options":
        p["options"] = v
    elif s == "source_file_name":
        p["src_name"] = v
    elif s == "dest_file_name":
        p["dst_name"] = v
    elif s == "segment_requests":
        p["segments"] = v
    elif s == "file_flag":
        cfg["large"] = v
    elif s == "file_data":
        p["data"] = v
    elif s == "segment_metadata":
        p["seg_meta"] = v
    return cfg, p


def apply_lib(kind, pdu, step):
    X = C.lib()
    s, v = step[:2]
    if isinstance(v, dict):
        if "name_octets" in v:
            setattr(pdu, s, "y" * v["name_octets"] if v["name_octets"] % 2 == 0 else "\u00e4" * (v["name_octets"] // 2))
        elif "oversize" in v:
            pdu.file_data = bytes(v["oversize"])
        elif "count" in v:
            pdu.segment_requests = [(i, i + 1) for i in range(v["count"])]
        return
    if s == "fault_location":
        pdu.fault_location = None if v is None else X.EntityIdTlv(bytes.fromhex(v))
    elif s == "condition_code":
        pdu.condition_code = X.defs.ConditionCode(v)
    elif s == "file_store_responses":
        pdu.file_store_responses = None if v is None else [C.mk_response(x) for x in v]
    elif s == "options":
        pdu.options = None if v is None else [C.mk_option(o) for o in v]
    elif s == "source_file_name":
        pdu.source_file_name = v
    elif s == "dest_file_name":
        pdu.dest_file_name = v
    elif s == "segment_requests":
        pdu.segment_requests = None if v is None else [tuple(x) for x in v]
    elif s == "file_flag":
        pdu.file_flag = X.defs.LargeFileFlag(v)
    elif s == "file_data":
        pdu.file_data = bytes.fromhex(v)
    elif s == "segment_metadata":
        pdu.segment_metadata = None if v is None else X.SegmentMetadata(X.RecordContinuationState(v[0]), bytes.fromhex(v[1]))


def model_octets(kind, cfg, p):
    q = copy.deepcopy(p)
    if kind == "finished" and q.get("cond") in C.NO_FAULT_LOC_CONDS:
        q["fault_id"] = None
    if kind == "finished":
        q["responses"] = q.get("responses") or []
    return C.ref_octets(kind, cfg, q)


def _len_before_pack(obj):
    """The lengths an object reports before it is asked to pack (a setter must have left them right; pack() is not a repair step)."""
    try:
        c = copy.deepcopy(obj)
        return c.packet_len, c.pdu_header.pdu_data_field_len, c.pdu_header.header_len
    except Exception as e:  # noqa: BLE001
        return repr(e)


def check_state(ctx, label, kind, obj, fresh_fn, case, hdr_len, feat, model_fn=None):
    """All per-step checks on a deep copy (packing fills caches the property is about)."""
    snap = copy.deepcopy(obj)
    probe = copy.deepcopy(obj)
    okb, before = attempt(lambda: (probe.packet_len, probe.pdu_header.pdu_data_field_len))      # what the object reports before it is asked to pack
    ok, raw = attempt(probe.pack)
    okf, want = attempt(lambda: bytes(fresh_fn().pack()))
    if not ok or not okf:
        # values that cannot be packed (e.g. switched to 32-bit sizes with larger values): both must fail alike
        ctx.check("history.fresh_object", ok == okf, "pack_raises_only_on_one_side", f"{feat}/{label}", case,
                  mutated=repr(raw) if not ok else "packed", fresh=repr(want) if not okf else "packed")
        return False
    raw = bytes(raw)
    plen = probe.packet_len
    good = ctx.check("history.length", len(raw) == plen, "reported_length_differs_from_packed", f"{feat}/{label}", case, reported=plen, packed=len(raw))
    good &= ctx.check("history.length", okb and before == (len(raw), len(raw) - hdr_len(raw)), "length_reported_before_packing_differs_from_packed", f"{feat}/{label}", case,
                      reported=repr(before), packed=len(raw))
    declared = int.from_bytes(raw[1:3], "big")
    good &= ctx.check("history.length_field", declared == len(raw) - hdr_len(raw), "length_field_wrong", f"{feat}/{label}", case,
                      field=declared, octets_after_header=len(raw) - hdr_len(raw))
    good &= ctx.check("history.fresh_object", raw == want, "octets_differ_from_fresh_object", f"{feat}/{label}", case, observed=raw[:100], expected=want[:100])
    if model_fn is not None:
        # the format itself (reference encoder): a fault location is left out of a Finished PDU for "no error" / "unsupported checksum type"
        okm, ref = attempt(model_fn)
        if okm:
            good &= ctx.check("history.format", raw == ref, "octets_differ_from_reference_encoding", f"{feat}/{label}", case, observed=raw[:100], expected=ref[:100])
    ok2, raw2 = attempt(probe.pack)
    good &= ctx.check("history.pack_repeatable", ok2 and bytes(raw2) == raw, "second_pack_differs", f"{feat}/{label}", case)
    oke, eq = attempt(lambda: (probe == snap) and (snap == probe))
    good &= ctx.check("history.pack_repeatable", oke and eq is True, "pack_changed_equality", f"{feat}/{label}", case, observed=repr(eq))
    return good


def k_pdu_history(ctx, kind, cfg, p, steps, start="constructed", conf_dir=None):
    X = C.lib()
    case = {"k": "pdu_history", "kind": kind, "cfg": cfg, "p": p, "steps": steps, "start": start, "conf_dir": conf_dir}
    feat = f"{kind}/crc={cfg['crc']}"
    ctx.case(f"pdu_history/{kind}/crc={cfg['crc']}/{start}", (kind, json.dumps(cfg, sort_keys=True), json.dumps(p, sort_keys=True), json.dumps(steps), start),
             nontrivial=len(steps) > 0, sample=case if len(json.dumps(case)) < 1500 else None)
    hl = lambda raw: R.header_len(cfg["idw"], cfg["seqw"])  # noqa: E731
    # ---- caller inputs
    # the caller's configuration carries either the direction this PDU kind needs or the opposite one
    conf, wlog = watched_config(cfg, (1 - C.DIRECTION.get(kind, 0)) if conf_dir is None else conf_dir)
    ctx.table("caller_config_direction", "as_needed_by_the_pdu" if int(conf.direction) == C.DIRECTION.get(kind, 0) else "opposite")
    before_conf = fp(conf)
    args_before = None
    ok, built = attempt(_build_with_inputs, kind, conf, cfg, p)
    if not ctx.check("history.construct", ok, "raised", f"{kind}/" + (exc_sig(built) if not ok else ""), case, error=repr(built)):
        return
    pdu, inputs = built
    args_before = [fp(x) for x in inputs_snapshot(kind, cfg, p)]
    ctx.check("caller_inputs", fp(conf) == before_conf, "pdu_config_modified_by_constructor", kind, case, writes=wlog[:4], before=before_conf, after=fp(conf))
    ok, _ = attempt(pdu.pack)
    ctx.check("caller_inputs", fp(conf) == before_conf, "pdu_config_modified_by_pack", kind, case, writes=wlog[:4])
    after_args = [fp(x) for x in inputs]
    ctx.check("caller_inputs", after_args == args_before, "parameter_object_modified", kind, case, before=repr(args_before)[:300], after=repr(after_args)[:300])
    # ---- a sibling built from the same caller configuration (own parameter objects) that nobody touches afterwards
    oks, sib = attempt(_build_with_inputs, kind, conf, cfg, p)
    sib = sib[0] if oks else None
    # ---- history
    if start == "decoded":
        ok, raw0 = attempt(pdu.pack)
        if not ok:
            return
        ok, pdu = attempt(X.CLS[kind].unpack, bytes(raw0))
        if not ctx.check("history.construct", ok, "decode_raised", f"{kind}/" + (exc_sig(pdu) if not ok else ""), case, error=repr(pdu)):
            return
    cur_cfg, cur_p = dict(cfg), copy.deepcopy(p)
    mkinds = ("finished", "metadata", "nak", "keep_alive", "file_data", "ack", "prompt")          # EOF: the library packs a fault location whatever the code (caller's choice)
    if not check_state(ctx, "after_construct" if start == "constructed" else "after_unpack", kind, pdu, lambda: C.build(kind, cur_cfg, cur_p), case, hl, feat,
                       (lambda: model_octets(kind, cur_cfg, cur_p)) if kind in mkinds else None):
        return
    for i, step in enumerate(steps):
        if len(step) > 2:
            ok, err = attempt(apply_lib, kind, pdu, step)
            ctx.table("refused_steps", f"{kind}.{step[0]}")
            ctx.ev("history.setter")
            if ok:
                # accepted: then at least nothing inconsistent may be packed
                okp, rawp = attempt(lambda: bytes(pdu.pack()))
                if okp:
                    ctx.fail("history.setter", "value_that_does_not_fit_the_format_accepted_and_packed", f"{kind}.{step[0]}", case, step=i, packed_len=len(rawp),
                             length_field=int.from_bytes(rawp[1:3], "big"))
                    return
            elif not isinstance(err, ValueError):
                ctx.fail("history.setter", "wrong_error_for_value_that_does_not_fit", f"{kind}.{step[0]}/{type(err).__name__}", case, step=i, error=repr(err))
                return
            continue
        if start == "decoded" and i % 2 == 0:
            # a receive loop goes on decoding while this PDU is being edited: another PDU with another header configuration
            _r = random.Random(f"interfere/{kind}/{i}/{len(steps)}")
            k2 = _r.choice(C.KINDS8)
            c2 = C.rand_cfg(_r)
            attempt(X.CLS[k2].unpack, C.ref_octets(k2, c2, C.rand_params(_r, k2, c2, rich=False)))
            ctx.table("interfering_decodes", k2)
        ok, err = attempt(apply_lib, kind, pdu, step)
        if not ctx.check("history.setter", ok, "raised", f"{kind}.{step[0]}/" + (exc_sig(err) if not ok else ""), case, step=i, error=repr(err)):
            return
        cur_cfg, cur_p = apply_model(kind, cur_cfg, cur_p, step)
        ctx.table("setter_cells", f"{kind}.{step[0]}/crc={cfg['crc']}/{start}")
        c2, p2 = dict(cur_cfg), copy.deepcopy(cur_p)
        if not check_state(ctx, f"after:{step[0]}", kind, pdu, lambda: C.build(kind, c2, p2), dict(case, failing_step=i), hl, feat,
                           (lambda: model_octets(kind, c2, p2)) if kind in mkinds else None):
            return
    if sib is not None and steps:
        # the untouched sibling (empty setter history) must still be coherent and equal to a fresh object with the original values
        ctx.table("sibling_checked", kind)
        if check_state(ctx, "untouched_sibling_built_from_the_same_config", kind, sib, lambda: C.build(kind, dict(cfg), copy.deepcopy(p)), case, hl, feat):
            if fp(conf) != before_conf:
                ctx.note(f"caller PduConfig written through a setter of the {kind} PDU built from it (informational: {wlog[:2]})")
        # and a PDU built from the caller's configuration now is what the caller configured
        ok3, late = attempt(_build_with_inputs, kind, conf, cfg, p)
        if ok3:
            check_state(ctx, "object_built_later_from_the_same_config", kind, late[0], lambda: C.build(kind, dict(cfg), copy.deepcopy(p)), case, hl, feat)


def inputs_snapshot(kind, cfg, p):
    """Fresh, equal argument objects (what the caller's objects looked like before the call)."""
    return _make_inputs(kind, cfg, p)


def _make_inputs(kind, cfg, p):
    X = C.lib()
    d = X.defs
    if kind == "eof":
        return [bytes.fromhex(p["checksum"]), None if p["fault_id"] is None else X.EntityIdTlv(bytes.fromhex(p["fault_id"]))]
    if kind == "finished":
        fl = None if p["fault_id"] is None else X.EntityIdTlv(bytes.fromhex(p["fault_id"]))
        # "no filestore responses" handed over as an empty list or as None (both accepted by the constructor)
        resp = [C.mk_response(r) for r in p["responses"]]
        if not resp and (p["cond"] + p["status"]) % 2:
            resp = None
        return [X.FinishedParams(d.ConditionCode(p["cond"]), d.DeliveryCode(p["delivery"]), d.FileStatus(p["status"]), resp, fl)]
    if kind == "metadata":
        return [X.MetadataParams(bool(p["closure"]), d.ChecksumType(p["cksum_type"]), p["size"], p["src_name"], p["dst_name"]),
                None if p["options"] is None else [C.mk_option(o) for o in p["options"]]]
    if kind == "nak":
        return [None if p["segments"] is None else [tuple(s) for s in p["segments"]]]
    if kind == "file_data":
        sm = None if p["seg_meta"] is None else X.SegmentMetadata(X.RecordContinuationState(p["seg_meta"][0]), bytes.fromhex(p["seg_meta"][1]))
        return [X.FileDataParams(bytes.fromhex(p["data"]), p["offset"], sm)]
    return []


def _build_with_inputs(kind, conf, cfg, p):
    X = C.lib()
    d = X.defs
    inputs = _make_inputs(kind, cfg, p)
    if kind == "eof":
        return X.EofPdu(conf, inputs[0], p["size"], inputs[1], d.ConditionCode(p["cond"])), inputs
    if kind == "finished":
        return X.FinishedPdu(conf, inputs[0]), inputs
    if kind == "metadata":
        return X.MetadataPdu(conf, inputs[0], inputs[1]), inputs
    if kind == "nak":
        return X.NakPdu(conf, p["start"], p["end"], inputs[0]), inputs
    if kind == "file_data":
        return X.FileDataPdu(conf, inputs[0]), inputs
    if kind == "keep_alive":
        return X.KeepAlivePdu(conf, p["progress"]), inputs
    if kind == "ack":
        return X.AckPdu(conf, X.DirectiveType(p["acked"]), d.ConditionCode(p["cond"]), X.TransactionStatus(p["tstatus"])), inputs
    if kind == "prompt":
        return X.PromptPdu(conf, X.ResponseRequired(p["rr"])), inputs
    raise AssertionError(kind)


def k_alt_ctor_siblings(ctx, seed):
    """Finished PDUs obtained from the alternative constructors (success_pdu / success_params / FinishedParams.empty): a setter
    history on one of them leaves the others, and PDUs obtained the same way later, equal to fresh success PDUs."""
    X = C.lib()
    d = X.defs
    r = random.Random(f"altctor/{seed}")
    case = {"k": "alt_ctor_siblings", "seed": seed}
    ctx.case("alt_ctor_siblings", seed, sample=case)
    cfg = C.rand_cfg(r)
    success = {"cond": 0, "delivery": 0, "status": 2, "responses": [], "fault_id": None}
    hl = lambda raw: R.header_len(cfg["idw"], cfg["seqw"])  # noqa: E731
    route = r.choice(("success_pdu", "success_params"))
    mk = (lambda: X.FinishedPdu.success_pdu(C.lib_cfg(cfg, 1))) if route == "success_pdu" else (lambda: X.FinishedPdu(C.lib_cfg(cfg, 1), X.FinishedParams.success_params()))
    ok, a = attempt(mk)
    ok2, b = attempt(mk)
    if not ctx.check("history.construct", ok and ok2, "raised", f"finished/{route}", case, error=repr(a if not ok else b)):
        return
    feat = f"finished/crc={cfg['crc']}"
    if not check_state(ctx, f"after_{route}", "finished", a, lambda: C.build("finished", cfg, success), case, hl, feat, lambda: model_octets("finished", cfg, success)):
        return
    cur = copy.deepcopy(success)
    cc = dict(cfg)
    for i in range(r.randrange(1, 5)):
        step = rand_step(r, "finished", cfg, cur)
        okx, err = attempt(apply_lib, "finished", a, step)
        if not okx:
            return
        cc, cur = apply_model("finished", cc, cur, step)
        ctx.table("alt_ctor_steps", f"{route}/{step[0]}")
    check_state(ctx, f"untouched_sibling_from_{route}", "finished", b, lambda: C.build("finished", cfg, success), case, hl, feat, lambda: model_octets("finished", cfg, success))
    ok3, c3 = attempt(mk)
    if ok3:
        check_state(ctx, f"object_built_later_by_{route}", "finished", c3, lambda: C.build("finished", cfg, success), case, hl, feat, lambda: model_octets("finished", cfg, success))


# ------------------------------------------------------------ TC / TM histories
def k_pus_history(ctx, which, seed, nsteps, start="constructed"):
    from spacepackets.ecss.tc import PusTc
    from spacepackets.ecss.tm import PusTm
    r = random.Random(f"{which}/{seed}")
    case = {"k": "pus_history", "which": which, "seed": seed, "nsteps": nsteps, "start": start}
    ctx.case(f"pus_history/{which}/{start}", (which, seed, nsteps, start), nontrivial=nsteps > 0, sample=case)
    apid, count = r.getrandbits(11), r.getrandbits(14)
    svc, sub = r.getrandbits(8), r.getrandbits(8)
    data = rand_bytes(r, r.choice((0, 1, 3, 20)))
    if which == "tc":
        sid, ack = r.getrandbits(16), r.getrandbits(4)
        mk = lambda d: c02.build("ctor", apid, count, svc, sub, sid, ack, d)  # noqa: E731
        setter = "app_data"
        ts = b""
    else:
        mc, dest, tref, ver = r.getrandbits(16), r.getrandbits(16), r.getrandbits(4), r.getrandbits(3)
        ts = rand_bytes(r, r.choice((0, 7, 16)))
        mk = lambda d: c03.build("ctor", apid, count, svc, sub, mc, dest, tref, ver, ts, d)  # noqa: E731
        setter = "tm_data"
    obj = mk(data)
    if start == "decoded":
        raw0 = bytes(obj.pack())
        obj = PusTc.unpack(raw0) if which == "tc" else PusTm.unpack(raw0, len(ts))
    elif start == "packed":
        obj.pack()

    def state(label, cur, step_i):
        probe = copy.deepcopy(obj)
        snap = copy.deepcopy(obj)
        c = dict(case, failing_step=step_i, data_len=len(cur))
        ok, raw = attempt(probe.pack)
        want = bytes(mk(cur).pack())
        if not ctx.check("history.fresh_object", ok and bytes(raw) == want, "octets_differ_from_fresh_object", f"{which}/{label}", c,
                         observed=bytes(raw)[:60] if ok else repr(raw), expected=want[:60]):
            pass
        if not ok:
            return False
        raw = bytes(raw)
        g = ctx.check("history.length", len(raw) == probe.packet_len, "reported_length_differs_from_packed", f"{which}/{label}", c, reported=probe.packet_len, packed=len(raw))
        g &= ctx.check("history.length_field", int.from_bytes(raw[4:6], "big") == len(raw) - 7, "length_field_wrong", f"{which}/{label}", c,
                       field=int.from_bytes(raw[4:6], "big"), required=len(raw) - 7)
        if step_i & 1:
            ok3, raw3 = attempt(lambda: bytes(probe.to_space_packet().pack()))     # the generic view between the two packs
            g &= ctx.check("history.pack_repeatable", ok3 and raw3 == raw, "space_packet_view_differs_from_pack", f"{which}/{label}", c)
        ok2, raw2 = attempt(probe.pack)
        g &= ctx.check("history.pack_repeatable", ok2 and bytes(raw2) == raw, "second_pack_differs", f"{which}/{label}", c)
        g &= ctx.check("history.pack_repeatable", probe == snap and snap == probe, "pack_changed_equality", f"{which}/{label}", c)
        g &= ctx.check("history.length", probe.packet_len == len(raw), "reported_length_differs_after_packing", f"{which}/{label}", c, reported=probe.packet_len, packed=len(raw))
        return g

    if not state("after_" + start, data, -1):
        return
    cur = data
    for i in range(nsteps):
        cur = rand_bytes(r, r.choice((0, 1, 2, 3, 9, 40, 300)))
        handed = bytearray(cur) if r.random() < 0.5 else cur            # the caller's own (possibly mutable) buffer
        setattr(obj, setter, handed)
        ctx.table("setter_cells", f"{which}.{setter}/{start}")
        ctx.table("handed_over_as", type(handed).__name__)
        how = r.choice(("pack", "view", "none", "both"))
        if how in ("pack", "both"):
            obj.pack()          # fill the CRC cache between steps
        if how in ("view", "both"):
            obj.to_space_packet()
        if not ctx.check("history.inputs_untouched", bytes(handed) == cur, "caller_buffer_modified", f"{which}.{setter}/{type(handed).__name__}/after_{how}", dict(case, failing_step=i)):
            return
        if not state(f"after:{setter}", cur, i):
            return


# ---------------------------------------------------------------- USLP frames
def k_uslp_history(ctx, seed, nsteps):
    from spacepackets.uslp import frame as uf
    from spacepackets.uslp.header import PrimaryHeader, TruncatedPrimaryHeader, SourceOrDestField, BypassSequenceControlFlag, ProtocolCommandFlag
    r = random.Random(f"uslp/{seed}")
    case = {"k": "uslp_history", "seed": seed, "nsteps": nsteps}
    trunc = r.random() < 0.25
    ctx.case(f"uslp_history/{'truncated' if trunc else 'primary'}", (seed, nsteps), nontrivial=nsteps > 0, sample=case)
    ocf = (not trunc) and r.getrandbits(1)
    n = r.randrange(0, 8)
    if trunc:
        h = TruncatedPrimaryHeader(r.getrandbits(16), SourceOrDestField(r.getrandbits(1)), r.getrandbits(6), r.getrandbits(4))
    else:
        h = PrimaryHeader(r.getrandbits(16), SourceOrDestField(r.getrandbits(1)), r.getrandbits(6), r.getrandbits(4), r.getrandbits(16),
                          BypassSequenceControlFlag(r.getrandbits(1)), ProtocolCommandFlag(r.getrandbits(1)), bool(ocf), n,
                          r.choice((0, 0, 1, (1 << 8 * n) - 1, r.getrandbits(8 * n))) if n else 0)
    rule = r.randrange(3, 8) if trunc or r.random() < 0.5 else r.randrange(0, 3)
    ptr = r.getrandbits(16) if rule < 3 else None
    tf = uf.TransferFrameDataField(uf.TfdzConstructionRules(rule), uf.UslpProtocolIdentifier.USER_DEFINED_OCTET_STREAM, rand_bytes(r, r.choice((0, 1, 5, 40))), ptr)
    iz = r.choice((None, r.randbytes(1), r.randbytes(8)))
    fecf = r.choice((None, r.randbytes(2), r.randbytes(4)))
    fr = uf.TransferFrame(h, tf, iz, r.randbytes(4) if ocf else None, fecf)

    def state(label, i):
        c = dict(case, failing_step=i)
        ok, raw = attempt(lambda: bytes(copy.deepcopy(fr).pack(truncated=trunc)))
        if not ctx.check("history.uslp", ok, "pack_raised", label, c, error=repr(raw)):
            return False
        g = ctx.check("history.length", fr.len() == len(raw), "reported_length_differs_from_packed", f"uslp/{label}", c, reported=fr.len(), packed=len(raw))
        g &= ctx.check("history.length", fr.tfdf.len() == fr.tfdf.header_len() + len(fr.tfdf.tfdz), "tfdf_len_stale", f"uslp/{label}", c)
        if not trunc:
            fr.set_frame_len_in_header()
            raw2 = bytes(fr.pack())
            g &= ctx.check("history.length_field", int.from_bytes(raw2[4:6], "big") == len(raw2) - 1 and len(raw2) == len(raw), "length_field_wrong", f"uslp/{label}", c,
                           field=int.from_bytes(raw2[4:6], "big"), required=len(raw2) - 1)
            fresh = uf.TransferFrame(copy.deepcopy(fr.header), uf.TransferFrameDataField(fr.tfdf.tfdz_contr_rules, fr.tfdf.uslp_ident, bytes(fr.tfdf.tfdz), fr.tfdf.fhp_or_lvop),
                                     fr.insert_zone, fr.op_ctrl_field, fr.fecf)
            g &= ctx.check("history.fresh_object", bytes(fresh.pack()) == raw2, "octets_differ_from_fresh_object", f"uslp/{label}", c)
            g &= ctx.check("history.pack_repeatable", bytes(fr.pack()) == raw2, "second_pack_differs", f"uslp/{label}", c)
        return g

    if not state("after_construct", -1):
        return
    for i in range(nsteps):
        how = r.choice(("new_bytes", "new_bytes", "new_bytearray", "same_object_changed_in_place"))
        if not trunc and r.random() < 0.08:
            # a data zone that makes the whole frame exactly as large as the length field can say (65536 octets, field 0xFFFF), or one less
            how = "to_largest_frame"
            fr.tfdf.tfdz = rand_bytes(r, r.choice((65536, 65536, 65535)) - (fr.len() - len(fr.tfdf.tfdz)))
        elif how == "same_object_changed_in_place" and isinstance(fr.tfdf.tfdz, bytearray):
            # the caller's own mutable data zone, extended or cut in place and assigned again to refresh the object
            z = fr.tfdf.tfdz
            if r.random() < 0.5 or not z:
                z.extend(rand_bytes(r, r.randrange(1, 9)))
            else:
                del z[len(z) // 2:]
            fr.tfdf.tfdz = z
        elif how == "new_bytearray":
            fr.tfdf.tfdz = bytearray(rand_bytes(r, r.choice((0, 1, 2, 17, 300))))
        else:
            how = "new_bytes"
            fr.tfdf.tfdz = rand_bytes(r, r.choice((0, 1, 2, 17, 300)))
        ctx.table("uslp_tfdz_assignment", how)
        ctx.table("setter_cells", "uslp.tfdz")
        if not state("after:tfdz", i):
            return


KINDS = {"alt_ctor_siblings": k_alt_ctor_siblings, "pdu_history": k_pdu_history, "pus_history": k_pus_history, "uslp_history": k_uslp_history}


def run(ctx):
    from spverif.san import scribble
    scribble.install()
    r = ctx.rng
    i = 0
    # exhaustive small alphabets to depth 4
    depth = 3 if ctx.quick else 4
    alph = {"keep_alive": [["file_flag", 0], ["file_flag", 1]],
            "nak": [["file_flag", 0], ["file_flag", 1], ["segment_requests", None], ["segment_requests", [[1, 2]]]],
            "eof": [["fault_location", None], ["fault_location", "01"], ["fault_location", "0102030405060708"]]}
    import itertools
    for kind, letters in alph.items():
        for d in range(1, depth + 1):
            for hist in itertools.product(letters, repeat=d):
                i += 1
                if not ctx.mine(i):
                    continue
                for crc in (0, 1):
                    cfg = C.rand_cfg(r, crc=crc, large=r.getrandbits(1))
                    p = {"keep_alive": {"progress": 77}, "nak": {"start": 1, "end": 99, "segments": [[3, 4]]},
                         "eof": {"cond": r.choice((0, 4)), "checksum": "01020304", "size": 5, "fault_id": None}}[kind]
                    k_pdu_history(ctx, kind, cfg, p, [list(s) for s in hist], start=("decoded" if (i + crc) % 3 == 0 else "constructed"), conf_dir=(None, 0, 1)[i % 3])
    ctx.exhaustive.append(f"all histories up to depth {depth} over the Keep Alive file-flag, NAK file-flag/segment-request and EOF fault-location alphabets, CRC off and on")
    # random histories for every class with setters
    for j in range(ctx.n(2500, 250_000)):
        kind = r.choice(list(SETTERS))
        cfg = C.rand_cfg(r, segctrl=(kind == "file_data"))
        p = C.rand_params(r, kind, cfg)
        if kind in ("nak", "keep_alive"):
            # keep values inside 32 bits so that switching the file flag never makes them unpackable
            if kind == "keep_alive":
                p["progress"] &= 0xFFFFFFFF
            else:
                p["start"] &= 0xFFFFFFFF
                p["end"] &= 0xFFFFFFFF
                p["segments"] = None if p["segments"] is None else [[a & 0xFFFFFFFF, b & 0xFFFFFFFF] for a, b in p["segments"]]
        steps = rand_steps(r, kind, cfg, p, hist_len(r, 1, MAX_STEPS + 1))
        k_pdu_history(ctx, kind, cfg, p, steps, start=r.choice(("constructed", "constructed", "decoded")), conf_dir=r.choice((None, 0, 1)))
    for j in range(ctx.n(300, 30_000)):
        k_alt_ctor_siblings(ctx, ctx.seed * 1_000_003 + ctx.shard[0] * 100_003 + j)
    # caller inputs of the PDU kinds without setters
    for j in range(ctx.n(200, 10_000)):
        kind = r.choice(("ack", "prompt"))
        cfg = C.rand_cfg(r)
        k_pdu_history(ctx, kind, cfg, C.rand_params(r, kind, cfg), [], start="constructed")
    for j in range(ctx.n(600, 60_000)):
        which = "tc" if j & 1 else "tm"
        k_pus_history(ctx, which, ctx.seed * 1_000_003 + ctx.shard[0] * 100_003 + j, hist_len(r, 1, MAX_STEPS + 1), start=r.choice(("constructed", "packed", "decoded")))
    for j in range(ctx.n(400, 40_000)):
        k_uslp_history(ctx, ctx.seed * 1_000_003 + ctx.shard[0] * 100_003 + j, r.randrange(1, 6))


def conclude(ctx):
    ctx.require(ctx.extra.get("hostile_caller_scribbled_pack_results", 0) > 0, "hostile-caller sanitizer scribbled no pack() result")
    cells = ctx.tables.get("setter_cells", {})
    for kind, ss in SETTERS.items():
        for s in ss:
            for crc in (0, 1):
                for start in ("constructed", "decoded"):
                    ctx.require(cells.get(f"{kind}.{s}/crc={crc}/{start}", 0) > 0, f"setter cell {kind}.{s}/crc={crc}/{start} empty")
    for k in ("tc.app_data/constructed", "tc.app_data/packed", "tc.app_data/decoded", "tm.tm_data/constructed", "tm.tm_data/packed", "tm.tm_data/decoded", "uslp.tfdz"):
        ctx.require(cells.get(k, 0) > 0, f"setter cell {k} empty")
    for m in ("history.length", "history.length_field", "history.fresh_object", "history.pack_repeatable", "caller_inputs", "history.setter"):
        ctx.require(ctx.monitors.get(m, {}).get("evaluations", 0) > 0, f"monitor {m} never evaluated")
