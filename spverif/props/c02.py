"""C02 - PUS-C telecommand: exact encoding, inverse decode, short declared length rejected."""
from __future__ import annotations

from spverif.core.util import attempt, exc_sig, documented_errors, pool_uint, rand_uint, rand_bytes, hist_len
from spverif.ref import pus as R
from spverif.props import _views as V
from spverif.ref.crc import crc16

SCRIBBLE = True
ID = "C02"
LEVEL = "exploration"
SHARDS = {"quick": 1, "thorough": 16}
RULE = ("cases = (route, apid, count, service, subservice, source id, ack flags, application data) and crafted "
        "raw buffers for the rejection clause; all 256 services, all 256 subservices, all 16 ack values, boundary "
        "pools for apid/count/source id, data lengths 0..64, 255, 256, 1000, 4096, 65528, 65529 (max), 65530 (refused); "
        "non-trivial = not the ping TC[17,1] with default fields and not the test-suite's 3-octet payload packet; "
        "distinct = distinct (field tuple, data digest)")
TRUSTED = ["CPython 3.12", "spverif.ref.pus", "spverif.ref.ccsds", "spverif.ref.crc (bitwise CRC cross-checked with table CRC)"]
ASSUMPTIONS = [
    "oracle = independent model of ECSS-E-ST-70-41C TC packet (spverif/ref/pus.py), CRC model cross-checked against crcmod",
    "service/subservice/source-id/ack values outside their field widths are not part of the property",
]
MAX_DATA = 65529


def _imp():
    from spacepackets.ecss import tc as tcm
    from spacepackets.ecss import check_pus_crc
    from spacepackets.ccsds import spacepacket as sp
    return tcm, sp, check_pus_crc


def _lenclass(n):
    if n == 0:
        return "0"
    if n <= 64:
        return "1-64"
    if n <= 4096:
        return "65-4096"
    return "big"


def _tc_fields(t):
    return {"version": t.ccsds_version, "ptype": int(t.sp_header.packet_type), "shf": int(bool(t.sp_header.sec_header_flag)),
            "apid": t.apid, "flags": int(t.sp_header.seq_flags), "count": t.seq_count, "length": t.sp_header.data_len,
            "ack": t.pus_tc_sec_header.ack_flags, "service": t.service, "subservice": t.subservice,
            "source_id": t.source_id, "data": bytes(t.app_data)}


def build(route, apid, count, service, subservice, source_id, ack, data):
    tcm, sp, _ = _imp()
    if route == "ctor":
        return tcm.PusTc(service=service, subservice=subservice, apid=apid, app_data=data, seq_count=count,
                         source_id=source_id, ack_flags=ack)
    if route == "from_sp_header":
        # a header whose type / flag / length are deliberately wrong: the route must overwrite them
        h = sp.SpacePacketHeader(sp.PacketType.TM, apid, count, 0, False, sp.SequenceFlags.UNSEGMENTED)
        return tcm.PusTc.from_sp_header(h, service, subservice, app_data=data, source_id=source_id, ack_flags=ack)
    if route == "composite":
        h = sp.SpacePacketHeader(sp.PacketType.TC, apid, count, len(data) + 6, True, sp.SequenceFlags.UNSEGMENTED)
        sh = tcm.PusTcDataFieldHeader(service, subservice, source_id, ack)
        return tcm.PusTc.from_composite_fields(h, sh, data)
    raise AssertionError(route)


def k_tc(ctx, route, apid, count, service, subservice, source_id, ack, data, model_fed=False):
    tcm, sp, check_pus_crc = _imp()
    data_b = bytes.fromhex(data) if isinstance(data, str) else bytes(data)
    case = {"k": "tc", "route": route, "apid": apid, "count": count, "service": service, "subservice": subservice,
            "source_id": source_id, "ack": ack, "data": data_b.hex()}          # complete, so that a witness can be replayed as it is
    sample = case if len(data_b) <= 64 else dict(case, data=data_b[:8].hex() + "..", data_len=len(data_b))
    trivial = (service, subservice, source_id, ack, apid) == (17, 1, 0, 15, 1) and len(data_b) in (0, 3)
    ctx.case(f"tc/{route}/len={_lenclass(len(data_b))}", (route, apid, count, service, subservice, source_id, ack,
                                                          hash(data_b)), nontrivial=not trivial, sample=sample)
    want = R.tc(apid, count, service, subservice, source_id, ack, data_b)
    ok, t = attempt(build, route, apid, count, service, subservice, source_id, ack, data_b)
    if not ctx.check("tc.construct", ok, "raised", exc_sig(t) if not ok else "", case, error=repr(t)):
        return
    ok, p = attempt(t.pack)
    if not ctx.check("tc.pack", ok, "raised", exc_sig(p) if not ok else "", case, error=repr(p)):
        return
    p = bytes(p)
    if not ctx.check("tc.pack", p == want, "octets", _octet_diff(p, want), case, expected=want[:80], observed=p[:80]):
        return
    ctx.check("tc.packet_len", t.packet_len == len(want), "value", "", case, observed=t.packet_len, expected=len(want))
    ctx.check("tc.crc", check_pus_crc(p) is True and crc16(p) == 0, "valid_packet_fails_check", "", case)
    ok, sp_p = attempt(lambda: t.to_space_packet().pack())
    ctx.check("tc.space_packet_view", ok and bytes(sp_p) == want, "octets", "", case, observed=sp_p if ok else repr(sp_p))
    ok, p2 = attempt(t.pack)
    ctx.check("tc.pack", ok and bytes(p2) == want, "second_pack_differs", "", case)
    ok, p3 = attempt(t.pack, recalc_crc=False)
    ctx.check("tc.pack", ok and bytes(p3) == want, "cached_crc_pack_differs", "", case)
    src = want if model_fed else p
    ok, u = attempt(tcm.PusTc.unpack, src)
    if not ctx.check("tc.unpack", ok, "raised", exc_sig(u) if not ok else "", case, error=repr(u)):
        return
    got = _tc_fields(u)
    exp = R.decode_tc(want)
    exp_f = {k: exp[k] for k in got}
    if not ctx.check("tc.unpack", got == exp_f, "field", ",".join(k for k in got if got[k] != exp_f[k]), case,
                     expected={k: v for k, v in exp_f.items() if k != "data"},
                     observed={k: v for k, v in got.items() if k != "data"}):
        return
    ctx.check("tc.roundtrip", u == t and t == u, "eq", "", case)
    ctx.check("tc.roundtrip", u.packet_len == len(want), "packet_len", "", case)
    ok, rp = attempt(u.pack)
    ctx.check("tc.roundtrip", ok and bytes(rp) == want, "repack", "", case)
    ctx.check("tc.roundtrip", u.crc16 is not None and bytes(u.crc16) == want[-2:], "crc16_attr", "", case)
    # every header view the telecommand object itself offers (constructed and decoded object)
    V.sp_views(ctx, "tc.delegated_views", t, want, case, f"PusTc/{route}")
    V.sp_views(ctx, "tc.delegated_views", u, want, case, "PusTc/unpacked")
    # decoded from a buffer that goes on after the packet: the stored trailer is the packet's, not the buffer's
    ok, u2 = attempt(tcm.PusTc.unpack, src + (want[:3] if len(want) & 1 else b"\xa5" * 5))
    if ctx.check("tc.unpack", ok, "raised_with_following_octets", exc_sig(u2) if not ok else "", case, error=repr(u2)):
        ok, rp = attempt(u2.pack, recalc_crc=False)
        ctx.check("tc.roundtrip", ok and bytes(rp) == want and bytes(u2.crc16) == want[-2:] and u2 == t, "decoded_from_longer_buffer", "", case, observed=bytes(rp)[-8:] if ok else repr(rp))


def _octet_diff(a: bytes, b: bytes) -> str:
    if len(a) != len(b):
        return f"len{len(a) - len(b):+d}"
    for i, (x, y) in enumerate(zip(a, b)):
        if x != y:
            if i < 6:
                return "primary_header"
            if i < 11:
                return f"sec_header[{i - 6}]"
            if i >= len(a) - 2:
                return "crc"
            return "data"
    return ""


def k_tc_refuse(ctx, data_len, route):
    """application data that does not fit a space packet must be refused, not truncated."""
    case = {"k": "tc_refuse", "data_len": data_len, "route": route}
    ctx.case(f"tc_refuse/{route}", (data_len, route), sample=case)
    ok, res = attempt(lambda: build(route, 1, 2, 3, 4, 5, 6, bytes(data_len)).pack())
    ctx.ev("tc.refusal")
    if ok:
        ctx.fail("tc.refusal", "oversize_accepted", route, case, observed_len=len(res))
    elif not isinstance(res, ValueError):
        # the property only requires that nothing is encoded; the error class is reported, not judged
        ctx.note(f"oversize application data via {route} refused with {type(res).__name__}")


def craft_short_tc(rng, n):
    """Buffer whose length field declares n (7..12) total octets, CRC over the declared octets is zero,
    octet 6 looks like a PUS-C version/ack octet, followed by a plausible rest of a telecommand."""
    assert 7 <= n <= 12
    for _ in range(2_000_000):
        apid, count = rng.getrandbits(11), rng.getrandbits(14)
        h = bytes([0x18 | (apid >> 8), apid & 0xFF, 0xC0 | (count >> 8), count & 0xFF, 0, n - 7])
        if n >= 9:
            body = bytes([0x20 | rng.getrandbits(4)]) + rng.randbytes(n - 9)
            p = h + body
            p += crc16(p).to_bytes(2, "big")
        elif n == 8:
            c = crc16(h)
            if c >> 12 != 2:
                continue
            p = h + c.to_bytes(2, "big")
        else:  # n == 7: octets 5..6 are the CRC of octets 0..4
            c = crc16(h[:5])
            if c >> 8 != h[5] or (c & 0xF0) != 0x20:
                continue
            p = h[:5] + c.to_bytes(2, "big")
        assert crc16(p[:n]) == 0 and len(p) == n and p[6] >> 4 == 2
        tail = bytes([17, 1, 0, 0]) + rng.randbytes(8)
        return p + tail
    raise RuntimeError("no crafted buffer found")


def k_tc_short(ctx, raw):
    tcm, sp, _ = _imp()
    b = bytes.fromhex(raw)
    n = int.from_bytes(b[4:6], "big") + 7
    case = {"k": "tc_short", "raw": raw}
    ctx.case(f"tc_short/declared={n}", ("short", raw), sample=case)
    ok, res = attempt(tcm.PusTc.unpack, b)
    ctx.ev("tc.short_declared_rejected")
    ctx.table("short_declared_total", n)
    if ok:
        ctx.fail("tc.short_declared_rejected", "decoded_from_neighbouring_octets", "", case,
                 observed={"service": res.service, "subservice": res.subservice, "app_data": bytes(res.app_data).hex(),
                           "packet_len": res.packet_len})
    elif not isinstance(res, documented_errors()):
        ctx.fail("tc.short_declared_rejected", "undocumented_error", exc_sig(res), case, error=repr(res))


def k_sec_header(ctx, service, subservice, source_id, ack):
    tcm, _, _ = _imp()
    case = {"k": "sec_header", "service": service, "subservice": subservice, "source_id": source_id, "ack": ack}
    ctx.case("sec_header", (service, subservice, source_id, ack), sample=case)
    want = R.tc_sec_header(service, subservice, source_id, ack)
    ok, p = attempt(lambda: tcm.PusTcDataFieldHeader(service, subservice, source_id, ack).pack())
    ctx.check("tc.sec_header", ok and bytes(p) == want, "pack", "", case, expected=want, observed=p if ok else repr(p))
    ok, h = attempt(tcm.PusTcDataFieldHeader.unpack, want + b"\xaa\xbb")
    ctx.check("tc.sec_header", ok and (h.service, h.subservice, h.source_id, h.ack_flags) == (service, subservice, source_id, ack),
              "unpack", "", case, observed=repr(h))
    # ... and from exactly the octets it packed to (nothing behind them: the smallest buffer a decoder must accept)
    ok, h = attempt(tcm.PusTcDataFieldHeader.unpack, want)
    ctx.check("tc.sec_header", ok and (h.service, h.subservice, h.source_id, h.ack_flags) == (service, subservice, source_id, ack),
              "unpack_exact_octets", "", case, observed=repr(h))


def poison_tc(r):
    """Operations on *another*, invalid telecommand that fail part-way (fault sequence): whatever they leave behind in
    module-level or class-level state must not affect the valid packets handled afterwards."""
    tcm, sp, _ = _imp()
    outcomes = []
    for mk in (lambda: tcm.PusTc(service=r.choice((256, 300, 70000)), subservice=1, apid=r.getrandbits(11), app_data=b"ab"),
               lambda: tcm.PusTc(service=17, subservice=r.choice((256, 999)), apid=1),
               lambda: tcm.PusTc(service=17, subservice=1, apid=1, source_id=r.choice((65536, 1 << 20))),
               lambda: tcm.PusTc(service=17, subservice=1, apid=1, app_data=r.choice((None, "text", 5)))):
        ok, t = attempt(mk)
        if not ok:
            outcomes.append("ctor:" + type(t).__name__)
            continue
        for name in r.sample(("calc_crc", "pack", "to_space_packet"), 2):
            ok, e = attempt(getattr(t, name))
            outcomes.append(name + (":ok" if ok else ":" + type(e).__name__))
    ok, e = attempt(tcm.PusTc.unpack, r.randbytes(r.randrange(0, 20)))
    outcomes.append("unpack" + (":ok" if ok else ":" + type(e).__name__))
    return outcomes


def k_view_history(ctx, seed):
    """Multi-step use of one object: after any mix of pack / calc_crc / to_space_packet / unpack and field changes through the
    public setters, pack() and the space-packet view both equal the model of the *current* field values."""
    import random
    tcm, sp, check_pus_crc = _imp()
    r = random.Random(f"tcview/{seed}")
    case = {"k": "view_history", "seed": seed}
    ctx.case("tc_view_history", seed, sample=case)
    f = {"apid": r.getrandbits(11), "count": r.getrandbits(14), "service": r.getrandbits(8), "subservice": r.getrandbits(8), "source_id": r.getrandbits(16),
         "ack": r.getrandbits(4), "data": r.randbytes(r.randrange(0, 12))}
    t = build(r.choice(ROUTES), f["apid"], f["count"], f["service"], f["subservice"], f["source_id"], f["ack"], f["data"])
    if r.random() < 0.4:
        t = tcm.PusTc.unpack(bytes(t.pack()))
    ops = []

    def eq_now():
        """A second telecommand with the same current field values, packed or not (so both may hold a checksum from different
        moments): equal, both ways, whatever either object cached."""
        t_eq = build("ctor", f["apid"], f["count"], f["service"], f["subservice"], f["source_id"], f["ack"], f["data"])
        if len(ops) % 2:
            t_eq.pack()
        oke, e = attempt(lambda: (t == t_eq) and (t_eq == t))
        return ctx.check("tc.view_history", oke and e is True, "object_unequal_to_a_fresh_one_with_the_same_field_values",
                         "after_field_change" if any(o in ops for o in ("apid", "seq_count", "source_id", "app_data")) else "unchanged", dict(case, ops=list(ops)), observed=repr(e))

    for step in range(hist_len(r, 2, 9)):
        op = r.choice(("pack", "calc_crc", "view", "apid", "seq_count", "source_id", "app_data", "pack_cached", "poison", "calc_crc_cached"))
        ops.append(op)
        if op == "pack":
            got = bytes(t.pack())
        elif op == "pack_cached":
            t.pack()
            got = bytes(t.pack(recalc_crc=False))
        elif op == "calc_crc_cached":
            t.calc_crc()
            got = bytes(t.pack(recalc_crc=False))
        elif op == "calc_crc":
            t.calc_crc()
            continue
        elif op == "poison":
            for o in poison_tc(r):
                ctx.table("poison_outcomes", o)
            continue
        elif op == "view":
            got = bytes(t.to_space_packet().pack())
        else:
            if op == "apid":
                f["apid"] = rand_uint(r, 11)
                t.apid = f["apid"]
            elif op == "seq_count":
                f["count"] = rand_uint(r, 14)
                t.seq_count = f["count"]
            elif op == "source_id":
                f["source_id"] = rand_uint(r, 16)
                t.source_id = f["source_id"]
            else:
                f["data"] = r.randbytes(r.randrange(0, 12))
                t.app_data = f["data"]
            if not eq_now():            # right after the setter, before anything packs this object again
                return
            continue
        want = R.tc(f["apid"], f["count"], f["service"], f["subservice"], f["source_id"], f["ack"], f["data"])
        what = "space_packet_view" if op == "view" else "pack"
        if "poison" in ops and not any(o in ops for o in ("apid", "seq_count", "source_id", "app_data")):
            what += "_after_failed_operations_on_another_packet"
        V.sp_views(ctx, "tc.view_history", t, want, dict(case, ops=ops), "PusTc/history")
        if not eq_now():
            return
        if not ctx.check("tc.view_history", got == want, f"{what}_differs_from_current_fields", _octet_diff(got, want) + "/after_field_change" if any(o in ops for o in ("apid", "seq_count", "source_id", "app_data")) else _octet_diff(got, want),
                         dict(case, ops=ops), observed=got, expected=want):
            return


def craft_tc_crc_boundary(rng, where, target, n):
    """Field values of a telecommand whose CRC register equals `target` after the primary header (where='primary') or after
    primary + secondary header (where='secondary')."""
    from spverif.ref.crc import find16
    from spverif.ref import ccsds as H
    for _ in range(64):
        apid, svc, sub, ack, sid, count = rng.getrandbits(11), rng.getrandbits(8), rng.getrandbits(8), rng.getrandbits(4), rng.getrandbits(16), rng.getrandbits(14)
        if where == "primary":
            x = find16(b"", lambda x: H.encode_header(0, 1, 1, apid, 3, x, n + 6), target, 16384)
            if x is not None:
                return apid, x, svc, sub, sid, ack
        else:
            head = H.encode_header(0, 1, 1, apid, 3, count, n + 6) + bytes([0x20 | ack, svc, sub])
            x = find16(head, lambda x: x.to_bytes(2, "big"), target)
            if x is not None:
                return apid, count, svc, sub, x, ack
    return None


def k_tc_wrong_type(ctx, apid, count, data):
    """A primary header that says 'telemetry' handed to the composite-fields route: refused, or packed as a telecommand -
    never a 'telecommand' whose packed primary header carries packet type TM."""
    tcm, sp, _ = _imp()
    d = bytes.fromhex(data)
    case = {"k": "tc_wrong_type", "apid": apid, "count": count, "data": data}
    ctx.case("tc_wrong_type", (apid, count, d), sample=case)
    h = sp.SpacePacketHeader(sp.PacketType.TM, apid, count, len(d) + 6, True, sp.SequenceFlags.UNSEGMENTED)
    ok, res = attempt(lambda: bytes(tcm.PusTc.from_composite_fields(h, tcm.PusTcDataFieldHeader(17, 1, 0, 0xF), d).pack()))
    ctx.ev("tc.refusal")
    if ok and not (res[0] >> 4) & 1:
        ctx.fail("tc.refusal", "telemetry_header_packed_as_telecommand", "composite", case, observed=res[:16])
    elif not ok and not isinstance(res, ValueError):
        ctx.fail("tc.refusal", "wrong_error", f"composite/{type(res).__name__}", case, error=repr(res))


def k_crc_helpers(ctx, data):
    """The library's CRC function and the module-level CRC helpers of the telecommand module compute / append / rewrite a
    CRC-16/CCITT-FALSE."""
    tcm, sp, check = _imp()
    from spverif.ref.crc import crc16
    from spacepackets.crc import CRC16_CCITT_FUNC
    d = bytes.fromhex(data)
    case = {"k": "crc_helpers", "data": data if len(d) <= 64 else data[:32] + "..", "data_len": len(d)}
    if len(d) > 64:
        case = {"k": "crc_helpers", "data": data}
    ctx.case("crc_helpers", d)
    for form in (bytes, bytearray):
        ok, v = attempt(CRC16_CCITT_FUNC, form(d))
        ctx.check("tc.crc", ok and v == crc16(d), "library_crc_function_differs_from_model", f"len%4096={'0' if len(d) % 4096 == 0 and d else 'n'}/{form.__name__}", case,
                  observed=v if ok else repr(v), expected=crc16(d))
    ok, a = attempt(lambda: bytes(tcm.generate_crc(bytearray(d))))
    ctx.check("tc.crc", ok and a == d + crc16(d).to_bytes(2, "big"), "generate_crc", "", case, observed=a if ok else repr(a))
    if len(d) >= 2:
        ok, b = attempt(lambda: bytes(tcm.generate_packet_crc(bytearray(d))))
        ctx.check("tc.crc", ok and b == d[:-2] + crc16(d[:-2]).to_bytes(2, "big"), "generate_packet_crc", "", case, observed=b if ok else repr(b))


def k_same_shape_series(ctx, seed):
    """Many telecommands one after the other that agree in every header field and in the *length* of their application data
    and differ only in its content, each with a fresh data object that is released again (what a command loop does): anything
    remembered per object identity, per length or per header comes back for the wrong packet."""
    import random
    tcm, sp, check_pus_crc = _imp()
    r = random.Random(f"tcseries/{seed}")
    case = {"k": "same_shape_series", "seed": seed}
    ctx.case("tc_same_shape_series", seed, sample=case)
    f = (r.getrandbits(11), r.getrandbits(14), r.getrandbits(8), r.getrandbits(8), r.getrandbits(16), r.getrandbits(4))
    n = r.choice((0, 1, 16, 255, 256, 257, 300, 1024, 4096))
    for i in range(r.choice((6, 12, 40))):
        data = bytes(rand_bytes(r, n)) if r.random() < 0.8 else bytearray(rand_bytes(r, n))
        want = R.tc(f[0], f[1], f[2], f[3], f[4], f[5], bytes(data))
        t = build("ctor", f[0], f[1], f[2], f[3], f[4], f[5], data)
        how = r.choice(("pack", "pack", "view", "pack_twice"))
        ok, got = attempt(lambda: bytes(t.to_space_packet().pack()) if how == "view" else (t.pack(), bytes(t.pack()))[1] if how == "pack_twice" else bytes(t.pack()))
        if not ctx.check("tc.series", ok and got == want, "packet_of_an_earlier_telecommand_of_the_same_shape_shows", f"{_octet_diff(got, want) if ok else 'raised'}/len={_lenclass(n)}", dict(case, index=i, how=how),
                         observed=got[-8:] if ok else repr(got), expected=want[-8:]):
            return
        del t, data


def k_defaults(ctx, seed):
    """Telecommands built with defaulted arguments, one of them extended in place through its public property afterwards
    (tc.app_data += ...): every later telecommand built with defaults is the documented default again (empty application data,
    APID 0, count 0, source id 0, all ack flags)."""
    import random
    tcm, sp, check_pus_crc = _imp()
    r = random.Random(f"tcdefaults/{seed}")
    case = {"k": "defaults", "seed": seed}
    ctx.case("tc_defaults", seed, sample=case)
    for i in range(3):
        sv, sb = r.getrandbits(8), r.getrandbits(8)
        ok, t = attempt(tcm.PusTc, service=sv, subservice=sb)
        want = R.tc(0, 0, sv, sb, 0, 0xF, b"")
        ok2, raw = attempt(lambda: bytes(t.pack())) if ok else (False, t)
        if not ctx.check("tc.defaults", ok and ok2 and raw == want and bytes(t.app_data) == b"", "defaulted_arguments_are_not_the_documented_defaults", "first" if i == 0 else "after_an_earlier_object_was_extended_in_place", dict(case, index=i),
                         observed=raw if ok2 else repr(raw), expected=want):
            return
        extra = r.randbytes(r.randrange(1, 5))
        how = r.choice(("iadd", "extend_if_mutable", "assign"))
        if how == "iadd":
            t.app_data += extra
        elif how == "extend_if_mutable" and isinstance(t.app_data, bytearray):
            t.app_data.extend(extra)
        else:
            t.app_data = bytes(t.app_data) + extra
        ok3, raw3 = attempt(lambda: bytes(t.pack()))
        ctx.check("tc.defaults", ok3 and raw3 == R.tc(0, 0, sv, sb, 0, 0xF, extra), "octets_after_extending_the_default_data", how, dict(case, index=i))


KINDS = {"defaults": k_defaults, "same_shape_series": k_same_shape_series, "tc_wrong_type": k_tc_wrong_type, "crc_helpers": k_crc_helpers, "tc": k_tc, "tc_refuse": k_tc_refuse, "tc_short": k_tc_short, "sec_header": k_sec_header, "view_history": k_view_history}
ROUTES = ("ctor", "from_sp_header", "composite")


def selftest(ctx):
    assert R.tc(1, 22, 17, 1, 0, 0xF, b"").hex() == "1801c01600062f11010000ab62"
    assert R.tc(1, 0, 17, 1, 0, 0xF, b"").hex() == "1801c00000062f11010000161d"
    from spverif.ref.crc import crc16_bitwise
    from crcmod.predefined import mkPredefinedCrcFun          # the third-party routine itself, not the tree under test
    third_party = mkPredefinedCrcFun(crc_name="crc-ccitt-false")
    n = 2
    for _ in range(300):
        d = ctx.rng.randbytes(ctx.rng.randrange(0, 200))
        assert crc16(d) == crc16_bitwise(d) == third_party(d)
        p = R.tc(ctx.rng.getrandbits(11), ctx.rng.getrandbits(14), 1, 2, 3, 4, d)
        dd = R.decode_tc(p)
        assert dd["data"] == d and dd["crc_ok"]
        n += 1
    ctx.selftest["ref.pus.tc golden+roundtrip, crc models vs crcmod"] = n


def run(ctx):
    from spverif.ref import enums as _enums
    if ctx.shard[0] == 0:
        _enums.check(ctx, "code_tables", ['spacepackets.ecss.defs', 'spacepackets.ccsds.spacepacket'])
    from spverif.san import scribble
    scribble.install()
    r = ctx.rng

    def rnd_data(n):
        return rand_bytes(r, n)

    # all services / subservices / ack values, one at a time
    for i in range(256):
        if ctx.mine(i):
            k_tc(ctx, ROUTES[i % 3], r.getrandbits(11), r.getrandbits(14), i, r.getrandbits(8), r.getrandbits(16),
                 r.getrandbits(4), rnd_data(i % 9))
            k_tc(ctx, ROUTES[(i + 1) % 3], r.getrandbits(11), r.getrandbits(14), r.getrandbits(8), i, r.getrandbits(16),
                 r.getrandbits(4), rnd_data(i % 7), model_fed=True)
            k_sec_header(ctx, i, 255 - i, (i * 257) & 0xFFFF, i & 0xF)
    for ack in range(16):
        for route in ROUTES:
            k_tc(ctx, route, 0x7FF, 0x3FFF, 255, 255, 0xFFFF, ack, b"\xff" * ack)
    ctx.exhaustive.append("all 256 services, all 256 subservices, all 16 ack values x 3 routes")
    for sid in pool_uint(16):
        k_tc(ctx, "ctor", 2, 3, 4, 5, sid, 9, b"\x01\x02")
        k_sec_header(ctx, 1, 2, sid, 3)
    for apid in pool_uint(11):
        k_tc(ctx, r.choice(ROUTES), apid, r.getrandbits(14), 3, 25, 1, 0xF, b"\x00")
    for count in pool_uint(14):
        k_tc(ctx, r.choice(ROUTES), r.getrandbits(11), count, 8, 128, 0x8000, 0, b"")
    # data lengths
    lens = list(range(0, 65)) + [255, 256, 1000, 4096]
    for j, n in enumerate(lens):
        if ctx.mine(j):
            k_tc(ctx, ROUTES[j % 3], r.getrandbits(11), r.getrandbits(14), r.getrandbits(8), r.getrandbits(8),
                 r.getrandbits(16), r.getrandbits(4), rnd_data(n), model_fed=bool(j & 1))
    # block-boundary sizes: CRC-covered octets (11 + n) and total octets (13 + n) around multiples of 256 ... 32768
    from spverif.core.util import block_boundary_sizes
    for j, n in enumerate(block_boundary_sizes((11, 13), MAX_DATA, ctx.quick)):
        if ctx.mine(j):
            ctx.table("block_boundary_data_len", n)
            k_tc(ctx, ROUTES[j % 3], r.getrandbits(11), r.getrandbits(14), r.getrandbits(8), r.getrandbits(8), r.getrandbits(16), r.getrandbits(4), rnd_data(n),
                 model_fed=bool(j & 1))
    if ctx.shard[0] == 0:
        for n in (65528, MAX_DATA):
            for route in ROUTES:
                k_tc(ctx, route, 0x555, 0x2AAA, 200, 100, 0x1234, 5, bytes([n & 0xFF]) * n)
        for route in ROUTES:
            k_tc_refuse(ctx, MAX_DATA + 1, route)
            k_tc_refuse(ctx, 70000, route)
    # random
    for _ in range(ctx.n(2500, 300_000)):
        n = r.choice((0, 1, 2, 3, 5, 8, 13, 21, 34, 55, 89, 144, 233, 377)) if r.random() < 0.7 else r.randrange(0, 2000)
        k_tc(ctx, r.choice(ROUTES), rand_uint(r, 11), rand_uint(r, 14), rand_uint(r, 8), rand_uint(r, 8), rand_uint(r, 16),
             rand_uint(r, 4), rnd_data(n), model_fed=r.random() < 0.5)
    for j in range(ctx.n(1500, 150_000)):
        k_view_history(ctx, ctx.seed * 1_000_003 + ctx.shard[0] * 100_003 + j)
    for j in range(ctx.n(60, 6_000)):
        k_defaults(ctx, ctx.seed * 1_000_003 + ctx.shard[0] * 100_003 + j)
    for j in range(ctx.n(120, 12_000)):
        k_same_shape_series(ctx, ctx.seed * 1_000_003 + ctx.shard[0] * 100_003 + j)
    # telecommands whose running CRC is exactly 0x0000 / 0xFFFF after the primary header, or after both headers
    for where in ("primary", "secondary"):
        for target in (0x0000, 0xFFFF):
            for n in (0, 3, 17):
                f = craft_tc_crc_boundary(r, where, target, n)
                if f is not None:
                    ctx.table("crc_register_at_boundary", f"{where}/{target:04x}")
                    for route in ROUTES:
                        k_tc(ctx, route, f[0], f[1], f[2], f[3], f[4], f[5], rnd_data(n), model_fed=(n == 3))
    for n in list(range(0, 40)) + [255, 256, 257, 1000, 4095, 4096, 4097, 8191, 8192, 8193, 12288, 16384, 32768, 65535, 65536]:
        k_crc_helpers(ctx, rnd_data(n).hex())
        k_tc_wrong_type(ctx, r.getrandbits(11), r.getrandbits(14), rnd_data(n % 20).hex())
    # rejection clause
    reps = 3 if ctx.quick else 12
    for n in range(7, 13):
        for _ in range(reps):
            k_tc_short(ctx, craft_short_tc(r, n).hex())


def conclude(ctx):
    ctx.require(ctx.extra.get("hostile_caller_scribbled_pack_results", 0) > 0, "hostile-caller sanitizer scribbled no pack() result")
    for route in ROUTES:
        for lc in ("0", "1-64", "65-4096", "big"):
            ctx.require(ctx.classes.get(f"tc/{route}/len={lc}", 0) > 0, f"class tc/{route}/len={lc} empty")
    ctx.require(len(ctx.tables.get("crc_register_at_boundary", {})) == 4, "crafted CRC-boundary telecommands missing")
    for n in range(7, 13):
        ctx.require(ctx.tables.get("short_declared_total", {}).get(str(n), 0) > 0, f"no crafted short buffer with declared total {n}")
    for m in ("tc.pack", "tc.unpack", "tc.roundtrip", "tc.space_packet_view", "tc.crc", "tc.refusal", "tc.view_history",
              "tc.short_declared_rejected", "tc.packet_len"):
        ctx.require(ctx.monitors.get(m, {}).get("evaluations", 0) > 0, f"monitor {m} never evaluated")
