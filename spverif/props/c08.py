"""C08 - CFDP TLV / LV items: exact encoding, round trip, type safety."""
from __future__ import annotations

from spverif.core.util import attempt, exc_sig, rand_bytes, rand_name, documented_errors
from spverif.ref import cfdp as R
from . import _cfdp as C

SCRIBBLE = True
THOROUGH_SCALE = 24
ID = "C08"
LEVEL = "exploration"
SHARDS = {"quick": 1, "thorough": 8}
RULE = ("cases = (TLV type, value) for all 6 types x all lengths 0..255 (+ refused lengths 256/300/1000), LV values of all lengths "
        "0..255 (+256 refused), parameter tuples of the six concrete TLVs (every filestore action code x every status code of that "
        "action x names {empty, ASCII, multi-octet UTF-8, long} x message {empty, octets}; all 13 condition codes x 4 handler codes; "
        "entity ids of width 1/2/4/8), and the full (concrete class x foreign type x route) type-safety matrix; non-trivial = value "
        "is not one of the literals of tests/cfdp/tlvslvs; distinct = distinct (kind, parameter tuple)")
TRUSTED = ["CPython 3.12", "spverif.ref.cfdp (lv, tlv, filestore layouts)"]
ASSUMPTIONS = ["oracle = independent model of CCSDS 727.0-B-5 5.1.9 and 5.4 (spverif/ref/cfdp.py)",
               "foreign-type inputs carry a value that would be valid for the target class, so the only legitimate outcome is the type-mismatch error"]

CONCRETE = ("entity_id", "flow_label", "fault_handler", "fs_request", "fs_response", "msg_to_user")
TYPE_OF = {"entity_id": 6, "flow_label": 5, "fault_handler": 4, "fs_request": 0, "fs_response": 1, "msg_to_user": 2}
HOLDER = {"entity_id": "to_entity_id", "flow_label": "to_flow_label", "fault_handler": "to_fault_handler_override",
          "fs_request": "to_fs_request", "fs_response": "to_fs_response", "msg_to_user": "to_msg_to_user"}


ISO = C.Isolation(size=8)


def cls_of(name):
    X = C.lib()
    return {"entity_id": X.EntityIdTlv, "flow_label": X.FlowLabelTlv, "fault_handler": X.FaultHandlerOverrideTlv,
            "fs_request": X.FileStoreRequestTlv, "fs_response": X.FileStoreResponseTlv, "msg_to_user": X.MessageToUserTlv}[name]


def k_tlv(ctx, t, value, suffix=""):
    X = C.lib()
    v, sfx = bytes.fromhex(value), bytes.fromhex(suffix)
    case = {"k": "tlv", "t": t, "value": value, "suffix": suffix}
    ctx.case(f"tlv/type={t}", (t, v), nontrivial=len(v) not in (0, 4) or any(v), sample=case if len(v) < 40 else None)
    ctx.table("tlv_type_x_len", f"{t}/{len(v)}")
    want = R.tlv(t, v)
    ok, o = attempt(X.CfdpTlv, X.TlvType(t), v)
    if not ctx.check("tlv.pack", ok, "construct_raised", "", case, error=repr(o)):
        return
    ok, p = attempt(o.pack)
    if not ctx.check("tlv.pack", ok and bytes(p) == want, "octets", f"len={'0' if not v else 'n'}", case, expected=want[:40], observed=bytes(p)[:40] if ok else repr(p)):
        return
    ctx.check("tlv.len", o.packet_len == len(want) == len(v) + 2, "packet_len", "", case, observed=o.packet_len)
    ok, u = attempt(X.CfdpTlv.unpack, want + sfx)
    if not ctx.check("tlv.unpack", ok, "raised", exc_sig(u) if not ok else "", case, error=repr(u)):
        return
    ctx.check("tlv.unpack", int(u.tlv_type) == t and bytes(u.value) == v, "field", "type" if int(u.tlv_type) != t else "value", case,
              observed=[int(u.tlv_type), bytes(u.value).hex()[:60]])
    ctx.check("tlv.len", u.packet_len == len(v) + 2, "consumed", "", case, observed=u.packet_len)
    ctx.check("tlv.unpack", u == o and o == u, "eq", "", case)
    ok, rp = attempt(u.pack)
    ctx.check("tlv.unpack", ok and bytes(rp) == want, "repack", "", case)
    # the type of an existing TLV changed through its setter (on the packed original and on the decoded object)
    for label, obj in (("constructed", o), ("unpacked", u)):
        t2 = R.TLV_TYPES[(R.TLV_TYPES.index(t) + 1 + len(v)) % len(R.TLV_TYPES)]
        ok, _ = attempt(setattr, obj, "tlv_type", X.TlvType(t2))
        ok2, p2 = attempt(obj.pack) if ok else (False, _)
        ctx.check("tlv.pack", ok and ok2 and bytes(p2) == R.tlv(t2, v) and int(obj.tlv_type) == t2 and obj.packet_len == len(v) + 2, "octets_after_type_setter", label, case,
                  observed=bytes(p2)[:8] if ok2 else repr(p2), expected=R.tlv(t2, v)[:8])
        attempt(setattr, obj, "tlv_type", X.TlvType(t))
    ISO.remember(u, want, "tlv")
    ISO.recheck(ctx, "concrete.decoded_objects_independent", case)


def k_lv(ctx, value, suffix=""):
    X = C.lib()
    v, sfx = bytes.fromhex(value), bytes.fromhex(suffix)
    case = {"k": "lv", "value": value, "suffix": suffix}
    ctx.case("lv", v, nontrivial=len(v) > 0, sample=case if len(v) < 40 else None)
    ctx.table("lv_len", len(v))
    want = R.lv(v)
    ok, o = attempt(X.CfdpLv, v)
    if not ctx.check("lv.pack", ok, "construct_raised", "", case, error=repr(o)):
        return
    ok, p = attempt(o.pack)
    if not ctx.check("lv.pack", ok and bytes(p) == want, "octets", "", case, expected=want[:40], observed=bytes(p)[:40] if ok else repr(p)):
        return
    ctx.check("lv.len", o.packet_len == len(v) + 1 and o.value_len == len(v), "packet_len", "", case)
    ok, u = attempt(X.CfdpLv.unpack, want + sfx)
    if not ctx.check("lv.unpack", ok, "raised", exc_sig(u) if not ok else "", case, error=repr(u)):
        return
    ctx.check("lv.unpack", bytes(u.value) == v and u.packet_len == len(v) + 1 and u == o, "field", "", case, observed=bytes(u.value).hex()[:60])
    ok, rp = attempt(u.pack)
    ctx.check("lv.unpack", ok and bytes(rp) == want, "repack", "", case)
    ISO.remember(u, want, "lv")
    ISO.recheck(ctx, "concrete.decoded_objects_independent", case)


def k_refuse(ctx, what, t, n):
    X = C.lib()
    case = {"k": "refuse", "what": what, "t": t, "n": n}
    ctx.case(f"refuse/{what}", (what, t, n), sample=case)
    fn = {"tlv": lambda: X.CfdpTlv(X.TlvType(t), bytes(n)).pack(), "lv": lambda: X.CfdpLv(bytes(n)).pack(),
          "msg_to_user": lambda: X.MessageToUserTlv(bytes(n)).pack(), "flow_label": lambda: X.FlowLabelTlv(bytes(n)).pack(),
          "entity_id": lambda: X.EntityIdTlv(bytes(n)).pack(),
          "fs_request": lambda: X.FileStoreRequestTlv(X.FilestoreActionCode(1), "x" * n).pack(),
          "fs_response": lambda: X.FileStoreResponseTlv(X.FilestoreActionCode(1), X.FilestoreResponseStatusCode.DELETE_SUCCESS, "x" * n).pack(),
          # value = 1 + (1 + 100) + (1 + 100) + (1 + len(msg)): n is the resulting value length, the surplus sits in the message / the second name
          "fs_response_msg": lambda: X.FileStoreResponseTlv(X.FilestoreActionCode(2), X.FilestoreResponseStatusCode.RENAME_SUCCESS, "a" * 100, "b" * 100,
                                                            X.CfdpLv(bytes(n - 204))).pack(),
          "fs_response_second": lambda: X.FileStoreResponseTlv(X.FilestoreActionCode(2), X.FilestoreResponseStatusCode.RENAME_SUCCESS, "a" * 10, "b" * (n - 14)).pack(),
          "fs_request_second": lambda: X.FileStoreRequestTlv(X.FilestoreActionCode(2), "a" * 10, "b" * (n - 13)).pack()}[what]
    ok, res = attempt(fn)
    ctx.ev("long_value_refused")
    if ok:
        ctx.fail("long_value_refused", "accepted", what, case, observed=bytes(res)[:16])
    elif not isinstance(res, ValueError):
        ctx.fail("long_value_refused", "wrong_error", f"{what}/{type(res).__name__}", case, error=repr(res))


def make(name, p):
    """(library object, reference octets, canonical params) for a concrete TLV."""
    X = C.lib()
    if name == "entity_id":
        v = bytes.fromhex(p["id"])
        return X.EntityIdTlv(v), R.tlv(6, v)
    if name == "flow_label":
        v = bytes.fromhex(p["label"])
        return X.FlowLabelTlv(v), R.tlv(5, v)
    if name == "msg_to_user":
        v = bytes.fromhex(p["msg"])
        return X.MessageToUserTlv(v), R.tlv(2, v)
    if name == "fault_handler":
        return (X.FaultHandlerOverrideTlv(X.defs.ConditionCode(p["cond"]), X.defs.FaultHandlerCode(p["handler"])),
                R.tlv(4, R.fault_handler_value(p["cond"], p["handler"])))
    if name == "fs_request":
        return (X.FileStoreRequestTlv(X.FilestoreActionCode(p["action"]), p["first"], p["second"]),
                R.tlv(0, R.fs_request_value(p["action"], p["first"].encode(), p["second"].encode())))
    if name == "fs_response":
        return (C.mk_response(p),
                R.tlv(1, R.fs_response_value(p["action"], p["status"] & 0xF, p["first"].encode(), p["second"].encode(), bytes.fromhex(p["msg"]))))
    raise AssertionError(name)


def read(name, o) -> dict:
    if name == "entity_id":
        return {"id": bytes(o.value).hex()}
    if name == "flow_label":
        return {"label": bytes(o.value).hex()}
    if name == "msg_to_user":
        return {"msg": bytes(o.value).hex()}
    if name == "fault_handler":
        return {"cond": int(o.condition_code), "handler": int(o.handler_code)}
    two = int(o.action_code) in R.TWO_NAME_ACTIONS
    if name == "fs_request":
        return {"action": int(o.action_code), "first": o.first_file_name, "second": o.second_file_name if two else ""}
    if name == "fs_response":
        return {"action": int(o.action_code), "status": int(o.status_code), "first": o.first_file_name,
                "second": o.second_file_name if two else "", "msg": bytes(o.filestore_msg.value).hex()}
    raise AssertionError(name)


def k_concrete(ctx, name, p, suffix=""):
    X = C.lib()
    sfx = bytes.fromhex(suffix)
    case = {"k": "concrete", "name": name, "p": p, "suffix": suffix}
    ctx.case(f"concrete/{name}", (name, repr(sorted(p.items()))), sample=case)
    if "action" in p:
        ctx.table("action_x_status", f"{p['action']}/{p.get('status', '-')}")
        if not (p["action"] in R.TWO_NAME_ACTIONS):
            p = dict(p, second="")
    if name == "fault_handler":
        ctx.table("cond_x_handler", f"{p['cond']}/{p['handler']}")
    ok, mk = attempt(make, name, p)
    if not ctx.check("concrete.pack", ok, "construct_raised", f"{name}/" + (exc_sig(mk) if not ok else ""), case, error=repr(mk)):
        return
    o, want = mk
    ok, raw = attempt(o.pack)
    if not ctx.check("concrete.pack", ok and bytes(raw) == want, "octets", name, case, expected=want[:60], observed=bytes(raw)[:60] if ok else repr(raw)):
        return
    ctx.check("concrete.len", o.packet_len == len(want), "packet_len", name, case, observed=o.packet_len, expected=len(want))
    ctx.check("concrete.len", int(o.tlv_type) == TYPE_OF[name] and bytes(o.value) == want[2:], "type_value_views", name, case)
    cls = cls_of(name)
    routes = {
        "unpack": lambda: cls.unpack(want + sfx),
        "from_tlv": lambda: cls.from_tlv(X.CfdpTlv.unpack(want + sfx)),
        "holder_generic": lambda: getattr(X.TlvHolder(X.CfdpTlv.unpack(want)), HOLDER[name])(),
        "holder_concrete": lambda: getattr(X.TlvHolder(o), HOLDER[name])(),
    }
    ok, ht = attempt(lambda: (int(X.TlvHolder(o).tlv_type), int(X.TlvHolder(X.CfdpTlv.unpack(want)).tlv_type)))
    ctx.check("concrete.len", ok and ht == (TYPE_OF[name], TYPE_OF[name]), "holder_type_view", name, case, observed=repr(ht))
    for rname, fn in routes.items():
        ok, u = attempt(fn)
        if not ctx.check("concrete.unpack", ok, "raised", f"{name}/{rname}/" + (exc_sig(u) if not ok else ""), case, error=repr(u)):
            continue
        ctx.check("concrete.unpack", type(u) is cls, "class", f"{name}/{rname}", case, observed=type(u).__name__)
        got = read(name, u)
        ctx.check("concrete.unpack", got == p, "param", f"{name}/{rname}/{C.diff_keys(got, p)}", case, expected=p, observed=got)
        ctx.check("concrete.len", u.packet_len == len(want), "decoded_packet_len", f"{name}/{rname}", case, observed=u.packet_len, expected=len(want))
        ok2, rp = attempt(u.pack)
        ctx.check("concrete.unpack", ok2 and bytes(rp) == want, "repack", f"{name}/{rname}", case)
        ok3, e = attempt(lambda: (u == o) and (o == u))
        ctx.check("concrete.unpack", ok3 and e is True, "eq", f"{name}/{rname}", case, observed=repr(e))
        if rname != "holder_concrete":
            ISO.remember(u, want, f"{name}/{rname}", view=lambda u=u: read(name, u))
    # "consumes exactly length+2 octets": the same TLV with a smaller length octet (stopping inside its own value), followed by the
    # octets cut off - whatever the decoder makes of the shortened TLV alone (usually a refusal) it must make of it with those octets
    # behind it; they are not part of the TLV any more
    vlen = len(want) - 2
    for cut in sorted({1, vlen // 2, vlen - 1, vlen} - {0}):
        if not 1 <= cut <= vlen:
            continue
        short = bytes([want[0], vlen - cut]) + want[2:len(want) - cut]
        rest = want[len(want) - cut:] + sfx
        ok_a, a = attempt(cls.unpack, short)
        ok_b, b = attempt(cls.unpack, short + rest)
        ctx.ev("concrete.consumes_declared_length")
        ctx.table("shortened_tlv_alone", f"{name}:{'decoded' if ok_a else type(a).__name__}")
        if ok_a != ok_b:
            ctx.fail("concrete.consumes_declared_length", "octets_behind_the_declared_length_change_the_outcome", f"{name}/{'accepted_with_them' if ok_b else 'refused_with_them'}", case,
                     unit=short, behind=rest, alone=repr(a)[:160], with_octets_behind=repr(b)[:160])
        elif ok_a:
            ra, rb = attempt(read, name, a), attempt(read, name, b)
            ctx.check("concrete.consumes_declared_length", ra == rb and a.packet_len == b.packet_len == len(short), "octets_behind_the_declared_length_change_the_result", name, case,
                      unit=short, behind=rest, alone=repr(ra)[:160], with_octets_behind=repr(rb)[:160])
    # objects decoded earlier (from other octets) must still be what they were decoded from
    ISO.recheck(ctx, "concrete.decoded_objects_independent", case)
    k_defaults(ctx, name, p)


def k_defaults(ctx, name, p):
    """Objects built with defaulted optional arguments encode the documented defaults, whatever was decoded or built before."""
    X = C.lib()
    if name == "fs_response":
        q = dict(p, second="", msg="")
        if p["action"] in R.TWO_NAME_ACTIONS:
            return
        fn = lambda: X.FileStoreResponseTlv(X.FilestoreActionCode(p["action"]), X.FilestoreResponseStatusCode(p["status"]), p["first"])  # noqa: E731
        want = R.tlv(1, R.fs_response_value(p["action"], p["status"] & 0xF, p["first"].encode(), b"", b""))
    elif name == "fs_request":
        if p["action"] in R.TWO_NAME_ACTIONS:
            return
        q = dict(p, second="")
        fn = lambda: X.FileStoreRequestTlv(X.FilestoreActionCode(p["action"]), p["first"])  # noqa: E731
        want = R.tlv(0, R.fs_request_value(p["action"], p["first"].encode(), b""))
    else:
        return
    case = {"k": "defaults", "name": name, "p": q}
    ok, o = attempt(fn)
    ok2, raw = attempt(lambda: bytes(o.pack())) if ok else (False, o)
    ctx.check("concrete.defaults", ok and ok2 and raw == want and read(name, o) == q and o.packet_len == len(want), "defaulted_arguments_not_default",
              name, case, expected=want[:60], observed=raw[:60] if ok2 else repr(raw))


def _foreign_value_for(target, variant=0):
    """A value that is valid content for the *target* class (so that only the type can be objected to).  Variants: content
    the target class treats specially (a reserved 'cfdp' message, the longest value, an empty one)."""
    vs = {"entity_id": [bytes([1, 2]), bytes(8), b"\xff" * 4, b"\x07", b""],
          "flow_label": [b"lbl", b"", b"cfdp\x00", bytes(255)],
          "fault_handler": [bytes([0x41]), bytes([0x12]), bytes([0xF4]), bytes([0x33]), b""],      # the empty value: a foreign TLV is a foreign TLV before it is an empty one
          "msg_to_user": [b"hello", b"cfdp\x00" + R.lv(b"a") + R.lv(b"b") + R.lv(b"c"), b"cfdp\x0a\x11\x01\x05", b"cfdp\x10" + R.lv(b"dir") + R.lv(b"out"), b"cfdp", b""],
          "fs_request": [R.fs_request_value(1, b"a.txt"), R.fs_request_value(2, b"a", b"b"), R.fs_request_value(0, b"cfdp\x00"), R.fs_request_value(6, b"")],
          "fs_response": [R.fs_response_value(1, 0, b"a.txt", b"", b""), R.fs_response_value(2, 0, b"a", b"b", b"msg"), R.fs_response_value(0, 1, b"cfdp", b"", b"cfdp\x00"),
                          R.fs_response_value(5, 15, b"d", b"", b"")]}[target]
    return vs[variant % len(vs)]


N_FOREIGN_VARIANTS = 6


def k_type_safety(ctx, target, foreign_type, route, variant=0):
    X = C.lib()
    from spacepackets.cfdp.exceptions import TlvTypeMissmatch
    case = {"k": "type_safety", "target": target, "foreign_type": foreign_type, "route": route, "variant": variant}
    ctx.case(f"type_safety/{target}/{route}", (target, foreign_type, route, variant), sample=case)
    ctx.table("type_safety_matrix", f"{target}/{foreign_type}/{route}")
    cls = cls_of(target)
    val = _foreign_value_for(target, variant)
    raw = R.tlv(foreign_type, val)

    def foreign_concrete():
        name = [n for n, t in TYPE_OF.items() if t == foreign_type][0]
        # a concrete object of the foreign class built from its own valid content
        p = {"entity_id": {"id": "0102"}, "flow_label": {"label": "6c626c"}, "fault_handler": {"cond": 4, "handler": 1},
             "msg_to_user": {"msg": "68656c6c6f"}, "fs_request": {"action": 1, "first": "a.txt", "second": ""},
             "fs_response": {"action": 1, "status": 0x10, "first": "a.txt", "second": "", "msg": ""}}[name]
        if variant % 2 and name in ("entity_id", "flow_label", "msg_to_user"):
            # a foreign object whose own (valid) content is what the target class would accept or treat specially
            return make(name, {"entity_id": {"id": val.hex()}, "flow_label": {"label": val.hex()}, "msg_to_user": {"msg": val.hex()}}[name])[0]
        return make(name, p)[0]

    # the generic TLV's type given as the enumeration member or as the plain number (TlvType is an IntEnum; both pack alike)
    ft_arg = X.TlvType(foreign_type) if variant % 3 else int(foreign_type)
    fn = {"unpack": lambda: cls.unpack(raw),
          "from_tlv": lambda: cls.from_tlv(X.CfdpTlv(ft_arg, val)),
          "holder_generic": lambda: getattr(X.TlvHolder(X.CfdpTlv(ft_arg, val)), HOLDER[target])(),
          "holder_concrete": lambda: getattr(X.TlvHolder(foreign_concrete()), HOLDER[target])()}[route]
    ok, res = attempt(fn)
    ctx.ev("type_safety")
    if ok:
        ctx.fail("type_safety", "foreign_type_accepted", f"{target}/{route}", case, observed=repr(res))
    elif isinstance(res, TlvTypeMissmatch) or (route == "holder_concrete" and isinstance(res, TypeError)):
        pass
    else:
        ctx.fail("type_safety", "wrong_error", f"{target}/{route}/{type(res).__name__}", case, error=repr(res))


def k_status_maps(ctx, action, status4):
    X = C.lib()
    from spacepackets.cfdp.tlv import map_enum_status_code_to_int, map_int_status_code_to_enum, map_enum_status_code_to_action_status_code
    case = {"k": "status_maps", "action": action, "status4": status4}
    ctx.case("status_maps", (action, status4))
    full = (action << 4) | status4
    valid = full in {int(c) for c in X.FilestoreResponseStatusCode}
    ok, e = attempt(map_int_status_code_to_enum, X.FilestoreActionCode(action), status4)
    ctx.check("status_maps", ok and (int(e) == full if valid else int(e) == -1), "int_to_enum", "", case, observed=repr(e))
    if valid:
        en = X.FilestoreResponseStatusCode(full)
        ctx.check("status_maps", map_enum_status_code_to_int(en) == status4, "enum_to_int", "", case)
        ok, t = attempt(map_enum_status_code_to_action_status_code, en)
        ctx.check("status_maps", ok and (int(t[0]), t[1]) == (action, status4), "enum_to_action_status", "", case, observed=repr(t))


def k_generic_status(ctx, action, s4, first, second):
    """A filestore response built with one of the two action-independent status members (SUCCESS = 0b0000, NOT_PERFORMED =
    0b1111) for any action code: the first value octet is the action code in the upper and the status in the lower nibble."""
    X = C.lib()
    case = {"k": "generic_status", "action": action, "s4": s4, "first": first, "second": second}
    ctx.case("generic_status", (action, s4, first, second), sample=case)
    two = action in R.TWO_NAME_ACTIONS
    member = X.FilestoreResponseStatusCode.SUCCESS if s4 == 0 else X.FilestoreResponseStatusCode.NOT_PERFORMED
    want = R.tlv(1, R.fs_response_value(action, s4, first.encode(), second.encode() if two else b"", b"\x01\x02"))
    ok, o = attempt(lambda: X.FileStoreResponseTlv(X.FilestoreActionCode(action), member, first, second if two else None, X.CfdpLv(b"\x01\x02")))
    ok2, raw = attempt(lambda: bytes(o.pack())) if ok else (False, o)
    if not ctx.check("concrete.pack", ok and ok2 and raw == want and o.packet_len == len(want), "octets_with_action_independent_status_member", f"action={action}/s4={s4}", case,
                     expected=want[:40], observed=raw[:40] if ok2 else repr(raw)):
        return
    ok, u = attempt(X.FileStoreResponseTlv.unpack, want)
    ctx.check("concrete.unpack", ok and int(u.action_code) == action and int(u.status_code) & 0xF == s4 and u.first_file_name == first and (not two or u.second_file_name == second)
              and bytes(u.pack()) == want, "decode_of_response_with_action_independent_status", f"action={action}/s4={s4}", case, observed=repr(u)[:200])


def k_holder_reuse(ctx, seed):
    """One TlvHolder handed one TLV after the other (generic and concrete ones, of every type): every conversion answers for the
    TLV the holder holds at that moment."""
    import random
    from spacepackets.cfdp.exceptions import TlvTypeMissmatch
    X = C.lib()
    r = random.Random(f"tlvholder/{seed}")
    case = {"k": "holder_reuse", "seed": seed}
    ctx.case("holder_reuse", seed, sample=case)
    h = X.TlvHolder(None)
    trail = []
    for step in range(r.randrange(2, 7)):
        name = r.choice(CONCRETE)
        p = {"entity_id": {"id": rand_bytes(r, r.choice(C.WIDTHS)).hex()}, "flow_label": {"label": rand_bytes(r, r.randrange(0, 9)).hex()}, "msg_to_user": {"msg": rand_bytes(r, r.randrange(0, 9)).hex()},
             "fault_handler": {"cond": r.choice(C.CONDS), "handler": r.choice((1, 2, 3, 4))},
             "fs_request": {"action": 1, "first": r.choice(NAME_POOL[:5]), "second": ""}, "fs_response": {"action": 1, "status": 0x10, "first": r.choice(NAME_POOL[:5]), "second": "", "msg": rand_bytes(r, 3).hex()}}[name]
        o, want = make(name, p)
        generic = r.random() < 0.7
        h.tlv = X.CfdpTlv.unpack(want) if generic else o
        trail.append(f"{name}:{'generic' if generic else 'concrete'}")
        for target in CONCRETE:
            ok, res = attempt(getattr(h, HOLDER[target]))
            ctx.ev("holder.reuse")
            if target == name:
                if not ok or read(name, res) != p or bytes(res.pack()) != want:
                    return ctx.fail("holder.reuse", "conversion_does_not_answer_for_the_tlv_held_now", f"{name}/{'generic' if generic else 'concrete'}", dict(case, trail=trail),
                                    observed=repr(res)[:200], expected=p)
            elif ok:
                return ctx.fail("holder.reuse", "foreign_type_accepted_by_a_reused_holder", f"{target}<-{name}", dict(case, trail=trail), observed=repr(res)[:200])
            elif not isinstance(res, (TlvTypeMissmatch, TypeError)):
                return ctx.fail("holder.reuse", "wrong_error", f"{target}<-{name}/{type(res).__name__}", dict(case, trail=trail), error=repr(res))
        if generic and r.random() < 0.5:
            # the held generic TLV is given another type through its public setter: the conversion that worked a moment ago is a
            # conversion of a foreign TLV now
            t2 = r.choice([t for t in R.TLV_TYPES if t != TYPE_OF[name]])
            h.tlv.tlv_type = X.TlvType(t2)
            trail.append(f"retyped:{name}->{t2}")
            ok, res = attempt(getattr(h, HOLDER[name]))
            ctx.ev("holder.reuse")
            if ok:
                return ctx.fail("holder.reuse", "foreign_type_accepted_by_a_reused_holder", f"{name}<-retyped", dict(case, trail=trail), observed=repr(res)[:200])
            if not isinstance(res, (TlvTypeMissmatch, TypeError)):
                return ctx.fail("holder.reuse", "wrong_error", f"{name}<-retyped/{type(res).__name__}", dict(case, trail=trail), error=repr(res))


KINDS = {"generic_status": k_generic_status, "holder_reuse": k_holder_reuse, "defaults": k_defaults, "tlv": k_tlv, "lv": k_lv, "refuse": k_refuse, "concrete": k_concrete, "type_safety": k_type_safety, "status_maps": k_status_maps}
NAME_POOL = ["", "a", "/tmp/test.txt", "dir/子/ファイル.bin", "é" * 30, "n" * 100]


def selftest(ctx):
    n = 0
    for _ in range(300):
        v = ctx.rng.randbytes(ctx.rng.randrange(0, 256))
        t = ctx.rng.choice(R.TLV_TYPES)
        assert R.decode_tlv(R.tlv(t, v) + b"zz") == (t, v, len(v) + 2)
        assert R.decode_lv(R.lv(v) + b"zz") == (v, len(v) + 1)
        n += 2
    assert R.tlv(6, bytes([0, 1])).hex() == "06020001"
    ctx.selftest["ref.cfdp lv/tlv round trip"] = n


def run(ctx):
    from spverif.ref import enums as _enums
    if ctx.shard[0] == 0:
        _enums.check(ctx, "code_tables", ['spacepackets.cfdp.tlv.defs.TlvType', 'spacepackets.cfdp.tlv.defs.FilestoreActionCode', 'spacepackets.cfdp.tlv.defs.FilestoreResponseStatusCode', 'spacepackets.cfdp.defs.FaultHandlerCode', 'spacepackets.cfdp.defs.ConditionCode'])
    from spverif.san import scribble
    scribble.install()
    r = ctx.rng
    X = C.lib()
    i = 0
    for t in R.TLV_TYPES:
        for n in range(256):
            i += 1
            if ctx.mine(i):
                k_tlv(ctx, t, rand_bytes(r, n).hex(), suffix=rand_bytes(r, r.choice((0, 0, 1, 5))).hex())
    ctx.exhaustive.append("6 TLV types x all value lengths 0..255")
    for n in range(256):
        k_lv(ctx, rand_bytes(r, n).hex(), suffix=rand_bytes(r, r.choice((0, 1, 5))).hex())
    ctx.exhaustive.append("all LV value lengths 0..255")
    for n in (256, 300, 1000):
        for t in R.TLV_TYPES:
            k_refuse(ctx, "tlv", t, n)
        for what in ("lv", "msg_to_user", "flow_label", "entity_id", "fs_request", "fs_response"):
            k_refuse(ctx, what, 0, n)
    for n in (256, 257, 300):
        for what in ("fs_response_msg", "fs_response_second", "fs_request_second"):
            k_refuse(ctx, what, 0, n)
    # filestore requests / responses whose value is as long as a TLV allows (255 octets), and one / two octets less
    for total in (255, 254, 253):
        for a in (1, 2):
            two = a in R.TWO_NAME_ACTIONS
            n1 = r.randrange(1, 100)
            n2 = r.randrange(1, 100) if two else 0
            rest = total - 1 - (1 + n1) - ((1 + n2) if two else 0)
            k_concrete(ctx, "fs_request", {"action": a, "first": "f" * (n1 + rest), "second": "s" * n2})
            st = C.status_codes_for(a)[0]
            for split in ("msg", "name"):
                nm = rest - 1 if split == "msg" else r.randrange(0, 20)
                k_concrete(ctx, "fs_response", {"action": a, "status": st, "first": "f" * (n1 + (0 if split == "msg" else rest - 1 - nm)), "second": "s" * n2,
                                                "msg": rand_bytes(r, nm).hex()})
            ctx.table("value_len_limit", f"{total}/{a}")
    # concrete TLVs
    for w in C.WIDTHS:
        for _ in range(4):
            k_concrete(ctx, "entity_id", {"id": rand_bytes(r, w).hex()}, suffix=rand_bytes(r, r.choice((0, 3))).hex())
    for n in (0, 1, 2, 3, 17, 254, 255):
        k_concrete(ctx, "flow_label", {"label": rand_bytes(r, n).hex()})
        k_concrete(ctx, "msg_to_user", {"msg": rand_bytes(r, n).hex()}, suffix="0102")
    for cond in C.CONDS:
        for handler in (1, 2, 3, 4):
            k_concrete(ctx, "fault_handler", {"cond": cond, "handler": handler}, suffix="ff" if cond & 1 else "")
    actions = [int(a) for a in X.FilestoreActionCode]
    for a in actions:
        for first in NAME_POOL:
            second = r.choice(NAME_POOL[:5]) if a in R.TWO_NAME_ACTIONS else ""
            k_concrete(ctx, "fs_request", {"action": a, "first": first, "second": second})
        for st in C.status_codes_for(a):
            for first in NAME_POOL[:5]:
                for msg in ("", rand_bytes(r, r.randrange(1, 30)).hex()):
                    second = r.choice(NAME_POOL[:5]) if a in R.TWO_NAME_ACTIONS else ""
                    k_concrete(ctx, "fs_response", {"action": a, "status": st, "first": first, "second": second, "msg": msg},
                               suffix=rand_bytes(r, r.choice((0, 2))).hex())
        for s4 in range(16):
            k_status_maps(ctx, a, s4)
    # text hazards (byte-order mark, NUL, leading/trailing white space, decomposed accents, 'cfdp', ...) as first and as second name
    from spverif.core.util import HAZARD_NAMES
    for hz in HAZARD_NAMES:
        for a in (0, 1, 2, 3, 4):          # create, delete, rename, append, replace
            two = a in R.TWO_NAME_ACTIONS
            k_concrete(ctx, "fs_request", {"action": a, "first": hz, "second": r.choice(HAZARD_NAMES) if two else ""})
            st = C.status_codes_for(a)[0]
            k_concrete(ctx, "fs_response", {"action": a, "status": st, "first": "plain.txt" if two else hz, "second": hz if two else "", "msg": "00ff"})
            ctx.table("hazard_names", "used")
    ctx.exhaustive.append("every filestore action code x every status code defined for it; all 13 condition codes x 4 handler codes")
    for _ in range(ctx.n(1500, 150_000)):
        name = r.choice(CONCRETE)
        if name == "entity_id":
            p = {"id": rand_bytes(r, r.choice(C.WIDTHS)).hex()}
        elif name == "flow_label":
            p = {"label": rand_bytes(r, r.randrange(0, 256)).hex()}
        elif name == "msg_to_user":
            p = {"msg": rand_bytes(r, r.randrange(0, 256)).hex()}
        elif name == "fault_handler":
            p = {"cond": r.choice(C.CONDS), "handler": r.choice((1, 2, 3, 4))}
        elif name == "fs_request":
            a = r.choice(actions)
            p = {"action": a, "first": rand_name(r, 100), "second": rand_name(r, 100) if a in R.TWO_NAME_ACTIONS else ""}
        else:
            p = C.rand_response(r)
        k_concrete(ctx, name, p, suffix=rand_bytes(r, r.choice((0, 0, 1, 4))).hex())
    for a in actions:
        for s4 in (0, 15):
            for first in NAME_POOL[1:4]:
                k_generic_status(ctx, a, s4, first, r.choice(NAME_POOL[1:5]))
    for j in range(ctx.n(400, 40_000)):
        k_holder_reuse(ctx, ctx.seed * 1_000_003 + ctx.shard[0] * 100_003 + j)
    # type safety matrix: 6 classes x 5 foreign types x 4 routes
    for target in CONCRETE:
        for ft in R.TLV_TYPES:
            if ft != TYPE_OF[target]:
                for route in ("unpack", "from_tlv", "holder_generic", "holder_concrete"):
                    for variant in range(N_FOREIGN_VARIANTS):
                        k_type_safety(ctx, target, ft, route, variant)
    ctx.exhaustive.append("6 concrete classes x 5 foreign TLV types x 4 routes (unpack, from_tlv, holder over generic TLV, holder over concrete object)")


def conclude(ctx):
    ctx.require(ctx.extra.get("hostile_caller_scribbled_pack_results", 0) > 0, "hostile-caller sanitizer scribbled no pack() result")
    ctx.require(len(ctx.tables.get("tlv_type_x_len", {})) == 6 * 256, "TLV type x length table incomplete")
    ctx.require(len(ctx.tables.get("lv_len", {})) == 256, "LV length table incomplete")
    ctx.require(len(ctx.tables.get("type_safety_matrix", {})) == 6 * 5 * 4, "type safety matrix incomplete")
    ctx.require(len(ctx.tables.get("cond_x_handler", {})) == 13 * 4, "condition x handler table incomplete")
    for name in CONCRETE:
        ctx.require(ctx.classes.get(f"concrete/{name}", 0) > 0, f"class concrete/{name} empty")
    for m in ("tlv.pack", "tlv.unpack", "tlv.len", "lv.pack", "lv.unpack", "concrete.pack", "concrete.unpack", "concrete.len", "concrete.decoded_objects_independent", "concrete.consumes_declared_length", "concrete.defaults", "type_safety",
              "long_value_refused", "status_maps"):
        ctx.require(ctx.monitors.get(m, {}).get("evaluations", 0) > 0, f"monitor {m} never evaluated")
