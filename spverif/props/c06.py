"""C06 - the seven CFDP file-directive PDUs: exact encoding, round trip, no silent truncation."""
from __future__ import annotations

from spverif.core.util import attempt, exc_sig, rand_uint, hist_len, rand_bytes
from spverif.props import _views as V
from spverif.ref import cfdp as R
from . import _cfdp as C

SCRIBBLE = True
ID = "C06"
LEVEL = "exploration"
SHARDS = {"quick": 1, "thorough": 16}
RULE = ("cases = (directive kind, header configuration, parameter set); all 128 header configurations (CRC x large-file x 16 "
        "width combinations x transmission mode) per kind, every condition code / delivery code / file status / checksum type / "
        "transaction status / acked directive / response-required value, file sizes and offsets from boundary pools over the 32/64 "
        "bit range, names (empty, ASCII, multi-octet UTF-8, long), 0-4 option TLVs, 0-3 filestore responses, fault locations of "
        "width 1/2/4/8, 0-64 segment requests; non-trivial = not (default configuration with all-zero numeric parameters); "
        "distinct = distinct (kind, configuration, canonical parameter JSON)")
TRUSTED = ["CPython 3.12", "spverif.ref.cfdp (encoders and an independent decoder)", "spverif.ref.crc"]
ASSUMPTIONS = [
    "oracle = independent model of CCSDS 727.0-B-5 5.2 (spverif/ref/cfdp.py); valid parameter set = fault location only with an "
    "error condition code, second file name only for the two-name filestore actions, TLV values <= 255 octets",
    "segmentation control is 0 for file directives (always 0 per the standard); it is varied in C05/C07",
]
import json


ISO = C.Isolation()


SUCCESS = {"cond": 0, "delivery": 0, "status": 2, "responses": [], "fault_id": None}


def _trivial(cfg, p):
    nums = [v for v in p.values() if isinstance(v, int)]
    return cfg["crc"] == 0 and cfg["large"] == 0 and cfg["idw"] == 1 and cfg["seqw"] == 1 and not any(nums)


def build_via_setters(kind, cfg, p, seed):
    """Reach (cfg, p) through the documented setters, starting from an object built with other values."""
    import random
    X = C.lib()
    r = random.Random(seed)
    d = X.defs
    q = json.loads(json.dumps(p))
    c0 = dict(cfg)
    steps = []
    if kind == "eof":
        q["fault_id"] = r.choice((None, "01", "0102030405060708"))
        steps = [("fault_location", lambda o: setattr(o, "fault_location", None if p["fault_id"] is None else X.EntityIdTlv(bytes.fromhex(p["fault_id"]))))]
    elif kind == "finished":
        q["cond"] = r.choice(C.CONDS)
        q["fault_id"] = r.choice((None, "0a0b"))
        q["responses"] = [C.rand_response(r) for _ in range(r.choice((0, 1, 2)))]
        steps = [("condition_code", lambda o: setattr(o, "condition_code", d.ConditionCode(p["cond"]))),
                 ("fault_location", lambda o: setattr(o, "fault_location", None if p["fault_id"] is None else X.EntityIdTlv(bytes.fromhex(p["fault_id"])))),
                 ("file_store_responses", lambda o: setattr(o, "file_store_responses", [C.mk_response(x) for x in p["responses"]]))]
    elif kind == "metadata":
        q["src_name"], q["dst_name"] = r.choice((None, "x", "yy" * 40)), r.choice((None, "z", "w" * 100))
        q["options"] = r.choice((None, [], [[2, "0102", "generic"]]))
        steps = [("source_file_name", lambda o: setattr(o, "source_file_name", p["src_name"])), ("dest_file_name", lambda o: setattr(o, "dest_file_name", p["dst_name"])),
                 ("options", lambda o: setattr(o, "options", None if p["options"] is None else [C.mk_option(x) for x in p["options"]]))]
    elif kind == "nak":
        q["segments"] = r.choice((None, [], [[1, 2]], [[1, 2], [3, 4], [5, 6]]))
        fits32 = max([p["start"], p["end"]] + [v for s_ in (p["segments"] or []) for v in s_]) < 2 ** 32
        if fits32:
            c0["large"] = r.getrandbits(1)
        steps = [("segment_requests", lambda o: setattr(o, "segment_requests", None if p["segments"] is None else [tuple(x) for x in p["segments"]])),
                 ("file_flag", lambda o: setattr(o, "file_flag", d.LargeFileFlag(cfg["large"])))]
    elif kind == "keep_alive":
        if p["progress"] < 2 ** 32:
            c0["large"] = r.getrandbits(1)
        steps = [("file_flag", lambda o: setattr(o, "file_flag", d.LargeFileFlag(cfg["large"])))]
    if kind == "finished" and (p["delivery"], p["status"]) == (0, 2):
        # the ready-made "everything went well" PDU as the starting point (delivery code and file status have no setters)
        obj = X.FinishedPdu.success_pdu(C.lib_cfg(c0, 1)) if r.random() < 0.5 else X.FinishedPdu(C.lib_cfg(c0, 1), X.FinishedParams.success_params())
    else:
        obj = C.build(kind, c0, q)
    if r.random() < 0.5:
        obj.pack()
    r.shuffle(steps)
    for _, fn in steps:
        fn(obj)
        if r.random() < 0.3:
            obj.pack()
    return obj, [n for n, _ in steps]


def k_pdu(ctx, kind, cfg, p, model_fed=False, via="ctor", seed=0):
    X = C.lib()
    case = {"k": "pdu", "kind": kind, "cfg": cfg, "p": p, "model_fed": model_fed, "via": via, "seed": seed}
    key = (kind, tuple(sorted(cfg.items())), json.dumps(p, sort_keys=True), via, seed)
    ctx.case(f"{kind}/{C.cfg_class(cfg)}" + ("" if via == "ctor" else "/via_setters"), key, nontrivial=not _trivial(cfg, p), sample=case)
    ctx.table("kind_x_widths", f"{kind}/idw={cfg['idw']}/seqw={cfg['seqw']}")
    _enum_tables(ctx, kind, p)
    want = C.ref_octets(kind, cfg, p)
    feat = f"{kind}/{C.cfg_class(cfg)}"
    if via == "setters":
        ok, built = attempt(build_via_setters, kind, cfg, p, seed)
        pdu = built[0] if ok else built
        if ok:
            feat += "/after_setters"
            case["setter_order"] = built[1]
    else:
        ok, pdu = attempt(C.build, kind, cfg, p)
    if not ctx.check("pdu.construct", ok, "raised", f"{kind}/" + (exc_sig(pdu) if not ok else ""), case, error=repr(pdu)):
        return
    okb, before = attempt(lambda: (pdu.packet_len, pdu.pdu_header.pdu_data_field_len))           # read before pack(): setters keep them right on their own
    ok, raw = attempt(pdu.pack)
    if not ctx.check("pdu.pack", ok, "raised", f"{kind}/" + (exc_sig(raw) if not ok else ""), case, error=repr(raw)):
        return
    raw = bytes(raw)
    ctx.check("pdu.len", okb and before == (len(want), len(want) - R.header_len(cfg["idw"], cfg["seqw"])), "length_reported_before_packing", feat, case, observed=repr(before), expected=len(want))
    if not ctx.check("pdu.pack", raw == want, "octets", f"{feat}/{_where(kind, cfg, p, raw, want)}", case,
                     expected=want[:96], observed=raw[:96]):
        return
    hl = R.header_len(cfg["idw"], cfg["seqw"])
    ctx.check("pdu.len", pdu.packet_len == len(want), "packet_len", feat, case, observed=pdu.packet_len, expected=len(want))
    ctx.check("pdu.len", pdu.pdu_header.pdu_data_field_len == len(want) - hl, "data_field_len", feat, case)
    ctx.check("pdu.len", int(pdu.directive_type) == C.DIRECTIVE_CODE[kind] and int(pdu.pdu_type) == 0, "directive_type", kind, case)
    src = want if model_fed else raw
    cls = X.CLS[kind]
    ok, u = attempt(cls.unpack, src)
    if not ctx.check("pdu.unpack", ok, "raised", f"{feat}/" + (exc_sig(u) if not ok else ""), case, error=repr(u)):
        return
    ctx.check("pdu.unpack", type(u) is cls, "class", kind, case, observed=type(u).__name__)
    got = C.get_params(kind, u)
    exp = C.norm_params(kind, C.ref_params(kind, R.decode_pdu(want)))
    if not ctx.check("pdu.unpack", C.norm_params(kind, got) == exp, "param", f"{feat}/{C.diff_keys(C.norm_params(kind, got), exp)}", case,
                     expected=exp, observed=got):
        return
    hgot = C.hdr_fields(u.pdu_header)
    hexp = dict(R.decode_header(want), dst_w=cfg["idw"])
    if not ctx.check("pdu.unpack", hgot == hexp, "header_field", f"{kind}/{C.diff_keys(hgot, hexp)}", case, expected=hexp, observed=hgot):
        return
    ok1, e1 = attempt(lambda: u == pdu)
    ok2, e2 = attempt(lambda: pdu == u)
    ctx.check("pdu.roundtrip", ok1 and ok2 and e1 is True and e2 is True, "eq", feat, case, observed=[repr(e1), repr(e2)])
    ctx.check("pdu.roundtrip", u.packet_len == len(want), "packet_len", feat, case, observed=u.packet_len, expected=len(want))
    ok, rp = attempt(u.pack)
    ctx.check("pdu.roundtrip", ok and bytes(rp) == want, "repack", feat, case, observed=bytes(rp)[:96] if ok else repr(rp))
    # the generic entry point finds the same PDU (the directive octet's position depends on the id / sequence-number widths)
    ok, g = attempt(X.PduFactory.from_raw, src)
    ctx.check("pdu.unpack", ok and type(g) is cls and C.norm_params(kind, C.get_params(kind, g)) == exp and bytes(g.pack()) == want, "generic_decode_differs",
              f"{kind}/idw={cfg['idw']}/seqw={cfg['seqw']}", case, observed=repr(g)[:200])
    V.pdu_views(ctx, "pdu.delegated_views", pdu, want, hexp, case, f"{cls.__name__}/constructed")
    for obj in (pdu, u):
        extra = []
        if kind == "finished":
            fp = obj.finished_params
            extra = [(int(fp.condition_code), int(fp.delivery_code), int(fp.file_status)) == (p["cond"], p["delivery"], p["status"])]
            # the two length views of the Finished PDU: fault location TLV (0 when there is none) and the response TLVs together;
            # with the status octet they make up the parameter field
            fid = exp.get("fault_id")
            extra.append(obj.fault_location_len == (0 if fid is None else 2 + len(fid) // 2))
            extra.append(1 + obj.fault_location_len + obj.file_store_responses_len == len(want) - hl - 1 - (2 if cfg["crc"] else 0))
        if hasattr(obj, "directive_param_field_len"):
            extra.append(obj.directive_param_field_len == len(want) - hl - 1)      # documented: the data field without the directive code octet
        if extra:
            ctx.check("pdu.delegated_views", all(extra), "parameter_view_differs", kind, case, views=extra)
    V.pdu_views(ctx, "pdu.delegated_views", u, want, hexp, case, f"{cls.__name__}/unpacked")
    if kind == "finished":
        # the alternative constructors give a plain success PDU, whatever was done to earlier ones
        for route, mk in (("success_pdu", lambda: X.FinishedPdu.success_pdu(C.lib_cfg(cfg, 1))), ("success_params", lambda: X.FinishedPdu(C.lib_cfg(cfg, 1), X.FinishedParams.success_params()))):
            ok, sp_ = attempt(mk)
            ok2, raw_s = attempt(lambda: bytes(sp_.pack())) if ok else (False, sp_)
            want_s = C.ref_octets("finished", cfg, SUCCESS)
            ctx.check("pdu.alt_constructor", ok and ok2 and raw_s == want_s and sp_.packet_len == len(want_s) and sp_.pdu_header.pdu_data_field_len == len(want_s) - hl,
                      "success_pdu_is_not_a_plain_success_pdu", route, case, expected=want_s, observed=raw_s if ok2 else repr(raw_s))
    ISO.remember(u, want, kind, view=lambda u=u: (C.get_params(kind, u), C.hdr_fields(u.pdu_header), u.packet_len))
    ISO.recheck(ctx, "pdu.decoded_objects_independent", case)


def k_conf_reuse(ctx, kind, seed):
    """One caller-owned PduConfig used for several transactions: its id / sequence-number fields are updated in place
    (field.value = n) and its flags reassigned between PDUs; every PDU built from it packs the values it had at that moment."""
    import random
    X = C.lib()
    d = X.defs
    r = random.Random(f"confreuse/{kind}/{seed}")
    cfg = C.rand_cfg(r)
    conf = C.lib_cfg(cfg, direction=r.getrandbits(1))
    case = {"k": "conf_reuse", "kind": kind, "seed": seed}
    ctx.case(f"conf_reuse/{kind}", (kind, seed), sample=case)
    trail = []
    kept = []                # PDUs built in earlier rounds: the caller goes on using its configuration object, they keep what they were built with
    replace = r.random() < 0.5           # ids given to the configuration as new field objects (True) or written into the existing ones (False)
    for rnd in range(hist_len(r, 2, 5)):
        if rnd:
            how = r.choice(("int", "bytes", "longer_bytes"))
            conv = (lambda v, w: v) if how == "int" else (lambda v, w: v.to_bytes(w, "big")) if how == "bytes" else (lambda v, w: v.to_bytes(w, "big") + b"\xa5\x5a\x00")
            for name, attr, w in (("src", "source_entity_id", cfg["idw"]), ("dst", "dest_entity_id", cfg["idw"]), ("seq", "transaction_seq_num", cfg["seqw"])):
                if r.random() < 0.7:
                    cfg[name] = rand_uint(r, 8 * w)
                    if replace:
                        setattr(conf, attr, X.ByteFieldGenerator.from_int(w, cfg[name]))
                        trail.append(f"{name}=new_field")
                    else:
                        getattr(conf, attr).value = conv(cfg[name], w)
                        trail.append(f"{name}.value={how}")
            if r.random() < 0.5:
                cfg["crc"] = r.getrandbits(1)
                conf.crc_flag = d.CrcFlag(cfg["crc"])
                trail.append("crc_flag")
            if r.random() < 0.5:
                cfg["mode"] = r.getrandbits(1)
                conf.trans_mode = d.TransmissionMode(cfg["mode"])
                trail.append("trans_mode")
        p = C.rand_params(r, kind, cfg, rich=False)
        want = C.ref_octets(kind, cfg, p)
        built = []
        ok, raw = attempt(lambda: (built.append(_build_with_conf(kind, conf, p)), bytes(built[0].pack()))[1])
        if replace:
            # (ids written *into* the shared field objects reach earlier PDUs by design of the shallow configuration copy; replaced
            #  fields and re-assigned flags do not)
            for rnd0, pdu0, want0 in kept:
                ok0, raw0 = attempt(lambda: bytes(pdu0.pack()))
                if not ctx.check("pdu.conf_reuse", ok0 and raw0 == want0, "pdu_built_earlier_follows_later_changes_of_the_callers_config", f"{kind}/" + (_where(kind, cfg, p, raw0, want0) if ok0 and len(raw0) == len(want0) else "len_or_raised"),
                                 dict(case, round=rnd, built_in_round=rnd0), trail=trail, expected=want0[:64], observed=raw0[:64] if ok0 else repr(raw0)):
                    return
            if ok and built:
                kept.append((rnd, built[0], want))
        if not ctx.check("pdu.conf_reuse", ok and raw == want, "octets_of_pdu_built_from_updated_config", f"{kind}/" + (_where(kind, cfg, p, raw, want) if ok else "raised"),
                         dict(case, round=rnd), trail=trail, expected=want[:64], observed=raw[:64] if ok else repr(raw)):
            return
        ok, u = attempt(X.CLS[kind].unpack, raw)
        hexp = dict(R.decode_header(want), dst_w=cfg["idw"])
        if not ctx.check("pdu.conf_reuse", ok and C.hdr_fields(u.pdu_header) == hexp, "decoded_header_of_pdu_built_from_updated_config", kind, dict(case, round=rnd), trail=trail):
            return


def _build_with_conf(kind, conf, p):
    from . import c11
    return c11._build_with_inputs(kind, conf, None, p)[0]


def _enum_tables(ctx, kind, p):
    for k in ("cond", "delivery", "status", "cksum_type", "tstatus", "acked", "rr", "closure"):
        if k in p:
            ctx.table(f"enum/{kind}.{k}", p[k])
    for k in ("size", "progress", "start", "end"):
        if k in p and p[k]:
            ctx.table("nonzero_numeric", f"{kind}.{k}")
    if kind == "finished":
        for r in p["responses"]:
            ctx.table("enum/response.status", r["status"])
        ctx.table("finished.n_responses", len(p["responses"]))
    if kind == "metadata":
        ctx.table("metadata.n_options", len(p["options"] or []))
    if kind == "nak":
        ctx.table("nak.n_segments", min(len(p["segments"] or []), 64))
    if kind in ("eof", "finished") and p["fault_id"] is not None:
        ctx.table(f"{kind}.fault_id_width", len(p["fault_id"]) // 2)


def _where(kind, cfg, p, a, b):
    if len(a) != len(b):
        return f"len{len(a) - len(b):+d}"
    for i, (x, y) in enumerate(zip(a, b)):
        if x != y:
            return C.region_of(kind, cfg, p, b, i)
    return ""


def k_oversize(ctx, kind, cfg, p):
    """Sizes/offsets that do not fit the selected width: pack must fail, never truncate."""
    case = {"k": "oversize", "kind": kind, "cfg": cfg, "p": p}
    ctx.case(f"oversize/{kind}/large={cfg['large']}", (kind, json.dumps(p, sort_keys=True), cfg["large"]), sample=case)
    ok, res = attempt(lambda: bytes(C.build(kind, cfg, p).pack()))
    ctx.ev("pdu.no_truncation")
    if ok:
        ctx.fail("pdu.no_truncation", "oversize_value_packed", f"{kind}/large={cfg['large']}", case, observed=res[:64])
    else:
        ctx.table("oversize_error_class", f"{kind}:{type(res).__name__}")


KINDS = {"conf_reuse": k_conf_reuse, "pdu": k_pdu, "oversize": k_oversize}


def selftest(ctx):
    n = 0
    r = ctx.rng
    for kind in C.DIRECTIVE_KINDS:
        for _ in range(150):
            cfg = C.rand_cfg(r)
            p = C.rand_params(r, kind, cfg)
            raw = C.ref_octets(kind, cfg, p)
            d = R.decode_pdu(raw + b"\x00\x01")
            assert d["kind"] == kind and d["total"] == len(raw)
            assert C.norm_params(kind, C.ref_params(kind, d)) == C.norm_params(kind, p), (kind, p, C.ref_params(kind, d))
            n += 1
    # docs/examples.rst: EOF PDU for an empty file
    ctx.selftest["ref.cfdp encode/decode round trip over 7 directive kinds"] = n


def run(ctx):
    from spverif.ref import enums as _enums
    if ctx.shard[0] == 0:
        _enums.check(ctx, "code_tables", ['spacepackets.cfdp.defs', 'spacepackets.cfdp.pdu.ack', 'spacepackets.cfdp.pdu.file_directive', 'spacepackets.cfdp.pdu.prompt'])
    from spverif.san import scribble
    scribble.install()
    r = ctx.rng
    i = 0
    reps = 3 if ctx.quick else 8
    for kind in C.DIRECTIVE_KINDS:
        for cfg in C.all_cfgs(r):
            i += 1
            if not ctx.mine(i):
                continue
            for _ in range(reps):
                k_pdu(ctx, kind, cfg, C.rand_params(r, kind, cfg), model_fed=bool(r.getrandbits(1)))
    ctx.exhaustive.append("7 directive kinds x all 128 header configurations (crc x large x 16 widths x mode)")
    # every enum value per field, in a random configuration each
    for cond in C.CONDS:
        for kind in ("eof", "finished", "ack"):
            cfg = C.rand_cfg(r)
            p = C.rand_params(r, kind, cfg)
            p["cond"] = cond
            if kind != "ack" and cond in C.NO_FAULT_LOC_CONDS:
                p["fault_id"] = None
            k_pdu(ctx, kind, cfg, p)
    for kind, field, vals in (("finished", "delivery", (0, 1)), ("finished", "status", (0, 1, 2, 3)), ("metadata", "cksum_type", C.CKSUMS),
                              ("ack", "tstatus", (0, 1, 2, 3)), ("ack", "acked", (4, 5)), ("prompt", "rr", (0, 1)), ("metadata", "closure", (0, 1))):
        for v in vals:
            for crc in (0, 1):
                cfg = C.rand_cfg(r, crc=crc)
                p = C.rand_params(r, kind, cfg)
                p[field] = v
                k_pdu(ctx, kind, cfg, p, model_fed=bool(crc))
    # numeric pools
    for large in (0, 1):
        for crc in (0, 1):
            for v in C.fss_pool(large):
                cfg = C.rand_cfg(r, crc=crc, large=large)
                k_pdu(ctx, "eof", cfg, {"cond": 0, "checksum": "01020304", "size": v, "fault_id": None})
                k_pdu(ctx, "keep_alive", cfg, {"progress": v})
                k_pdu(ctx, "metadata", cfg, {"closure": 1, "cksum_type": 3, "size": v, "src_name": "a", "dst_name": "b", "options": None})
                k_pdu(ctx, "nak", cfg, {"start": v, "end": v ^ 1, "segments": [[v, 0], [1, v]]})
    # all filestore response status codes
    X = C.lib()
    for a in [int(x) for x in X.FilestoreActionCode]:
        for st in C.status_codes_for(a):
            cfg = C.rand_cfg(r)
            p = {"cond": 4, "delivery": 1, "status": 1, "fault_id": "0102",
                 "responses": [{"action": a, "status": st, "first": "f1.txt", "second": "é2" if a in R.TWO_NAME_ACTIONS else "", "msg": "aabb"}]}
            k_pdu(ctx, "finished", cfg, p, model_fed=bool(st & 1))
    # random
    for _ in range(ctx.n(8000, 600_000)):
        kind = r.choice(C.DIRECTIVE_KINDS)
        cfg = C.rand_cfg(r)
        k_pdu(ctx, kind, cfg, C.rand_params(r, kind, cfg), model_fed=r.random() < 0.5)
    # the same target parameter sets reached through the documented setters (stale cached lengths show here)
    for j in range(ctx.n(4000, 300_000)):
        kind = r.choice(("eof", "finished", "metadata", "nak", "keep_alive"))
        cfg = C.rand_cfg(r)
        p = C.rand_params(r, kind, cfg)
        if kind == "finished" and r.random() < 0.3:
            p.update(delivery=0, status=2)
            ctx.table("setter_start", "finished/success_pdu")
        k_pdu(ctx, kind, cfg, p, via="setters", seed=ctx.seed * 1_000_003 + ctx.shard[0] * 100_003 + j)
    # PDUs with the CRC flag whose running CRC is exactly 0x0000 / 0xFFFF at the end of the header
    for target in (0x0000, 0xFFFF):
        for kind in C.DIRECTIVE_KINDS:
            cfg = C.rand_cfg(r, crc=1, seqw=r.choice((2, 4, 8)))
            for where in ("header", "whole"):
                got = C.craft_crc_boundary(kind, cfg, C.rand_params(r, kind, cfg, rich=False), where, target)
                if got is not None:
                    ctx.table("crc_register_at_boundary", f"{kind}/{where}/{target:04x}")
                    k_pdu(ctx, kind, got[0], got[1], model_fed=bool(target))
    # the largest PDUs a 16-bit data field length can describe: Metadata / Finished PDUs filled with options up to exactly 65535 octets
    # (and one, two less), NAK PDUs with as many segment requests as fit
    for crc in (0, 1):
        for large in (0, 1):
            cfg = C.rand_cfg(r, crc=crc, large=large)
            fss = 8 if large else 4
            for total in (65535, 65534, 65533):
                fixed = 1 + 1 + fss + 2 + 2 + 2 * crc                      # directive, flags, size, two 1-octet names, CRC
                rest, opts = total - fixed, []
                while rest >= 2:
                    n = min(255, rest - 2) if rest - 2 - min(255, rest - 2) != 1 else 254
                    opts.append([r.choice(C.METADATA_OPTION_TYPES), rand_bytes(r, n).hex(), "generic"])
                    rest -= 2 + n
                if rest == 0:
                    ctx.table("largest_pdu", f"metadata/{total}")
                    k_pdu(ctx, "metadata", cfg, {"closure": 1, "cksum_type": 0, "size": 1, "src_name": "a", "dst_name": "b", "options": opts}, model_fed=bool(crc))
                fixed = 1 + 1 + 2 * crc
                rest, resp = total - fixed, []
                while rest >= 5:
                    n = min(255, rest - 2) if rest - 2 - min(255, rest - 2) not in (1, 2, 3, 4) else 250
                    resp.append({"action": 1, "status": 0x10, "first": "n" * (n - 3), "second": "", "msg": ""})
                    rest -= 2 + n
                if rest == 0:
                    ctx.table("largest_pdu", f"finished/{total}")
                    k_pdu(ctx, "finished", cfg, {"cond": 0, "delivery": 0, "status": 2, "responses": resp, "fault_id": None}, model_fed=not crc)
            nmax = (65535 - 1 - 2 * fss - 2 * crc) // (2 * fss)
            for n in (nmax, nmax - 1):
                ctx.table("largest_pdu", f"nak/{n}")
                k_pdu(ctx, "nak", cfg, {"start": 0, "end": C.rand_fss(r, large), "segments": [[i * 10, i * 10 + 7] for i in range(n)]})
            k_oversize(ctx, "nak", cfg, {"start": 0, "end": 1, "segments": [[i, i + 1] for i in range(nmax + 1)]})
    # one caller-owned configuration re-used (and updated in place) for several PDUs
    for j in range(ctx.n(700, 50_000)):
        k_conf_reuse(ctx, C.DIRECTIVE_KINDS[j % 7], ctx.seed * 1_000_003 + ctx.shard[0] * 100_003 + j)
    # values that do not fit the selected width
    for large, bad in ((0, (2 ** 32, 2 ** 32 + 1, 2 ** 63, 2 ** 64 - 1, 2 ** 64)), (1, (2 ** 64, 2 ** 64 + 1, 2 ** 70))):
        for v in bad:
            for crc in (0, 1):
                cfg = C.rand_cfg(r, crc=crc, large=large)
                k_oversize(ctx, "eof", cfg, {"cond": 0, "checksum": "00000000", "size": v, "fault_id": None})
                k_oversize(ctx, "keep_alive", cfg, {"progress": v})
                k_oversize(ctx, "metadata", cfg, {"closure": 0, "cksum_type": 0, "size": v, "src_name": "a", "dst_name": "b", "options": None})
                k_oversize(ctx, "nak", cfg, {"start": v, "end": 0, "segments": None})
                k_oversize(ctx, "nak", cfg, {"start": 0, "end": v, "segments": None})
                k_oversize(ctx, "nak", cfg, {"start": 0, "end": 1, "segments": [[0, 1], [v, 2]]})
                k_oversize(ctx, "nak", cfg, {"start": 0, "end": 1, "segments": [[0, v]]})


def conclude(ctx):
    ctx.require(ctx.extra.get("hostile_caller_scribbled_pack_results", 0) > 0, "hostile-caller sanitizer scribbled no pack() result")
    for kind in C.DIRECTIVE_KINDS:
        for crc in (0, 1):
            for large in (0, 1):
                ctx.require(ctx.classes.get(f"{kind}/crc={crc}/large={large}", 0) > 0, f"cell {kind}/crc={crc}/large={large} empty")
        for idw in C.WIDTHS:
            for seqw in C.WIDTHS:
                ctx.require(ctx.tables.get("kind_x_widths", {}).get(f"{kind}/idw={idw}/seqw={seqw}", 0) > 0, f"cell {kind}/idw={idw}/seqw={seqw} empty")
    need = {"eof.cond": 13, "finished.cond": 13, "ack.cond": 13, "finished.delivery": 2, "finished.status": 4, "metadata.cksum_type": 5,
            "ack.tstatus": 4, "ack.acked": 2, "prompt.rr": 2, "metadata.closure": 2}
    for k, n in need.items():
        ctx.require(len(ctx.tables.get(f"enum/{k}", {})) == n, f"enum table {k} incomplete")
    for k in ("eof.size", "keep_alive.progress", "metadata.size", "nak.start", "nak.end"):
        ctx.require(ctx.tables.get("nonzero_numeric", {}).get(k, 0) > 0, f"no non-zero value for {k}")
    for m in ("pdu.pack", "pdu.unpack", "pdu.roundtrip", "pdu.len", "pdu.no_truncation"):
        ctx.require(ctx.monitors.get(m, {}).get("evaluations", 0) > 0, f"monitor {m} never evaluated")
