"""C10 - decoding arbitrary or truncated input fails only in documented ways (escape / prefix / loop monitors)."""
from __future__ import annotations

import collections
import random

from spverif.core.util import attempt, exc_sig, documented_errors, rand_bytes, tb_tail
from spverif.core import repo as repo_mod
from spverif.ref import cfdp as R
from spverif.ref import pus as P
from spverif.ref import ccsds as H
from spverif.ref import cds as T
from spverif.ref import uslp as U
from spverif.san.loopguard import LoopGuard, LoopBudgetExceeded
from . import _cfdp as C
from . import c08

THOROUGH_SCALE = 8
ID = "C10"
LEVEL = "fault_enumeration"
SHARDS = {"quick": 1, "thorough": 16}
RULE = ("cases = (decoder entry point, octet string): random strings of every length 0..64 with version/type-biased first "
        "octets; every strict prefix of valid packed units of every kind; single-octet substitutions at header/length/type "
        "offsets with {0,1,0x7f,0x80,0xff,orig+-1,random} (thorough: all 256 values); length-field edits with the buffer left, "
        "cut or padded; structure-aware cases (zero-length TLV values, LV longer than the rest, segment-metadata flag with an "
        "empty data field, tiny TFDFs); every decoder is also fed the units of the other kinds; each call runs under a "
        "backward-jump budget of 8*len+256; non-trivial = every case; distinct = distinct (decoder, octets)")
TRUSTED = ["CPython 3.12 sys.monitoring", "spverif.ref.* for building valid units"]
ASSUMPTIONS = [
    "documented error classes per DESIGN 4.5: ValueError and subclasses, InvalidTcCrc16, InvalidTmCrc16, InvalidCrc, UnsupportedCfdpVersion, TlvTypeMissmatch, Uslp*",
    "'never loops' is restated as bounded progress: at most 8*len(input)+256 backward jumps inside spacepackets per decoder call",
    "ReservedCfdpMessage.get_* accessors on malformed values are outside the listed decoders (informational in C18)",
]

GUARD = None


def guard():
    global GUARD
    if GUARD is None:
        GUARD = LoopGuard(repo_mod.REPO.rstrip("/") + "/spacepackets")
        GUARD.install()
    return GUARD


# ---------------------------------------------------------------- decoders
def decoders():
    X = C.lib()
    from spacepackets.ccsds import spacepacket as sp
    from spacepackets.ccsds.time import CdsShortTimestamp
    from spacepackets.ecss.tc import PusTc, PusTcDataFieldHeader
    from spacepackets.ecss.tm import PusTm, PusTmSecondaryHeader
    from spacepackets.ecss import check_pus_crc
    from spacepackets.ecss.pus_17_test import Service17Tm
    from spacepackets.ecss.pus_1_verification import Service1Tm, UnpackParams, FailureNotice
    from spacepackets.ecss.req_id import RequestId
    from spacepackets.ecss.fields import PacketFieldEnum
    from spacepackets.cfdp.pdu.file_directive import FileDirectivePduBase
    from spacepackets.uslp.header import PrimaryHeader, TruncatedPrimaryHeader, determine_header_type
    from spacepackets.uslp import frame as uf
    D = collections.OrderedDict()
    D["SpacePacketHeader.unpack"] = sp.SpacePacketHeader.unpack
    D["get_apid_from_raw_space_packet"] = sp.get_apid_from_raw_space_packet
    ids = [sp.PacketId(sp.PacketType.TC, True, 0x11), sp.PacketId(sp.PacketType.TM, True, 0x22), sp.PacketId(sp.PacketType.TM, False, 0)]
    D["parse_space_packets"] = lambda b: sp.parse_space_packets(collections.deque([bytearray(b)]), ids)
    D["PusTc.unpack"] = PusTc.unpack
    D["PusTcDataFieldHeader.unpack"] = PusTcDataFieldHeader.unpack
    for n in (0, 7, 16):
        D[f"PusTm.unpack[ts={n}]"] = (lambda n: lambda b: PusTm.unpack(b, n))(n)
        D[f"PusTmSecondaryHeader.unpack[ts={n}]"] = (lambda n: lambda b: PusTmSecondaryHeader.unpack(b, n))(n)
        D[f"Service17Tm.unpack[ts={n}]"] = (lambda n: lambda b: Service17Tm.unpack(b, n))(n)
    D["PusTm.service_from_bytes"] = lambda b: PusTm.service_from_bytes(bytearray(b))
    D["check_pus_crc"] = check_pus_crc
    for ts, sw, cw in ((0, 1, 1), (7, 2, 4), (0, 8, 8), (7, 1, 2)):
        D[f"Service1Tm.unpack[ts={ts},step={sw},code={cw}]"] = (lambda pp: lambda b: Service1Tm.unpack(b, pp))(UnpackParams(ts, sw, cw))
    D["CdsShortTimestamp.unpack"] = CdsShortTimestamp.unpack
    D["CdsShortTimestamp.unpack_from_raw"] = CdsShortTimestamp.unpack_from_raw
    D["CdsShortTimestamp.read_from_raw"] = lambda b: CdsShortTimestamp.empty().read_from_raw(b)
    D["RequestId.unpack"] = RequestId.unpack
    for pfc in (8, 16, 32, 64, 5, 12, 20, 28, 36, 60, 63):          # incl. codes that are accepted although not byte aligned
        D[f"PacketFieldEnum.unpack[pfc={pfc}]"] = (lambda pfc: lambda b: PacketFieldEnum.unpack(b, pfc))(pfc)
    for n in (1, 2, 4):
        D[f"FailureNotice.unpack[code={n}]"] = (lambda n: lambda b: FailureNotice.unpack(b, n))(n)
    D["PduHeader.unpack"] = X.PduHeader.unpack
    D["PduHeader.header_len_from_raw"] = X.PduHeader.header_len_from_raw
    D["FileDirectivePduBase.unpack"] = FileDirectivePduBase.unpack
    for kind in C.KINDS8:
        D[f"{X.CLS[kind].__name__}.unpack"] = X.CLS[kind].unpack
    D["PduFactory.from_raw"] = X.PduFactory.from_raw
    D["PduFactory.from_raw_to_holder"] = X.PduFactory.from_raw_to_holder
    D["PduFactory.pdu_type"] = X.PduFactory.pdu_type
    D["PduFactory.is_file_directive"] = X.PduFactory.is_file_directive
    D["PduFactory.pdu_directive_type"] = X.PduFactory.pdu_directive_type
    D["CfdpTlv.unpack"] = X.CfdpTlv.unpack
    D["CfdpLv.unpack"] = X.CfdpLv.unpack
    for name in c08.CONCRETE:
        cls = c08.cls_of(name)
        D[f"{cls.__name__}.unpack"] = cls.unpack
        D[f"{cls.__name__}.from_tlv"] = (lambda cls: lambda b: cls.from_tlv(X.CfdpTlv.unpack(b)))(cls)
        D[f"TlvHolder.{c08.HOLDER[name]}"] = (lambda name: lambda b: getattr(X.TlvHolder(X.CfdpTlv.unpack(b)), c08.HOLDER[name])())(name)
    D["PrimaryHeader.unpack"] = PrimaryHeader.unpack
    D["TruncatedPrimaryHeader.unpack"] = TruncatedPrimaryHeader.unpack
    D["determine_header_type"] = determine_header_type
    for trunc in (False, True):
        for ft in (None, uf.FrameType.FIXED, uf.FrameType.VARIABLE):
            for exact in (1, 3, 10):
                D[f"TransferFrameDataField.unpack[trunc={trunc},type={ft.name if ft else None},len={exact}]"] = \
                    (lambda t, f, e: lambda b: uf.TransferFrameDataField.unpack(b, t, e, f))(trunc, ft, exact)
    for pname, (ft, props) in frame_param_sets().items():
        D[f"TransferFrame.unpack[{pname}]"] = (lambda ft, props: lambda b: uf.TransferFrame.unpack(b, ft, props))(ft, props)
    return D


def frame_param_sets():
    from spacepackets.uslp import frame as uf
    return collections.OrderedDict([
        ("var", (uf.FrameType.VARIABLE, uf.VarFrameProperties(False, False, 12))),
        ("var_iz4_fecf2", (uf.FrameType.VARIABLE, uf.VarFrameProperties(True, True, 16, 4, 2))),
        ("fixed32", (uf.FrameType.FIXED, uf.FixedFrameProperties(32, False, False))),
        ("fixed40_iz4_fecf4", (uf.FrameType.FIXED, uf.FixedFrameProperties(40, True, True, 4, 4))),
    ])


_D = None


def dec():
    global _D
    if _D is None:
        _D = decoders()
    return _D


# ----------------------------------------------------------------- families
def families():
    """family -> (sample builder(rng) -> octets, [decoder names whose every strict prefix must be refused])"""
    F = collections.OrderedDict()
    F["sp_header"] = (lambda r: H.encode_header(r.getrandbits(3), r.getrandbits(1), r.getrandbits(1), r.getrandbits(11), r.getrandbits(2), r.getrandbits(14), r.getrandbits(16)),
                      ["SpacePacketHeader.unpack", "get_apid_from_raw_space_packet"])
    F["tc"] = (lambda r: P.tc(r.choice((0x11, r.getrandbits(11))), r.getrandbits(14), r.getrandbits(8), r.getrandbits(8), r.getrandbits(16), r.getrandbits(4), rand_bytes(r, r.randrange(0, 20))),
               ["PusTc.unpack"])
    for n in (0, 7, 16):
        F[f"tm{n}"] = ((lambda n: lambda r: P.tm(r.choice((0x22, r.getrandbits(11))), r.getrandbits(14), r.choice((17, r.getrandbits(8))), r.getrandbits(8), r.getrandbits(16),
                                                 r.getrandbits(16), r.getrandbits(4), rand_bytes(r, n), rand_bytes(r, r.randrange(0, 20))))(n),
                       [f"PusTm.unpack[ts={n}]", f"Service17Tm.unpack[ts={n}]"])
    for ts, sw, cw in ((0, 1, 1), (7, 2, 4), (0, 8, 8), (7, 1, 2)):
        def b(r, ts=ts, sw=sw, cw=cw):
            sub = r.randrange(1, 9)
            step = (sw, r.getrandbits(8 * sw)) if sub in (5, 6) else None
            code = (cw, r.getrandbits(8 * cw)) if sub % 2 == 0 else None
            rid = P.request_id(0, 1, 1, r.getrandbits(11), 3, r.getrandbits(14))
            return P.tm(r.getrandbits(11), r.getrandbits(14), 1, sub, 0, 0, 0, rand_bytes(r, ts), P.srv1_source_data(rid, step, code, rand_bytes(r, r.choice((0, 3))) if code else b""))
        F[f"srv1[{ts},{sw},{cw}]"] = (b, [f"Service1Tm.unpack[ts={ts},step={sw},code={cw}]"])
    def embed_crc(build, r):
        """A TC / TM whose data contain, at a random position, the CRC-16 of everything in front of it: the prefix ending there has
        a zero CRC residue although the length field promises more."""
        from spverif.ref.crc import crc16 as _crc
        n = r.randrange(4, 24)
        k = r.randrange(2, n + 1)                      # the embedded CRC occupies data[k-2:k]
        probe = build(bytes(n))
        start = len(probe) - 2 - n                     # offset of the data inside the packet
        data = bytearray(r.randbytes(n))
        first = build(bytes(data))
        data[k - 2:k] = _crc(first[:start + k - 2]).to_bytes(2, "big")
        out = build(bytes(data))
        assert _crc(out[:start + k]) == 0
        return out
    F["tc_embedded_crc"] = (lambda r: embed_crc(lambda d, a=r.getrandbits(11), c=r.getrandbits(14), sv=r.getrandbits(8), sb=r.getrandbits(8), si=r.getrandbits(16): P.tc(a, c, sv, sb, si, 0xF, d), r),
                            ["PusTc.unpack"])
    F["tm_embedded_crc"] = (lambda r: embed_crc(lambda d, a=r.getrandbits(11), c=r.getrandbits(14), sb=r.getrandbits(8), ts=r.randbytes(7): P.tm(a, c, 17, sb, 0, 0, 0, ts, d), r),
                            ["PusTm.unpack[ts=7]", "Service17Tm.unpack[ts=7]"])
    def crc_trailer(build, r):
        """A TC / TM whose CRC trailer is 0x0000, 0xFFFF, ends in a zero octet or starts with one (the last two data octets are
        chosen for it): a decoder that pads, strips or zero-extends must still refuse every strict prefix."""
        from spverif.ref.crc import crc16 as _crc, find16
        n = r.randrange(2, 16)
        data = bytearray(rand_bytes(r, n))
        target = r.choice((0x0000, 0xFFFF, r.getrandbits(8) << 8, r.getrandbits(8), 0x2020, 0x0001))
        probe = build(bytes(data))
        x = find16(probe[:-4], lambda x: x.to_bytes(2, "big"), target)
        data[-2:] = x.to_bytes(2, "big")
        out = build(bytes(data))
        assert out[-2:] == target.to_bytes(2, "big") and _crc(out) == 0
        return out
    F["tc_crc_trailer"] = (lambda r: crc_trailer(lambda d, a=r.getrandbits(11), c=r.getrandbits(14), sv=r.getrandbits(8), sb=r.getrandbits(8), si=r.getrandbits(16): P.tc(a, c, sv, sb, si, 0xF, d), r),
                           ["PusTc.unpack"])
    F["tm_crc_trailer"] = (lambda r: crc_trailer(lambda d, a=r.getrandbits(11), c=r.getrandbits(14), sb=r.getrandbits(8), ts=r.randbytes(7): P.tm(a, c, 17, sb, 0, 0, 0, ts, d), r),
                           ["PusTm.unpack[ts=7]", "Service17Tm.unpack[ts=7]"])
    F["tm0_crc_trailer"] = (lambda r: crc_trailer(lambda d, a=r.getrandbits(11), c=r.getrandbits(14), sb=r.getrandbits(8): P.tm(a, c, 17, sb, 0, 0, 0, b"", d), r),
                            ["PusTm.unpack[ts=0]", "Service17Tm.unpack[ts=0]"])

    def pdu_crc_trailer(r):
        kind = r.choice(C.KINDS8)
        cfg = C.rand_cfg(r, segctrl=(kind == "file_data"), crc=1, seqw=r.choice((2, 4, 8)))
        p = C.rand_params(r, kind, cfg, rich=False)
        if kind == "file_data":
            p["data"] = p["data"][:40]
        got = C.craft_crc_boundary(kind, cfg, p, "whole", r.choice((0x0000, 0xFFFF, r.getrandbits(8) << 8, r.getrandbits(8))))
        return C.ref_octets(kind, *got)
    F["pdu_crc_trailer"] = (pdu_crc_trailer, ["PduFactory.from_raw", "PduFactory.from_raw_to_holder"])
    F["cds"] = (lambda r: T.encode(r.getrandbits(16), r.randrange(86_400_000)), ["CdsShortTimestamp.unpack", "CdsShortTimestamp.unpack_from_raw", "CdsShortTimestamp.read_from_raw"])
    F["request_id"] = (lambda r: P.request_id(r.getrandbits(3), r.getrandbits(1), r.getrandbits(1), r.getrandbits(11), r.getrandbits(2), r.getrandbits(14)), ["RequestId.unpack"])
    for pfc in (8, 16, 32, 64):
        F[f"pfenum{pfc}"] = ((lambda pfc: lambda r: r.randbytes(pfc // 8))(pfc), [f"PacketFieldEnum.unpack[pfc={pfc}]"])

    def hdr(r):
        idw, seqw = r.choice(C.WIDTHS), r.choice(C.WIDTHS)
        return R.header(r.getrandbits(1), r.getrandbits(1), r.getrandbits(1), 0, r.getrandbits(1), r.getrandbits(16), r.getrandbits(1), r.getrandbits(1), idw, seqw,
                        r.getrandbits(8 * idw), r.getrandbits(8 * seqw), r.getrandbits(8 * idw))
    F["pdu_header"] = (hdr, ["PduHeader.unpack"])
    X = C.lib()
    for kind in C.KINDS8:
        for crc in (0, 1):
            def b(r, kind=kind, crc=crc):
                cfg = C.rand_cfg(r, segctrl=(kind == "file_data"), crc=crc)
                p = C.rand_params(r, kind, cfg, rich=r.random() < 0.6)
                if kind == "file_data":
                    p["data"] = p["data"][:60]
                if kind == "nak" and p["segments"]:
                    p["segments"] = p["segments"][:4]
                return C.ref_octets(kind, cfg, p)
            F[f"pdu_{kind}/crc={crc}"] = (b, [f"{X.CLS[kind].__name__}.unpack", "PduFactory.from_raw", "PduFactory.from_raw_to_holder"])
    F["tlv"] = (lambda r: R.tlv(r.choice(R.TLV_TYPES), rand_bytes(r, r.choice((0, 1, 2, 3, 9, 40)))), ["CfdpTlv.unpack"])
    F["lv"] = (lambda r: R.lv(rand_bytes(r, r.choice((0, 1, 2, 3, 9, 40)))), ["CfdpLv.unpack"])
    for name in c08.CONCRETE:
        def b(r, name=name):
            if name == "entity_id":
                p = {"id": rand_bytes(r, r.choice(C.WIDTHS)).hex()}
            elif name == "flow_label":
                p = {"label": rand_bytes(r, r.randrange(0, 12)).hex()}
            elif name == "msg_to_user":
                p = {"msg": (b"cfdp" + rand_bytes(r, r.randrange(1, 12))).hex() if r.random() < 0.5 else rand_bytes(r, r.randrange(0, 12)).hex()}
            elif name == "fault_handler":
                p = {"cond": r.choice(C.CONDS), "handler": r.choice((1, 2, 3, 4))}
            elif name == "fs_request":
                a = r.choice(range(9))
                p = {"action": a, "first": r.choice(c08.NAME_POOL[:5]), "second": r.choice(c08.NAME_POOL[:5]) if a in R.TWO_NAME_ACTIONS else ""}
            else:
                p = C.rand_response(r)
            return c08.make(name, p)[1]
        cls = c08.cls_of(name)
        F[f"tlv_{name}"] = (b, [f"{cls.__name__}.unpack", f"{cls.__name__}.from_tlv", f"TlvHolder.{c08.HOLDER[name]}"])

    def uslp_hdr(r):
        n = r.randrange(0, 8)
        return U.primary_header(r.getrandbits(16), r.getrandbits(1), r.getrandbits(6), r.getrandbits(4), r.getrandbits(16), r.getrandbits(1), r.getrandbits(1), r.getrandbits(1), n,
                                r.getrandbits(8 * n) if n else 0)
    F["uslp_primary"] = (uslp_hdr, ["PrimaryHeader.unpack"])
    F["uslp_truncated"] = (lambda r: U.truncated_header(r.getrandbits(16), r.getrandbits(1), r.getrandbits(6), r.getrandbits(4)), ["TruncatedPrimaryHeader.unpack", "determine_header_type"])

    def var_frame(r, iz=0, fecf=0):
        n = r.randrange(0, 4)
        ocf = r.getrandbits(1)
        tf = U.tfdf(r.randrange(3, 8), r.choice((0, 1, 4, 31)), rand_bytes(r, r.randrange(1, 12)))
        total = 7 + n + iz + len(tf) + 4 * ocf + fecf
        h = U.primary_header(r.getrandbits(16), r.getrandbits(1), r.getrandbits(6), r.getrandbits(4), total - 1, r.getrandbits(1), r.getrandbits(1), ocf, n, r.getrandbits(8 * n) if n else 0)
        return U.frame(h, tf, r.randbytes(iz) if iz else None, r.randbytes(4) if ocf else None, r.randbytes(fecf) if fecf else None)
    F["uslp_frame_var"] = (lambda r: var_frame(r), ["TransferFrame.unpack[var]"])
    F["uslp_frame_var_iz_fecf"] = (lambda r: var_frame(r, 4, 2), ["TransferFrame.unpack[var_iz4_fecf2]"])

    def trunc_frame(r, total, iz=0, fecf=0):
        h = U.truncated_header(r.getrandbits(16), r.getrandbits(1), r.getrandbits(6), r.getrandbits(4))
        tf = U.tfdf(r.randrange(3, 8), 0, r.randbytes(total - 4 - iz - fecf - 1))
        return U.frame(h, tf, r.randbytes(iz) if iz else None, None, r.randbytes(fecf) if fecf else None)
    F["uslp_frame_trunc"] = (lambda r: trunc_frame(r, 12), ["TransferFrame.unpack[var]"])
    F["uslp_frame_trunc_iz_fecf"] = (lambda r: trunc_frame(r, 16, 4, 2), ["TransferFrame.unpack[var_iz4_fecf2]"])

    def fixed_frame(r, total, iz=0, fecf=0):
        n = r.randrange(0, 3)
        ocf = r.getrandbits(1)
        h = U.primary_header(r.getrandbits(16), r.getrandbits(1), r.getrandbits(6), r.getrandbits(4), total - 1, r.getrandbits(1), r.getrandbits(1), ocf, n, r.getrandbits(8 * n) if n else 0)
        tf = U.tfdf(r.randrange(0, 3), 0, r.randbytes(total - 7 - n - iz - fecf - 4 * ocf - 3), pointer=r.getrandbits(16))
        return U.frame(h, tf, r.randbytes(iz) if iz else None, r.randbytes(4) if ocf else None, r.randbytes(fecf) if fecf else None)
    F["uslp_frame_fixed"] = (lambda r: fixed_frame(r, 32), ["TransferFrame.unpack[fixed32]"])
    F["uslp_frame_fixed_iz_fecf"] = (lambda r: fixed_frame(r, 40, 4, 4), ["TransferFrame.unpack[fixed40_iz4_fecf4]"])
    return F


_F = None


def fam():
    global _F
    if _F is None:
        _F = families()
    return _F


# ------------------------------------------------------------------ monitors
def call(ctx, dname, raw: bytes, origin: str, must_raise=False):
    """Escape monitor + loop budget (+ prefix monitor when must_raise)."""
    g = guard()
    fn = dec()[dname]
    case = {"k": "call", "dname": dname, "raw": raw.hex(), "must_raise": must_raise}
    try:
        res = g.call(8 * len(raw) + 256, fn, raw)
        ok = True
    except RecursionError:
        raise
    except BaseException as e:  # noqa: BLE001
        ok, res = False, e
    ctx.ev("escape")
    short = dname.split("[")[0]
    if ok:
        ctx.table("outcomes", f"{short}:return")
        probe(ctx, short, res, case, origin)
        if must_raise:
            ctx.ev("prefix_rejected")
            ctx.fail("prefix_rejected", "strict_prefix_decoded", f"{short}/{origin}", case, observed=repr(res)[:200], prefix_len=len(raw))
        return
    if must_raise:
        ctx.ev("prefix_rejected")
    if isinstance(res, LoopBudgetExceeded):
        ctx.fail("loop_budget", "exceeded", short, case, error=repr(res))
    elif isinstance(res, documented_errors()):
        ctx.table("outcomes", f"{short}:{type(res).__name__}")
    else:
        ctx.fail("escape", "undocumented_exception", f"{exc_sig(res)}<-{short}", case, error=repr(res), origin=origin, tb=tb_tail(res))


_PROBE_SKIP = ("print_", "unpack", "from_", "empty", "create_new", "read_from_raw", "set_", "verify_", "check_", "add_", "remove_", "parse_", "get_max_", "pack_command_tuple")
_PROBE_PLAN = {}


def _probe_plan(tp):
    """Zero-argument public readers of a class: properties and methods that take nothing but self."""
    plan = _PROBE_PLAN.get(tp)
    if plan is None:
        import inspect
        plan = []
        for name in dir(tp):
            if name.startswith("_") or name.startswith(_PROBE_SKIP) or not name.startswith(("to_", "get_", "is_")):
                continue                    # only the readers that decode further (convert, classify, extract parameters)
            try:
                a = inspect.getattr_static(tp, name)
            except AttributeError:
                continue
            if isinstance(a, property):
                plan.append((name, False))
            elif inspect.isfunction(a):
                try:
                    ps = list(inspect.signature(a).parameters.values())[1:]
                except (TypeError, ValueError):
                    continue
                if all(p.default is not inspect.Parameter.empty or p.kind in (p.VAR_POSITIONAL, p.VAR_KEYWORD) for p in ps):
                    plan.append((name, True))
        _PROBE_PLAN[tp] = plan
    return plan


def probe(ctx, short, obj, case, origin, depth=0):
    """Decoding in two steps: some decoders hand back an object whose content is only parsed when it is asked for (a message to
    user that may be a reserved CFDP message, a holder, a reserved message and its parameter readers).  Every public
    zero-argument to_... / get_... / is_... reader of a decoded object is such a second step and must return or fail in a
    documented way, too - a value accepted lazily must not blow up in the caller's hands with IndexError & co.  Results of
    to_... / get_... are probed one level further."""
    if obj is None or isinstance(obj, (int, float, str, bytes, bytearray, bool, tuple, list, dict)) or not type(obj).__module__.startswith("spacepackets"):
        return
    import enum
    if isinstance(obj, enum.Enum):
        return
    if getattr(obj, "pdu", 0) is None or getattr(obj, "tlv", 0) is None:
        return          # an empty holder (the factory found no PDU kind it knows): nothing was decoded, its views are the caller's risk (C12 notes it)
    for name, is_call in _probe_plan(type(obj)):
        try:
            v = getattr(obj, name)
            if is_call:
                v = v()
        except RecursionError:
            raise
        except BaseException as e:  # noqa: BLE001
            ctx.ev("returned_object_readable")
            allowed = documented_errors() + ((TypeError,) if name.startswith("to_") else ())      # holders document TypeError for the wrong kind
            if not isinstance(e, allowed):
                ctx.fail("returned_object_readable", "undocumented_exception_from_a_reader_of_the_decoded_object", f"{exc_sig(e)}<-{type(obj).__name__}.{name}<-{short}", case, error=repr(e), origin=origin)
            continue
        ctx.ev("returned_object_readable")
        if depth < 1 and name.startswith(("to_", "get_")) and v is not None:
            probe(ctx, short, v, case, origin, depth + 1)


def k_call(ctx, dname, raw, must_raise=False):
    call(ctx, dname, bytes.fromhex(raw), "replay", must_raise)


def _sample(family, seed):
    r = random.Random(f"{family}/{seed}")
    return fam()[family][0](r), r


def k_prefix(ctx, family, seed):
    u, r = _sample(family, seed)
    strict = fam()[family][1]
    ctx.case(f"prefix/{family}", u, sample={"k": "prefix", "family": family, "seed": seed, "unit": u.hex()[:120]})
    for n in range(len(u)):
        pre = u[:n]
        for d in strict:
            call(ctx, d, pre, f"prefix_of:{family}", must_raise=True)
    # the complete unit must decode (otherwise the prefix clause would be vacuous)
    for d in strict:
        ok, res = attempt(dec()[d], u)
        ctx.check("complete_unit_decodes", ok, "raised", f"{d.split('[')[0]}/{family}/" + (exc_sig(res) if not ok else ""), {"k": "call", "dname": d, "raw": u.hex()}, error=repr(res))
    # every other decoder sees a few of the prefixes too (escape monitor only)
    others = [d for d in dec() if d not in strict]
    for d in r.sample(others, min(len(others), 6)):
        for n in {0, 1, len(u) // 2, max(0, len(u) - 1), len(u)}:
            call(ctx, d, u[:n], f"cross:{family}")
    ctx.table("prefix_families", family)


def k_subst(ctx, family, seed, all_values=False):
    u, r = _sample(family, seed)
    strict = fam()[family][1]
    ctx.case(f"subst/{family}", (u, "s"), sample={"k": "subst", "family": family, "seed": seed, "unit": u.hex()[:120]})
    offsets = list(range(min(len(u), 28)))
    if len(u) > 28:
        offsets += [len(u) - 3, len(u) - 2, len(u) - 1] + r.sample(range(28, len(u)), min(4, len(u) - 28))
    for off in offsets:
        o = u[off]
        vals = range(256) if all_values else {0, 1, 0x7F, 0x80, 0xFF, (o + 1) & 0xFF, (o - 1) & 0xFF, r.getrandbits(8), r.getrandbits(8)}
        for v in vals:
            if v == o:
                continue
            m = u[:off] + bytes([v]) + u[off + 1:]
            for d in strict:
                call(ctx, d, m, f"subst:{family}")
    ctx.table("subst_families", family)


def k_lenedit(ctx, family, seed):
    """Length-field edits with the buffer left, cut or padded to match."""
    u, r = _sample(family, seed)
    strict = fam()[family][1]
    ctx.case(f"lenedit/{family}", (u, "l"), sample={"k": "lenedit", "family": family, "seed": seed})
    if family.startswith(("tc", "tm", "srv1", "sp_header")):
        pos, base = 4, int.from_bytes(u[4:6], "big")
    elif family.startswith(("pdu_", "pdu_header")):
        pos, base = 1, int.from_bytes(u[1:3], "big")
    elif family.startswith("uslp_frame") and "trunc" not in family or family == "uslp_primary":
        pos, base = 4, int.from_bytes(u[4:6], "big")
    else:
        return
    for new in {0, 1, 2, base - 2, base - 1, base + 1, base + 2, 0xFFFF, 0x7FFF, r.getrandbits(16)}:
        if not 0 <= new <= 0xFFFF or new == base:
            continue
        m = u[:pos] + new.to_bytes(2, "big") + u[pos + 2:]
        delta = new - base
        variants = [m]
        if delta < 0:
            variants.append(m[:max(0, len(m) + delta)])
        elif delta < 70000:
            variants.append(m + r.randbytes(min(delta, 300)))
            if delta > 300:
                variants.append(m + bytes(delta))
        for v in variants:
            for d in strict:
                call(ctx, d, v, f"lenedit:{family}")
    ctx.table("lenedit_families", family)


def structured_cases(r):
    """Hand-shaped hostile inputs (decoder name, octets)."""
    out = []
    for t in R.TLV_TYPES:
        for n in (1, 3, 200, 255):
            out.append(("CfdpTlv.unpack", bytes([t, n])))                     # length without value
            out.append(("CfdpTlv.unpack", bytes([t, n]) + b"\x00" * (n - 1)))  # one octet short
    for name in c08.CONCRETE:
        cls = c08.cls_of(name).__name__
        t = c08.TYPE_OF[name]
        for body in (b"", b"\x00", b"\x05", b"\x10\x05ab", b"\x20\x01a\x05b", b"\x20\x01a", b"\xff\xff\xff", b"\x10\x00", b"\x10\x00\x09"):
            raw = R.tlv(t, body)
            for route in (f"{cls}.unpack", f"{cls}.from_tlv", f"TlvHolder.{c08.HOLDER[name]}"):
                out.append((route, raw))
        out.append((f"{cls}.unpack", bytes([t])))
        out.append((f"{cls}.unpack", b""))
    for raw in (b"", b"\x05", b"\x00", b"\xff" + b"a" * 10):
        out.append(("CfdpLv.unpack", raw))
    # values the code itself compares against (markers, magic numbers found in the live modules): exactly the constant, one octet
    # less, one more, twice - as the value of every concrete TLV class, as an LV and as an option of a Metadata PDU
    from spverif.core.util import harvested_constants
    cfg0 = C.rand_cfg(r, crc=0, large=0)
    for const in harvested_constants():
        for body in (const, const[:-1], const + b"\x00", const + b"\xff", const + const, const[1:]):
            if len(body) > 255:
                continue
            for name in c08.CONCRETE:
                cls = c08.cls_of(name).__name__
                raw = R.tlv(c08.TYPE_OF[name], body)
                for route in (f"{cls}.unpack", f"{cls}.from_tlv", f"TlvHolder.{c08.HOLDER[name]}"):
                    out.append((route, raw))
            out.append(("CfdpLv.unpack", R.lv(body)))
            out.append(("MetadataPdu.unpack", R.assemble(cfg0, 0, 0, bytes([7, 0x40]) + bytes(4) + b"\x01a\x01b" + R.tlv(2, body))))
            out.append(("PduFactory.from_raw", R.assemble(cfg0, 0, 0, bytes([7, 0x40]) + bytes(4) + b"\x01a\x01b" + R.tlv(2, body))))
    # reserved CFDP messages cut short behind the marker: every message type octet (defined and undefined ones) followed by 0..6
    # octets and by LV-shaped content that promises more than is there - the second-step readers (to_reserved_msg_tlv, get_...)
    # are exercised by the probe of the returned object
    for t in list(range(0x00, 0x0C)) + [0x10, 0x11, 0x15, 0x20, 0x7F, 0xFF]:
        for tail in (b"", b"\x00", b"\x01", b"\x05ab", b"\x01a\x01", b"\x01a\x01b\x09", b"\x11\x01", b"\x77\x01\x02\x03\x04\x05", b"\x80\x03abc", b"\x80\x03abc\x05x", r.randbytes(6)):
            raw = R.tlv(2, b"cfdp" + bytes([t]) + tail)
            for route in ("MessageToUserTlv.unpack", "MessageToUserTlv.from_tlv", "TlvHolder.to_msg_to_user"):
                out.append((route, raw))
    X = C.lib()
    for kind in C.KINDS8:
        cname = f"{X.CLS[kind].__name__}.unpack"
        for crc in (0, 1):
            for large in (0, 1):
                cfg = C.rand_cfg(r, crc=crc, large=large)
                hl = R.header_len(cfg["idw"], cfg["seqw"])
                for body_len in range(0, 50):
                    body = bytes([C.DIRECTIVE_CODE.get(kind, 0)]) * min(1, body_len) + r.randbytes(max(0, body_len - 1))
                    if kind == "file_data":
                        body = r.randbytes(body_len)
                    for segmeta in ((0, 1) if kind == "file_data" else (0,)):
                        raw = R.assemble(cfg, 1 if kind == "file_data" else 0, 0, body, segmeta=segmeta)
                        out.append((cname, raw))
                        out.append(("PduFactory.from_raw", raw))
                        out.append(("PduFactory.pdu_directive_type", raw[:hl]))
    # metadata: first LV swallows the whole remainder / LV longer than the rest
    cfg = C.rand_cfg(r, crc=0, large=0)
    for tail in (b"\x05ab", b"\x03abc", b"\x03abc\x09x", b"\x00\x00\x06", b"\x00\x00\x06\x05"):
        out.append(("MetadataPdu.unpack", R.assemble(cfg, 0, 0, bytes([7, 0x43]) + bytes(4) + tail)))
    for tail in (b"\x01", b"\x01\x09", b"\x06\x05ab", b"\x09\x00"):
        out.append(("FinishedPdu.unpack", R.assemble(cfg, 0, 1, bytes([5, 0x40]) + tail)))
        out.append(("EofPdu.unpack", R.assemble(cfg, 0, 0, bytes([4, 0x40]) + bytes(8) + tail)))
    # TLV areas of EOF / Finished / Metadata PDUs filled with every TLV type (defined, reserved, invalid), well framed
    for crc in (0, 1):
        cfg2 = C.rand_cfg(r, crc=crc, large=0)
        for t in list(range(0, 8)) + [0x10, 0x7F, 0xFF]:
            for val in (b"", b"\x01", b"\x01\x02", b"\x10\x01a", b"\x41", r.randbytes(5)):
                item = bytes([t, len(val)]) + val
                for cond in (0, 4, 11):
                    for tail in (item, item + item, R.tlv(1, R.fs_response_value(1, 0, b"a", b"", b"")) + item):
                        out.append(("FinishedPdu.unpack", R.assemble(cfg2, 0, 1, bytes([5, (cond << 4) | 1]) + tail)))
                        out.append(("PduFactory.from_raw", R.assemble(cfg2, 0, 1, bytes([5, (cond << 4) | 1]) + tail)))
                        out.append(("EofPdu.unpack", R.assemble(cfg2, 0, 0, bytes([4, cond << 4]) + bytes(8) + tail)))
                        out.append(("MetadataPdu.unpack", R.assemble(cfg2, 0, 0, bytes([7, 0x40]) + bytes(4) + b"\x01a\x01b" + tail)))
    # service-1 reports whose source data is shorter than request id + step id + failure code, with a valid CRC
    for (ts, sw, cw) in ((0, 1, 1), (7, 2, 4), (0, 8, 8), (7, 1, 2)):
        for sub in range(1, 9):
            for n in range(0, 4 + sw + cw + 2):
                raw = P.tm(r.getrandbits(11), r.getrandbits(14), 1, sub, 0, 0, 0, r.randbytes(ts), r.randbytes(n))
                out.append((f"Service1Tm.unpack[ts={ts},step={sw},code={cw}]", raw))
    for n in range(0, 8):
        out.append(("PduFactory.pdu_type", bytes(n)))
        out.append(("PduFactory.is_file_directive", b"\x20" * n))
        out.append(("PduFactory.pdu_directive_type", b"\x20\x00\x00\x00"[:n] if n < 4 else b"\x20\x00\x01\x00" + bytes(n - 4)))
        out.append(("PduHeader.header_len_from_raw", bytes(n)))
    for d in dec():
        if d.startswith(("TransferFrameDataField.unpack", "TransferFrame.unpack")):
            for raw in (b"", b"\x00", b"\x00\x01", b"\xe0", b"\xc0\x00\x00\x00", b"\xc0\x00\x00\x01", b"\xc0\x00\x00\x00\x00\x06\x00", b"\xc0\x00\x00\x00\xff\xff\x0f"):
                out.append((d, raw))
    return out


KINDS = {"call": k_call, "prefix": k_prefix, "subst": k_subst, "lenedit": k_lenedit}


def _biased_random(r, n):
    b = bytearray(r.randbytes(n))
    if n and r.random() < 0.7:
        b[0] = r.choice((0x18, 0x08, 0x20, 0x22, 0x24, 0x26, 0x2A, 0x30, 0x32, 0x40, 0xC0, 0x00, 0x01, 0x02, 0x04, 0x05, 0x06))
    if n > 3 and r.random() < 0.5:
        b[3] = r.choice((0x00, 0x11, 0x33, 0x77, 0x01, 0x10, 0x00))
    if n > 5 and r.random() < 0.4:
        b[4:6] = (max(0, n - 7 + r.choice((-1, 0, 0, 1)))).to_bytes(2, "big")
    if n > 2 and r.random() < 0.4:
        b[1:3] = (max(0, n - r.choice((7, 8, 10, 14)))).to_bytes(2, "big")
    if n > 6 and r.random() < 0.5:
        b[6] = 0x20 | (b[6] & 0xF)
    return bytes(b)


def run(ctx):
    r = ctx.rng
    D = dec()
    names = list(D)
    guard()
    # (a) random octets, every length 0..64, every decoder
    per = 8 if ctx.quick else 1500
    i = 0
    for d in names:
        for n in range(65):
            i += 1
            if not ctx.mine(i):
                continue
            for _ in range(per):
                raw = _biased_random(r, n)
                ctx.case("random/len<=64", (d, raw))
                call(ctx, d, raw, "random")
    ctx.exhaustive.append(f"{len(names)} decoder entry points x every input length 0..64 (random content)")
    # (b) every truncation point of valid units; (c) substitutions; (d) length edits
    reps = 6 if ctx.quick else 480
    for fname in fam():
        for rep in range(reps):
            i += 1
            if not ctx.mine(i):
                continue
            seed = ctx.seed * 1_000_003 + i
            k_prefix(ctx, fname, seed)
            if rep < (1 if ctx.quick else 12):
                k_subst(ctx, fname, seed, all_values=(not ctx.quick and rep < 2))
            k_lenedit(ctx, fname, seed)
    ctx.exhaustive.append("every truncation point of every sampled valid unit")
    # (e) structure-aware cases
    if ctx.shard[0] == 0:
        for d, raw in structured_cases(r):
            ctx.case("structured", (d, raw))
            call(ctx, d, raw, "structured")
    # cross feeding: every decoder gets complete units of every family
    for fname in fam():
        for rep in range(1 if ctx.quick else 24):
            i += 1
            if not ctx.mine(i):
                continue
            u, rr = _sample(fname, ctx.seed * 7 + i)
            for d in names:
                ctx.case("cross", (d, u))
                call(ctx, d, u, f"cross:{fname}")
                call(ctx, d, u + rr.randbytes(3), f"cross:{fname}")
    g = guard()
    ctx.extra["loop_guard"] = {"calls": g.calls, "total_back_edges": g.total_back_edges, "max_back_edges_in_one_call": g.max_seen}
    ctx.extra["decoder_entry_points"] = len(names)


def conclude(ctx):
    out = ctx.tables.get("outcomes", {})
    seen_ret, seen_raise = set(), set()
    for k in out:
        d, o = k.rsplit(":", 1)
        (seen_ret if o == "return" else seen_raise).add(d)
    never_raise = {"check_pus_crc", "parse_space_packets"}
    try:
        shorts = {d.split("[")[0] for d in dec()}
    except Exception:
        shorts = set()
    for d in sorted(shorts):
        ctx.require(d in seen_ret, f"entry point {d}: no return observed")
        if d not in never_raise:
            ctx.require(d in seen_raise, f"entry point {d}: no documented raise observed")
    ctx.require(len(ctx.tables.get("prefix_families", {})) == len(fam()), "prefix families incomplete")
    for m in ("escape", "prefix_rejected", "complete_unit_decodes", "returned_object_readable"):
        ctx.require(ctx.monitors.get(m, {}).get("evaluations", 0) > 0, f"monitor {m} never evaluated")
    lg = ctx.extra.get("loop_guard", {})
    ctx.require(lg.get("total_back_edges", 0) > 0, "loop guard observed no backward jump (monitor not reached)")
