"""C05 - CFDP fixed PDU header: exact encoding, round trip, refusals."""
from __future__ import annotations

from spverif.core.util import attempt, exc_sig, pool_uint, rand_uint, hist_len
from spverif.ref import cfdp as R
from . import _cfdp as C

SCRIBBLE = True
THOROUGH_SCALE = 24
ID = "C05"
LEVEL = "exploration"
SHARDS = {"quick": 1, "thorough": 8}
RULE = ("cases = (7 flag bits, id width, seq width, source id, sequence number, destination id, data-field length) in the pack "
        "direction and raw octet strings in the decode direction; exhaustive over all 2^7 flag combinations x 16 width "
        "combinations (values from boundary pools + random), all 2^16 data-field lengths, all 2^16 (octet 0, octet 3) pairs "
        "fed to the decoder; non-trivial = not the single configuration of tests/cfdp/test_header.py (1-octet ids, no CRC, "
        "all flags 0); distinct = distinct full field tuples / raw strings")
TRUSTED = ["CPython 3.12", "spverif.ref.cfdp.header/decode_header"]
ASSUMPTIONS = ["oracle = independent model of CCSDS 727.0-B-5 table 5-1 (spverif/ref/cfdp.py)",
               "library __eq__ of headers ignores several fields, so all fields are compared individually"]


def _mk_header(f):
    X = C.lib()
    d = X.defs
    conf = X.conf.PduConfig(
        source_entity_id=X.ByteFieldGenerator.from_int(f["idw"], f["src"]),
        dest_entity_id=X.ByteFieldGenerator.from_int(f["idw"], f["dst"]),
        transaction_seq_num=X.ByteFieldGenerator.from_int(f["seqw"], f["seq"]),
        trans_mode=d.TransmissionMode(f["mode"]), file_flag=d.LargeFileFlag(f["large"]), crc_flag=d.CrcFlag(f["crc"]),
        direction=d.Direction(f["direction"]), seg_ctrl=d.SegmentationControl(f["segctrl"]))
    h = X.PduHeader(pdu_type=d.PduType(f["pdu_type"]), segment_metadata_flag=d.SegmentMetadataFlag(f["segmeta"]),
                    pdu_data_field_len=f["data_len"], pdu_conf=conf)
    return h, conf


ISO = C.Isolation()
FIELDS = ("pdu_type", "direction", "mode", "crc", "large", "data_len", "segctrl", "segmeta", "idw", "seqw", "src", "seq", "dst")


def k_hdr(ctx, **f):
    X = C.lib()
    case = {"k": "hdr", **f}
    trivial = (f["idw"], f["seqw"]) == (1, 1) and not any(f[k] for k in ("pdu_type", "direction", "mode", "crc", "large", "segctrl", "segmeta"))
    cfgkey = (f["pdu_type"], f["direction"], f["mode"], f["crc"], f["large"], f["segctrl"], f["segmeta"], f["idw"], f["seqw"])
    ctx.case(f"hdr/idw={f['idw']}/seqw={f['seqw']}", tuple(f[k] for k in FIELDS), nontrivial=not trivial, sample=case)
    ctx.table("configurations_pack", "".join(map(str, cfgkey)))
    want = R.header(*(f[k] for k in FIELDS))
    ok, hc = attempt(_mk_header, f)
    if not ctx.check("hdr.construct", ok, "raised", exc_sig(hc) if not ok else "", case, error=repr(hc)):
        return
    h, conf = hc
    ok, p = attempt(h.pack)
    if not ctx.check("hdr.pack", ok, "raised", exc_sig(p) if not ok else "", case, error=repr(p)):
        return
    p = bytes(p)
    if not ctx.check("hdr.pack", p == want, "octets", _diff_region(p, want, f), case, expected=want, observed=p):
        return
    hl = 4 + 2 * f["idw"] + f["seqw"]
    ctx.check("hdr.len", h.header_len == hl == len(p), "header_len", "", case, observed=h.header_len)
    ctx.check("hdr.len", conf.header_len() == hl, "conf_header_len", "", case, observed=conf.header_len())
    ctx.check("hdr.len", h.packet_len == hl + f["data_len"], "packet_len", "", case, observed=h.packet_len)
    ctx.check("hdr.len", X.PduHeader.header_len_from_raw(p) == hl, "header_len_from_raw", "", case)
    ctx.check("hdr.len", h.pdu_data_field_len == f["data_len"], "data_field_len", "", case)
    for suffix in (b"", b"\xa5" * 3):
        ok, u = attempt(X.PduHeader.unpack, p + suffix)
        if not ctx.check("hdr.roundtrip", ok, "unpack_raised", exc_sig(u) if not ok else "", case, error=repr(u)):
            return
        got = C.hdr_fields(u)
        exp = dict(R.decode_header(want), dst_w=f["idw"])
        if not ctx.check("hdr.roundtrip", got == exp, "field", C.diff_keys(got, exp), case, expected=exp, observed=got):
            return
        ok, rp = attempt(u.pack)
        ctx.check("hdr.roundtrip", ok and bytes(rp) == want, "repack", "", case)
        ctx.check("hdr.roundtrip", u == h, "eq", "", case)
        ISO.remember(u, want, "header", view=lambda u=u: C.hdr_fields(u))
        ISO.recheck(ctx, "hdr.decoded_objects_independent", case)


def _diff_region(a, b, f):
    if len(a) != len(b):
        return f"len{len(a) - len(b):+d}"
    for i, (x, y) in enumerate(zip(a, b)):
        if x != y:
            if i == 0:
                return "octet0:" + ",".join(n for n, s in (("version", 5), ("type", 4), ("dir", 3), ("mode", 2), ("crc", 1), ("large", 0)) if (x ^ y) >> s & (7 if n == "version" else 1))
            if i in (1, 2):
                return "length"
            if i == 3:
                return "octet3:" + ",".join(n for n, s, m in (("segctrl", 7, 1), ("idw", 4, 7), ("segmeta", 3, 1), ("seqw", 0, 7)) if (x ^ y) >> s & m)
            if i < 4 + f["idw"]:
                return "src"
            if i < 4 + f["idw"] + f["seqw"]:
                return "seq"
            return "dst"
    return ""


def k_decode(ctx, raw):
    """Decoder fed arbitrary fixed parts with model-built tails: model values, or exactly the predicted error class."""
    X = C.lib()
    from spacepackets.exceptions import BytesTooShortError
    b = bytes.fromhex(raw) if isinstance(raw, str) else raw
    case = {"k": "decode", "raw": b.hex()}
    ctx.case("decode", b, sample=case)
    ok, u = attempt(X.PduHeader.unpack, b)
    try:
        exp = R.decode_header(b)
        kind = None
    except R.RefError as e:
        kind = e.kind
    ctx.ev("hdr.decode")
    ctx.table("decode_outcome", kind or "ok")
    if kind is None:
        if not ok:
            return ctx.fail("hdr.decode", "valid_refused", exc_sig(u), case, error=repr(u))
        got = C.hdr_fields(u)
        exp = dict(exp, dst_w=exp["idw"])
        if got != exp:
            return ctx.fail("hdr.decode", "field", C.diff_keys(got, exp), case, expected=exp, observed=got)
        ctx.check("hdr.len", X.PduHeader.header_len_from_raw(b) == exp["header_len"], "header_len_from_raw", "decode", case)
    else:
        want_cls = {"version": X.defs.UnsupportedCfdpVersion, "width": ValueError, "short": BytesTooShortError}[kind]
        if ok:
            return ctx.fail("hdr.decode", "invalid_accepted", kind, case, observed=C.hdr_fields(u))
        if not isinstance(u, want_cls) or (kind == "width" and isinstance(u, BytesTooShortError)):
            return ctx.fail("hdr.decode", "wrong_error", f"{kind}:{type(u).__name__}", case, error=repr(u))
    # the raw-buffer length helper on the same octets and on every shorter prefix of their fixed part: the length the width
    # octet encodes, or a documented refusal of what it cannot read (it looks at the fixed part only, whatever the version)
    for n in (len(b), 4, 3, 2, 1, 0):
        pre = b[:n]
        ok2, v = attempt(X.PduHeader.header_len_from_raw, pre)
        ctx.ev("hdr.len")
        if len(pre) >= 4:
            wexp = 4 + 2 * (((pre[3] >> 4) & 7) + 1) + ((pre[3] & 7) + 1)
            if not ok2 or v != wexp:
                ctx.fail("hdr.len", "header_len_from_raw_differs_from_width_octet", "value" if ok2 else exc_sig(v), case, observed=repr(v), expected=wexp)
        elif ok2 or not isinstance(v, ValueError):
            ctx.fail("hdr.len", "header_len_from_raw_on_short_input", f"n={n}/" + ("accepted" if ok2 else type(v).__name__), case, observed=repr(v))


def k_refuse(ctx, what, value):
    X = C.lib()
    case = {"k": "refuse", "what": what, "value": value}
    ctx.case(f"refuse/{what}", (what, value), sample=case)
    f = dict(pdu_type=0, direction=0, mode=0, crc=0, large=0, data_len=5, segctrl=0, segmeta=0, idw=2, seqw=2, src=1, seq=2, dst=3)

    def go():
        if what == "data_len_ctor":
            f["data_len"] = value
            return _mk_header(f)[0].pack()
        if what == "data_len_setter":
            h, _ = _mk_header(f)
            h.pdu_data_field_len = value
            return h.pack()
        if what == "id_widths_ctor":
            d = X.defs
            conf = X.conf.PduConfig(source_entity_id=X.ByteFieldGenerator.from_int(value[0], 1),
                                    dest_entity_id=X.ByteFieldGenerator.from_int(value[1], 1),
                                    transaction_seq_num=X.ByteFieldGenerator.from_int(1, 0), trans_mode=d.TransmissionMode(0))
            return X.PduHeader(d.PduType(0), d.SegmentMetadataFlag(0), 0, conf).pack()
        if what == "id_widths_setter":
            h, _ = _mk_header(f)
            h.set_entity_ids(X.ByteFieldGenerator.from_int(value[0], 1), X.ByteFieldGenerator.from_int(value[1], 1))
            return h.pack()
        if what == "check_len_in_bytes":
            return X.PduHeader.check_len_in_bytes(value)
        raise AssertionError(what)

    ok, res = attempt(go)
    ctx.ev("hdr.refusal")
    if ok:
        ctx.fail("hdr.refusal", "accepted", what, case, observed=res)
    elif not isinstance(res, ValueError):
        ctx.fail("hdr.refusal", "wrong_error", f"{what}/{type(res).__name__}", case, error=repr(res))
    if what in ("data_len_setter", "id_widths_setter"):
        # a refused value is not applied: the header used afterwards still encodes what it held before the refused call
        g = dict(pdu_type=1, direction=1, mode=1, crc=1, large=0, data_len=77, segctrl=0, segmeta=1, idw=2, seqw=4, src=0x0102, seq=0x01020304, dst=0x0506)
        h, _ = _mk_header(g)
        before = bytes(h.pack())
        if what == "data_len_setter":
            ok2, e = attempt(setattr, h, "pdu_data_field_len", value)
        else:
            ok2, e = attempt(h.set_entity_ids, X.ByteFieldGenerator.from_int(value[0], 1), X.ByteFieldGenerator.from_int(value[1], 1))
        if not ok2:
            ok3, after = attempt(lambda: bytes(h.pack()))
            ctx.check("hdr.refusal", ok3 and after == before and h.pdu_data_field_len == 77 and h.packet_len == len(before) + 77, "refused_value_applied_anyway", what, case,
                      before=before, after=after if ok3 else repr(after), data_len_view=h.pdu_data_field_len)


def k_reuse(ctx, seed, start="ctor"):
    """One header object re-used for several transactions: every field is moved to a new value through the documented
    setters (and in-place assignment to the id / sequence number fields), and after every round the packed octets and all
    views must be those of the current values."""
    import random
    X = C.lib()
    d = X.defs
    r = random.Random(f"reuse/{seed}")
    case = {"k": "reuse", "seed": seed, "start": start}
    ctx.case(f"reuse/{start}", ("reuse", seed, start), sample=case)

    def rnd_fields(idw=None, seqw=None):
        idw = idw or r.choice(C.WIDTHS)
        seqw = seqw or r.choice(C.WIDTHS)
        return dict(pdu_type=r.getrandbits(1), direction=r.getrandbits(1), mode=r.getrandbits(1), crc=r.getrandbits(1), large=r.getrandbits(1),
                    data_len=r.choice((0, 1, 255, 256, 65535, r.getrandbits(16))), segctrl=r.getrandbits(1), segmeta=r.getrandbits(1), idw=idw, seqw=seqw,
                    src=rand_uint(r, 8 * idw), seq=rand_uint(r, 8 * seqw), dst=rand_uint(r, 8 * idw))

    f = rnd_fields()
    if start == "default_conf":
        # the documented ready-made configuration (one-octet ids, all zero), filled in afterwards through the field objects
        f.update(direction=0, mode=0, crc=0, large=0, segctrl=0, idw=1, seqw=1, src=0, seq=0, dst=0)
        ok, hc = attempt(lambda: (X.PduHeader(pdu_type=d.PduType(f["pdu_type"]), segment_metadata_flag=d.SegmentMetadataFlag(f["segmeta"]),
                                              pdu_data_field_len=f["data_len"], pdu_conf=X.conf.PduConfig.default()), None))
    else:
        ok, hc = attempt(_mk_header, f)
    if not ctx.check("hdr.reuse", ok, "construct_raised", "", case, error=repr(hc)):
        return
    h = hc[0]
    if start == "unpack":
        h = X.PduHeader.unpack(bytes(h.pack()))
    if start == "default_conf":
        want0 = R.header(*(f[k] for k in FIELDS))
        ok, p0 = attempt(lambda: bytes(h.pack()))
        if not ctx.check("hdr.reuse", ok and p0 == want0, "octets_of_default_configuration", "", case, expected=want0, observed=p0 if ok else repr(p0)):
            return
    trail = []
    for rnd in range(hist_len(r, 1, 5)):
        if r.random() < 0.7:
            h.pack()
        inplace = r.random() < 0.5 or (start == "default_conf" and rnd == 0)
        g = rnd_fields(f["idw"], f["seqw"]) if inplace else rnd_fields()
        if not inplace and r.random() < 0.3:
            # numeric twins: same ids / sequence number as before, carried in other widths
            idws = [w for w in C.WIDTHS if max(f["src"], f["dst"]) < 1 << 8 * w and w != f["idw"]]
            seqws = [w for w in C.WIDTHS if f["seq"] < 1 << 8 * w and w != f["seqw"]]
            if idws and r.random() < 0.8:
                g.update(idw=r.choice(idws), src=f["src"], dst=f["dst"])
            if seqws and r.random() < 0.8:
                g.update(seqw=r.choice(seqws), seq=f["seq"])
            if g["src"] >= 1 << 8 * g["idw"] or g["dst"] >= 1 << 8 * g["idw"] or g["seq"] >= 1 << 8 * g["seqw"]:
                g = rnd_fields()
            ctx.table("reuse_setters", "numeric_twin_round")
        ops = [("pdu_type", lambda: setattr(h, "pdu_type", d.PduType(g["pdu_type"]))),
               ("direction", lambda: setattr(h, "direction", d.Direction(g["direction"]))),
               ("transmission_mode", lambda: setattr(h, "transmission_mode", d.TransmissionMode(g["mode"]))),
               ("crc_flag", lambda: setattr(h, "crc_flag", d.CrcFlag(g["crc"]))),
               ("file_flag", lambda: setattr(h, "file_flag", d.LargeFileFlag(g["large"]))),
               ("seg_ctrl", lambda: setattr(h, "seg_ctrl", d.SegmentationControl(g["segctrl"]))),
               ("pdu_data_field_len", lambda: setattr(h, "pdu_data_field_len", g["data_len"]))]
        if inplace:
            how = r.choice(("int", "bytes", "longer_bytes"))
            conv = (lambda v, w: v) if how == "int" else (lambda v, w: v.to_bytes(w, "big")) if how == "bytes" else (lambda v, w: v.to_bytes(w, "big") + b"\xa5\x5a\x00")
            ops += [(f"src.value={how}", lambda: setattr(h.source_entity_id, "value", conv(g["src"], g["idw"]))),
                    (f"dst.value={how}", lambda: setattr(h.dest_entity_id, "value", conv(g["dst"], g["idw"]))),
                    (f"seq.value={how}", lambda: setattr(h.transaction_seq_num, "value", conv(g["seq"], g["seqw"])))]
        else:
            ops += [("set_entity_ids", lambda: h.set_entity_ids(X.ByteFieldGenerator.from_int(g["idw"], g["src"]), X.ByteFieldGenerator.from_int(g["idw"], g["dst"]))),
                    ("transaction_seq_num", lambda: setattr(h, "transaction_seq_num", X.ByteFieldGenerator.from_int(g["seqw"], g["seq"])))]
        r.shuffle(ops)
        g["segmeta"] = f["segmeta"]          # no setter for the segment metadata flag on the bare header
        if r.random() < 0.5:
            # only some of the setters are used in this round; the fields behind the others keep their values
            keep = {"pdu_type": ("pdu_type",), "direction": ("direction",), "transmission_mode": ("mode",), "crc_flag": ("crc",), "file_flag": ("large",), "seg_ctrl": ("segctrl",),
                    "pdu_data_field_len": ("data_len",), "src.value": ("src",), "dst.value": ("dst",), "seq.value": ("seq",), "set_entity_ids": ("idw", "src", "dst"), "transaction_seq_num": ("seqw", "seq")}
            kept_ops = []
            for name, fn in ops:
                if r.random() < 0.35:
                    for k in keep[name.split("=")[0]]:
                        g[k] = f[k]
                else:
                    kept_ops.append((name, fn))
            ops = kept_ops
            ctx.table("reuse_setters", "partial_round")
        for name, fn in ops:
            ok, e = attempt(fn)
            trail.append(name)
            ctx.table("reuse_setters", name.split("=")[0])
            if not ctx.check("hdr.reuse", ok, "setter_raised", name.split("=")[0], case, error=repr(e), trail=trail[-12:]):
                return
        f = g
        want = R.header(*(f[k] for k in FIELDS))
        okb, before = attempt(lambda: (h.header_len, h.packet_len))            # read before pack(): the setters keep them right on their own
        if not ctx.check("hdr.reuse", okb and before == (len(want), len(want) + f["data_len"]), "length_views_before_packing", "inplace_value" if inplace else "setters", case, observed=repr(before),
                         expected=[len(want), len(want) + f["data_len"]], trail=trail[-12:]):
            return
        ok, p = attempt(lambda: bytes(h.pack()))
        if not ctx.check("hdr.reuse", ok and p == want, "octets_after_setters", ("inplace_value" if inplace else "setters") + "/" + (_diff_region(p, want, f) if ok else "raised"),
                         case, expected=want, observed=p if ok else repr(p), trail=trail[-12:], round=rnd):
            return
        got = C.hdr_fields(h)
        exp = dict(R.decode_header(want), dst_w=f["idw"])
        if not ctx.check("hdr.reuse", got == exp, "views_after_setters", C.diff_keys(got, exp), case, expected=exp, observed=got, trail=trail[-12:]):
            return
        ok, u = attempt(X.PduHeader.unpack, p)
        if not ctx.check("hdr.reuse", ok and C.hdr_fields(u) == exp, "decode_after_setters", "", case, trail=trail[-12:]):
            return


KINDS = {"hdr": k_hdr, "decode": k_decode, "refuse": k_refuse, "reuse": k_reuse}


def selftest(ctx):
    # vectors asserted by tests/cfdp/test_header.py (default config: 20 00 00 11 00 00 00; 2-octet variant)
    assert R.header(0, 0, 0, 0, 0, 0, 0, 0, 1, 1, 0, 0, 0).hex() == "20000000000000"
    n = 1
    for _ in range(1000):
        idw, seqw = ctx.rng.choice(C.WIDTHS), ctx.rng.choice(C.WIDTHS)
        f = [ctx.rng.getrandbits(1) for _ in range(5)] + [ctx.rng.getrandbits(16), ctx.rng.getrandbits(1), ctx.rng.getrandbits(1), idw, seqw,
                                                          ctx.rng.getrandbits(8 * idw), ctx.rng.getrandbits(8 * seqw), ctx.rng.getrandbits(8 * idw)]
        b = R.header(*f)
        d = R.decode_header(b + b"zz")
        assert [d[k] for k in FIELDS] == f and d["header_len"] == len(b)
        n += 1
    ctx.selftest["ref.cfdp.header golden+roundtrip"] = n


def run(ctx):
    from spverif.ref import enums as _enums
    if ctx.shard[0] == 0:
        _enums.check(ctx, "code_tables", ['spacepackets.cfdp.defs.PduType', 'spacepackets.cfdp.defs.Direction', 'spacepackets.cfdp.defs.TransmissionMode', 'spacepackets.cfdp.defs.CrcFlag', 'spacepackets.cfdp.defs.LargeFileFlag', 'spacepackets.cfdp.defs.SegmentMetadataFlag', 'spacepackets.cfdp.defs.SegmentationControl'])
    from spverif.san import scribble
    scribble.install()
    r = ctx.rng
    i = 0
    _run_reuse(ctx)
    if ctx.shard[0] == 0:
        _run_constants(ctx)
    for flags in range(128):
        pdu_type, direction, mode, crc, large, segctrl, segmeta = ((flags >> s) & 1 for s in range(7))
        for idw in C.WIDTHS:
            for seqw in C.WIDTHS:
                i += 1
                if not ctx.mine(i):
                    continue
                vals = [(0, 0, 0), ((1 << 8 * idw) - 1, (1 << 8 * seqw) - 1, (1 << 8 * idw) - 1),
                        (1 << (8 * idw - 1), 1, (1 << (8 * idw - 1)) - 1)]
                vals += [(rand_uint(r, 8 * idw), rand_uint(r, 8 * seqw), rand_uint(r, 8 * idw)) for _ in range(2 if ctx.quick else 12)]
                for src, seq, dst in vals:
                    k_hdr(ctx, pdu_type=pdu_type, direction=direction, mode=mode, crc=crc, large=large,
                          data_len=rand_uint(r, 16), segctrl=segctrl, segmeta=segmeta, idw=idw, seqw=seqw, src=src, seq=seq, dst=dst)
    ctx.exhaustive.append("all 2^7 flag combinations x 16 width combinations (pack, unpack)")
    # walking bits in ids / sequence numbers for the wide widths
    for idw, seqw in ((8, 8), (4, 2), (2, 4), (1, 8), (8, 1)):
        for v in pool_uint(8 * idw):
            k_hdr(ctx, pdu_type=1, direction=1, mode=0, crc=1, large=0, data_len=1, segctrl=1, segmeta=0, idw=idw, seqw=seqw,
                  src=v, seq=rand_uint(r, 8 * seqw), dst=((1 << 8 * idw) - 1) ^ v)
        for v in pool_uint(8 * seqw):
            k_hdr(ctx, pdu_type=0, direction=0, mode=1, crc=0, large=1, data_len=0xFFFF, segctrl=0, segmeta=1, idw=idw, seqw=seqw,
                  src=rand_uint(r, 8 * idw), seq=v, dst=rand_uint(r, 8 * idw))
    # all 65536 data-field lengths under 8 configurations
    cfgs = [(r.getrandbits(7), r.choice(C.WIDTHS), r.choice(C.WIDTHS)) for _ in range(8)]
    for n in range(65536):
        if ctx.mine(n) and (not ctx.quick or n % 4 == ctx.seed % 4 or n < 300 or n > 65200):
            flags, idw, seqw = cfgs[n % 8]
            k_hdr(ctx, pdu_type=flags & 1, direction=flags >> 1 & 1, mode=flags >> 2 & 1, crc=flags >> 3 & 1, large=flags >> 4 & 1,
                  data_len=n, segctrl=flags >> 5 & 1, segmeta=flags >> 6 & 1, idw=idw, seqw=seqw, src=rand_uint(r, 8 * idw),
                  seq=rand_uint(r, 8 * seqw), dst=rand_uint(r, 8 * idw))
    ctx.exhaustive.append("all 2^16 data-field lengths" + (" (quick: one residue class mod 4 + both ends)" if ctx.quick else ""))
    # decoder: all (octet0, octet3) pairs with full-length tails; plus truncated tails
    for o0 in range(256):
        if not ctx.mine(o0):
            continue
        for o3 in range(256):
            tail = r.randbytes(24)
            k_decode(ctx, bytes([o0, r.getrandbits(8), r.getrandbits(8), o3]) + tail)
            if (o0 ^ o3) & 7 == 0:
                k_decode(ctx, bytes([o0, 0, 1, o3]) + tail[:r.randrange(0, 24)])
    for n in range(0, 4):
        k_decode(ctx, bytes([0x20, 0, 0, 0x11][:n]))
    ctx.exhaustive.append("all 2^16 (octet 0, octet 3) pairs fed to the decoder")
    # refusals
    for v in (65536, 65537, 2 ** 31, 2 ** 63):
        k_refuse(ctx, "data_len_ctor", v)
        k_refuse(ctx, "data_len_setter", v)
    for a in C.WIDTHS:
        for b in C.WIDTHS:
            if a != b:
                k_refuse(ctx, "id_widths_ctor", [a, b])
                k_refuse(ctx, "id_widths_setter", [a, b])
    for v in (0, 3, 5, 6, 7, 9, 16, -1):
        k_refuse(ctx, "check_len_in_bytes", v)
    ok, res = attempt(lambda: _mk_header(dict(pdu_type=0, direction=0, mode=0, crc=0, large=0, data_len=-1, segctrl=0, segmeta=0,
                                              idw=1, seqw=1, src=1, seq=2, dst=3))[0].pack())
    ctx.note("negative data-field length: " + ("encoded " + bytes(res).hex() if ok else "refused with " + type(res).__name__))


def _run_constants(ctx):
    """Octet strings the code under test holds (and well-known markers) as entity ids, sequence numbers and as raw header starts."""
    from spverif.core.util import harvested_constants
    r = ctx.rng
    consts = harvested_constants()
    ctx.extra["harvested_constants"] = len(consts)
    for c in consts:
        for w in (2, 4, 8):
            v = int.from_bytes((c * 8)[:w], "big")
            for slot in ("src", "seq", "dst"):
                f = dict(pdu_type=r.getrandbits(1), direction=r.getrandbits(1), mode=r.getrandbits(1), crc=r.getrandbits(1), large=r.getrandbits(1), data_len=r.getrandbits(16),
                         segctrl=r.getrandbits(1), segmeta=r.getrandbits(1), idw=w, seqw=w, src=rand_uint(r, 8 * w), seq=rand_uint(r, 8 * w), dst=rand_uint(r, 8 * w))
                f[slot] = v
                k_hdr(ctx, **f)
        k_decode(ctx, (bytes([0x20 | r.getrandbits(5)]) + c + r.randbytes(24))[:28])
        k_decode(ctx, (c + r.randbytes(24))[:28])


def _run_reuse(ctx):
    for j in range(ctx.n(1200, 60_000)):
        k_reuse(ctx, ctx.seed * 1_000_003 + ctx.shard[0] * 100_003 + j, "unpack" if j % 3 == 0 else "default_conf" if j % 7 == 1 else "ctor")


def conclude(ctx):
    ctx.require(ctx.extra.get("hostile_caller_scribbled_pack_results", 0) > 0, "hostile-caller sanitizer scribbled no pack() result")
    ctx.require(len(ctx.tables.get("configurations_pack", {})) == 2048, "not all 2048 header configurations were observed")
    for k in ("ok", "version", "width", "short"):
        ctx.require(ctx.tables.get("decode_outcome", {}).get(k, 0) > 0, f"decode outcome class {k} empty")
    for m in ("hdr.pack", "hdr.roundtrip", "hdr.len", "hdr.decode", "hdr.refusal"):
        ctx.require(ctx.monitors.get(m, {}).get("evaluations", 0) > 0, f"monitor {m} never evaluated")
