"""C01 - space packet primary header: exact encoding, bijection, refusals."""
from __future__ import annotations

from spverif.core.util import attempt, exc_sig, pool_uint, rand_uint, hist_len
from spverif.ref import ccsds as R

SCRIBBLE = True
ID = "C01"
LEVEL = "exploration"
SHARDS = {"quick": 1, "thorough": 16}
RULE = ("cases = (direction, 48-bit header value [, suffix]) or (validated field, out-of-range value, route); "
        "exhaustive over each 16-bit header word in both directions (other words random), walking bits, "
        "boundary pools and seeded random values; non-trivial = header value is not one of the constants of "
        "tests/ccsds/test_space_packet.py and is not all-zero; distinct = distinct (direction, 48-bit value) "
        "or distinct refusal tuple")
TRUSTED = ["CPython 3.12", "spverif.ref.ccsds (30 lines, int.to_bytes only)"]
ASSUMPTIONS = [
    "oracle = independent bit-level model of CCSDS 133.0-B-2 4.1.3 (spverif/ref/ccsds.py)",
    "header setters (apid/seq_count assignment after construction) and the masking helper "
    "get_space_packet_id_bytes with out-of-range input are informational, not gating (DESIGN 4.5)",
]

# headers used literally by the repository's tests: trivial by rule
_TEST_CONST = {
    bytes.fromhex(h) for h in (
        "000100000000", "1801c0160006", "0802c0000000", "180100000000", "100100000000", "0001c0000000",
        "1022c0110000", "0822c0340016", "1802c0160016", "03ffc0340016", "000000000000")
}


def _imp():
    from spacepackets.ccsds import spacepacket as sp
    return sp


class _Bits:
    """48-bit toggle table per direction (turned into ctx tables at the end of the run)."""

    def __init__(self):
        self.ones = {"pack": 0, "unpack": 0}
        self.zeros = {"pack": 0, "unpack": 0}

    def see(self, direction, value48):
        self.ones[direction] |= value48
        self.zeros[direction] |= ~value48 & 0xFFFFFFFFFFFF

    def flush(self, ctx):
        for d in ("pack", "unpack"):
            for b in range(48):
                if self.ones[d] >> b & 1:
                    ctx.table(f"bit_seen_1_{d}", b)
                if self.zeros[d] >> b & 1:
                    ctx.table(f"bit_seen_0_{d}", b)


BITS = _Bits()


def _fields_of(h):
    return {"version": h.ccsds_version, "ptype": int(h.packet_type), "shf": int(bool(h.sec_header_flag)),
            "apid": h.apid, "flags": int(h.seq_flags), "count": h.seq_count, "length": h.data_len}


def _diff(a: dict, b: dict) -> str:
    return ",".join(k for k in a if a[k] != b.get(k))


# ------------------------------------------------------------------- kinds
def k_pack(ctx, version, ptype, shf, apid, flags, count, length, route="ctor"):
    sp = _imp()
    case = {"k": "pack", "version": version, "ptype": ptype, "shf": shf, "apid": apid, "flags": flags,
            "count": count, "length": length, "route": route}
    want = R.encode_header(version, ptype, shf, apid, flags, count, length)
    v48 = int.from_bytes(want, "big")
    BITS.see("pack", v48)
    ctx.case(f"pack/{route}", ("p", v48), nontrivial=want not in _TEST_CONST, sample=case)
    if route == "ctor":
        ok, h = attempt(sp.SpacePacketHeader, packet_type=sp.PacketType(ptype), apid=apid, seq_count=count,
                        data_len=length, sec_header_flag=bool(shf), seq_flags=sp.SequenceFlags(flags),
                        ccsds_version=version)
    else:
        ok, h = attempt(lambda: sp.SpacePacketHeader.from_composite_fields(
            sp.PacketId(sp.PacketType(ptype), bool(shf), apid), sp.PacketSeqCtrl(sp.SequenceFlags(flags), count),
            length, version))
    if not ctx.check("hdr.construct", ok, "in_range_refused", route, case, error=repr(h)):
        return
    ok, got = attempt(h.pack)
    if not ctx.check("hdr.pack", ok, "raised", exc_sig(got) if not ok else "", case, error=repr(got)):
        return
    got = bytes(got)
    if not ctx.check("hdr.pack", got == want, "octets", _diff(R.decode_header(got), R.decode_header(want))
                     if len(got) == 6 else f"len={len(got)}", case, expected=want, observed=got):
        return
    ctx.check("hdr.packet_len", h.packet_len == length + 7 and h.header_len == 6, "value", "", case,
              observed=h.packet_len)
    ctx.check("hdr.words", h.packet_id.raw() == R.packet_id_raw(ptype, shf, apid)
              and h.packet_seq_control.raw() == R.psc_raw(flags, count), "raw", "", case,
              observed=[h.packet_id.raw(), h.packet_seq_control.raw()])
    ok, h2 = attempt(sp.SpacePacketHeader.unpack, got)
    if ctx.check("hdr.roundtrip", ok, "unpack_raised", exc_sig(h2) if not ok else "", case, error=repr(h2)):
        f2 = _fields_of(h2)
        f1 = R.decode_header(want)
        ctx.check("hdr.roundtrip", f2 == f1, "field", _diff(f1, f2), case, expected=f1, observed=f2)
        ctx.check("hdr.roundtrip", h2 == h and h == h2, "eq", "", case)
        ctx.check("hdr.roundtrip", bytes(h2.pack()) == want, "repack", "", case)


def k_unpack(ctx, raw):
    sp = _imp()
    b = bytes.fromhex(raw) if isinstance(raw, str) else bytes(raw)
    case = {"k": "unpack", "raw": b.hex()}
    want = R.decode_header(b)
    v48 = int.from_bytes(b[:6], "big")
    BITS.see("unpack", v48)
    ctx.case("unpack/" + ("exact" if len(b) == 6 else "suffix"), ("u", v48), nontrivial=b[:6] not in _TEST_CONST,
             sample=case)
    ok, h = attempt(sp.SpacePacketHeader.unpack, b)
    if not ctx.check("hdr.unpack", ok, "raised", exc_sig(h) if not ok else "", case, error=repr(h)):
        return
    got = _fields_of(h)
    if not ctx.check("hdr.unpack", got == want, "field", _diff(want, got), case, expected=want, observed=got):
        return
    ctx.check("hdr.packet_len", h.packet_len == want["length"] + 7, "value", "", case, observed=h.packet_len)
    ok, p = attempt(h.pack)
    ctx.check("hdr.unpack", ok and bytes(p) == b[:6], "reencode", "", case, observed=p if ok else repr(p))
    ctx.check("hdr.apid_from_raw", sp.get_apid_from_raw_space_packet(b) == want["apid"], "value", "", case)


_ROUTES = ("ctor", "composite", "packet_id", "psc", "get_id_raw", "get_psc_raw")


def k_refuse(ctx, field, value, route):
    """Out-of-range APID / count / data length must raise ValueError on every constructor path."""
    sp = _imp()
    case = {"k": "refuse", "field": field, "value": value, "route": route}
    ctx.case(f"refuse/{field}/{route}", (field, value, route), sample=case)
    kw = dict(packet_type=sp.PacketType.TC, apid=5, seq_count=7, data_len=9)
    name = {"apid": "apid", "count": "seq_count", "length": "data_len"}[field]

    def build():
        if route == "ctor":
            kw[name] = value
            return sp.SpacePacketHeader(**kw).pack()
        if route == "composite":
            # composite route validates the composite objects themselves, so build them with the bad value
            pid = sp.PacketId(sp.PacketType.TC, False, value if field == "apid" else 5)
            psc = sp.PacketSeqCtrl(sp.SequenceFlags.UNSEGMENTED, value if field == "count" else 7)
            return sp.SpacePacketHeader.from_composite_fields(pid, psc, value if field == "length" else 9).pack()
        if route == "packet_id":
            return sp.PacketId(sp.PacketType.TM, True, value).raw()
        if route == "psc":
            return sp.PacketSeqCtrl(sp.SequenceFlags.FIRST_SEGMENT, value).raw()
        if route == "get_id_raw":
            return sp.get_sp_packet_id_raw(sp.PacketType.TM, True, value)
        if route == "get_psc_raw":
            return sp.get_sp_psc_raw(sp.SequenceFlags.UNSEGMENTED, value)
        raise AssertionError(route)

    ok, res = attempt(build)
    ctx.ev("hdr.refusal")
    if ok:
        ctx.fail("hdr.refusal", "accepted", f"{field}/{route}/{'neg' if value < 0 else 'big'}", case, observed=res)
    elif not isinstance(res, ValueError):
        ctx.fail("hdr.refusal", "wrong_error", f"{field}/{route}/{type(res).__name__}", case, error=repr(res))
    ctx.table("refusal_values", f"{field}:{'min-1' if value == -1 else 'max+1' if value in (2048, 16384, 65536) else 'far'}")


def k_words(ctx, which, raw):
    sp = _imp()
    case = {"k": "words", "which": which, "raw": raw}
    ctx.case(f"words/{which}", (which, raw), nontrivial=raw not in (0, 1, 0x1801, 0xC016), sample=case)
    if which == "pid":
        ok, o = attempt(sp.PacketId.from_raw, raw)
        if not ctx.check("pid.from_raw", ok, "raised", "", case, error=repr(o)):
            return
        want = ((raw >> 12) & 1, (raw >> 11) & 1, raw & 0x7FF)
        got = (int(o.ptype), int(bool(o.sec_header_flag)), o.apid)
        ctx.check("pid.from_raw", got == want, "field", "", case, expected=want, observed=got)
        ctx.check("pid.raw", o.raw() == raw & 0x1FFF, "value", "", case, observed=o.raw())
        ctx.check("pid.raw", sp.get_sp_packet_id_raw(o.ptype, o.sec_header_flag, o.apid) == raw & 0x1FFF, "helper",
                  "", case)
        ctx.check("pid.eq", o == sp.PacketId(sp.PacketType(want[0]), bool(want[1]), want[2]), "eq", "", case)
        b1, b2 = sp.get_space_packet_id_bytes(sp.PacketType(want[0]), bool(want[1]), want[2], version=(raw >> 13) & 7)
        ctx.check("pid.bytes", (b1 << 8 | b2) == raw & 0xFFFF, "value", "", case, observed=[b1, b2])
    else:
        ok, o = attempt(sp.PacketSeqCtrl.from_raw, raw)
        if not ctx.check("psc.from_raw", ok, "raised", "", case, error=repr(o)):
            return
        want = (raw >> 14, raw & 0x3FFF)
        got = (int(o.seq_flags), o.seq_count)
        ctx.check("psc.from_raw", got == want, "field", "", case, expected=want, observed=got)
        ctx.check("psc.raw", o.raw() == raw, "value", "", case, observed=o.raw())
        ctx.check("psc.raw", sp.get_sp_psc_raw(o.seq_flags, o.seq_count) == raw, "helper", "", case)
        ctx.check("psc.eq", o == sp.PacketSeqCtrl(sp.SequenceFlags(want[0]), want[1]), "eq", "", case)


def k_sp_pack(ctx, shf, sec, data, apid, count, version):
    """SpacePacket.pack: header | [secondary header] | [user data]; mandatory parts enforced."""
    sp = _imp()
    sec_b = None if sec is None else bytes.fromhex(sec)
    data_b = None if data is None else bytes.fromhex(data)
    case = {"k": "sp_pack", "shf": shf, "sec": sec, "data": data, "apid": apid, "count": count, "version": version}
    ctx.case(f"sp_pack/shf={shf}/sec={sec is not None}/data={data is not None}", (shf, sec, data, apid, count, version),
             sample=case)
    body = (sec_b or b"") + (data_b or b"")
    length = max(len(body) - 1, 0)
    h = sp.SpacePacketHeader(sp.PacketType.TM, apid, count, length, bool(shf), sp.SequenceFlags.UNSEGMENTED, version)
    ok, p = attempt(sp.SpacePacket(h, sec_b, data_b).pack)
    must_fail = (shf and sec_b is None) or (not shf and data_b is None)
    if must_fail:
        ctx.check("sp.pack", (not ok) and isinstance(p, ValueError), "mandatory_part_missing_accepted", "", case,
                  observed=repr(p))
        return
    if not ctx.check("sp.pack", ok, "raised", "", case, error=repr(p)):
        return
    want = R.encode_header(version, 0, shf, apid, 3, count, length) + (sec_b if shf else b"") + (data_b or b"")
    if not shf and sec_b is not None:
        # secondary header supplied but flag clear: the packer leaves it out
        pass
    ctx.check("sp.pack", bytes(p) == want, "octets", "", case, expected=want, observed=p)
    pkt = sp.SpacePacket(h, sec_b, data_b)
    ctx.check("sp.views", pkt.apid == apid and pkt.seq_count == count and bool(pkt.sec_header_flag) == bool(shf), "accessors", "", case)
    # equality: the same parts compare equal; a packet that differs in one header bit, in the secondary header or in the
    # user data does not; comparison with objects of other types is recorded as informational only
    twin = sp.SpacePacket(sp.SpacePacketHeader.unpack(bytes(p)), sec_b, data_b)
    ok, e = attempt(lambda: (pkt == twin) and (twin == pkt))
    ctx.check("sp.eq", ok and e is True, "equal_parts_compare_unequal", "", case, observed=repr(e))
    others = [sp.SpacePacket(sp.SpacePacketHeader(sp.PacketType.TM, apid ^ 1, count, length, bool(shf), sp.SequenceFlags.UNSEGMENTED, version), sec_b, data_b),
              sp.SpacePacket(sp.SpacePacketHeader(sp.PacketType.TM, apid, count ^ 0x2000, length, bool(shf), sp.SequenceFlags.UNSEGMENTED, version), sec_b, data_b),
              sp.SpacePacket(h, (sec_b or b"") + b"\x00", data_b), sp.SpacePacket(h, sec_b, (data_b or b"") + b"\x01")]
    for j, o in enumerate(others):
        ok, e = attempt(lambda: (pkt == o) or (o == pkt))
        ctx.check("sp.eq", ok and e is False, "different_packets_compare_equal", ("apid", "count", "sec_header", "user_data")[j], case, observed=repr(e))
    for a, foreign in ((pkt, bytes(p)), (h, bytes(p)[:6]), (h.packet_id, h.packet_id.raw()), (h.packet_seq_control, h.packet_seq_control.raw()), (h, None)):
        ok, e = attempt(lambda: a == foreign)
        if not (ok and e is False):      # not stated by the property: reported, never a violation
            ctx.note(f"{type(a).__name__} == <{type(foreign).__name__}> -> {e!r}")


def k_fresh_words(ctx, raw13, raw16):
    """PacketId.from_raw / PacketSeqCtrl.from_raw hand out fresh objects: changing a result does not change what the same
    conversion returns next time."""
    sp = _imp()
    case = {"k": "fresh_words", "raw13": raw13, "raw16": raw16}
    ctx.case("fresh_words", (raw13, raw16), sample=case)
    a = sp.PacketId.from_raw(raw13)
    a.apid ^= 1
    a.ptype = sp.PacketType(1 - int(a.ptype))
    a.sec_header_flag = not a.sec_header_flag
    b = sp.PacketId.from_raw(raw13)
    ctx.check("id.raw", b is not a and b.raw() == raw13, "from_raw_returned_a_shared_object", "packet_id", case, observed=b.raw())
    a.apid ^= 1
    a.ptype = sp.PacketType(1 - int(a.ptype))
    a.sec_header_flag = not a.sec_header_flag
    c = sp.PacketSeqCtrl.from_raw(raw16)
    c.seq_count ^= 1
    c.seq_flags = sp.SequenceFlags(int(c.seq_flags) ^ 1)
    d = sp.PacketSeqCtrl.from_raw(raw16)
    ctx.check("psc.raw", d is not c and d.raw() == raw16, "from_raw_returned_a_shared_object", "psc", case, observed=d.raw())
    c.seq_count ^= 1
    c.seq_flags = sp.SequenceFlags(int(c.seq_flags) ^ 1)


def k_composite_siblings(ctx, seed):
    """Two headers built from the same PacketId / PacketSeqCtrl objects (from_composite_fields): changing one header through
    its setters changes neither the other header nor the caller's id / sequence-control objects."""
    import random
    sp = _imp()
    r = random.Random(f"sib/{seed}")
    case = {"k": "composite_siblings", "seed": seed}
    ctx.case("composite_siblings", seed, sample=case)
    pid = sp.PacketId(sp.PacketType(r.getrandbits(1)), bool(r.getrandbits(1)), r.getrandbits(11))
    psc = sp.PacketSeqCtrl(sp.SequenceFlags(r.getrandbits(2)), r.getrandbits(14))
    w13, w16 = pid.raw(), psc.raw()
    length, ver = r.getrandbits(16), r.getrandbits(3)
    a = sp.SpacePacketHeader.from_composite_fields(pid, psc, length, ver)
    b = sp.SpacePacketHeader.from_composite_fields(pid, psc, length, ver)
    want = bytes(b.pack())
    ctx.check("hdr.pack", want == R.encode_header(ver, w13 >> 12, (w13 >> 11) & 1, w13 & 0x7FF, w16 >> 14, w16 & 0x3FFF, length), "octets", "composite", case, observed=want)
    for name, fn in r.sample([("apid", lambda: setattr(a, "apid", (a.apid + 1) & 0x7FF)), ("seq_count", lambda: setattr(a, "seq_count", (a.seq_count + 1) & 0x3FFF)),
                              ("seq_flags", lambda: setattr(a, "seq_flags", sp.SequenceFlags((int(a.seq_flags) + 1) & 3))),
                              ("sec_header_flag", lambda: setattr(a, "sec_header_flag", not a.sec_header_flag)),
                              ("packet_type", lambda: setattr(a, "packet_type", sp.PacketType(1 - int(a.packet_type))))], 3):
        fn()
        ctx.check("hdr.history", bytes(b.pack()) == want and pid.raw() == w13 and psc.raw() == w16, "setter_on_one_header_changed_a_sibling_or_the_callers_objects", name, case,
                  sibling=bytes(b.pack()), expected=want, caller_words=[pid.raw(), psc.raw()])


def k_hdr_history(ctx, seed):
    """One header object that is packed, compared and changed through its documented setters (in-range values) in any order:
    after every step pack() is the encoding of the current field values and decodes back to them."""
    import random
    sp = _imp()
    r = random.Random(f"hdrh/{seed}")
    case = {"k": "hdr_history", "seed": seed}
    ctx.case("hdr_history", seed, sample=case)
    f = {"version": r.getrandbits(3), "ptype": r.getrandbits(1), "shf": r.getrandbits(1), "apid": r.getrandbits(11), "flags": r.getrandbits(2), "count": r.getrandbits(14),
         "length": r.getrandbits(16)}
    h = sp.SpacePacketHeader(sp.PacketType(f["ptype"]), f["apid"], f["count"], f["length"], bool(f["shf"]), sp.SequenceFlags(f["flags"]), f["version"])
    if r.random() < 0.3:
        h = sp.SpacePacketHeader.unpack(bytes(h.pack()))
    trail = []
    for step in range(hist_len(r, 2, 10)):
        op = r.choice(("pack", "eq", "packet_type", "sec_header_flag", "apid", "seq_count", "seq_flags", "data_len", "pack"))
        trail.append(op)
        if op == "pack":
            h.pack()
        elif op == "eq":
            h == sp.SpacePacketHeader.unpack(bytes(h.pack()))
        elif op == "packet_type":
            f["ptype"] = r.getrandbits(1)
            h.packet_type = sp.PacketType(f["ptype"])
        elif op == "sec_header_flag":
            f["shf"] = r.getrandbits(1)
            h.sec_header_flag = bool(f["shf"])
        elif op == "apid":
            f["apid"] = r.getrandbits(11)
            h.apid = f["apid"]
        elif op == "seq_count":
            f["count"] = r.getrandbits(14)
            h.seq_count = f["count"]
        elif op == "seq_flags":
            f["flags"] = r.getrandbits(2)
            h.seq_flags = sp.SequenceFlags(f["flags"])
        else:
            f["length"] = r.getrandbits(16)
            h.data_len = f["length"]
        ctx.table("hdr_history_ops", op)
        want = R.encode_header(f["version"], f["ptype"], f["shf"], f["apid"], f["flags"], f["count"], f["length"])
        ok, got = attempt(lambda: bytes(h.pack()))
        if not ctx.check("hdr.history", ok and got == want, "pack_differs_from_current_fields", "after:" + (next((t for t in reversed(trail) if t not in ("pack", "eq")), "none")),
                         case, trail=trail, observed=got if ok else repr(got), expected=want):
            return
        u = sp.SpacePacketHeader.unpack(got)
        views = (int(h.packet_type), int(bool(h.sec_header_flag)), h.apid, int(h.seq_flags), h.seq_count, h.data_len, h.packet_len, h.packet_id.raw(), h.packet_seq_control.raw())
        exp = (f["ptype"], f["shf"], f["apid"], f["flags"], f["count"], f["length"], f["length"] + 7, (f["ptype"] << 12) | (f["shf"] << 11) | f["apid"], (f["flags"] << 14) | f["count"])
        if not ctx.check("hdr.history", views == exp and u == h and h == u, "views_or_equality_differ_from_current_fields", "", case, trail=trail, observed=repr(views), expected=repr(exp)):
            return


KINDS = {"composite_siblings": k_composite_siblings, "fresh_words": k_fresh_words, "hdr_history": k_hdr_history, "pack": k_pack, "unpack": k_unpack, "refuse": k_refuse, "words": k_words, "sp_pack": k_sp_pack}


# ---------------------------------------------------------------- workload
def selftest(ctx):
    n = 0
    assert R.encode_header(0, 1, 1, 1, 3, 22, 6).hex() == "1801c0160006"
    assert R.encode_header(0, 1, 0, 0x22, 3, 17, 0)[:4].hex() == "1022c011"
    assert R.encode_header(0, 1, 0, 1, 3, 0, 0).hex() == "1001c0000000"
    n += 3
    r = ctx.rng
    for _ in range(2000):
        v = r.getrandbits(48).to_bytes(6, "big")
        d = R.decode_header(v)
        assert R.encode_header(**d) == v
        n += 1
    ctx.selftest["ref.ccsds golden+roundtrip"] = n


def _from48(v):
    return R.decode_header(v.to_bytes(6, "big"))


def run(ctx):
    from spverif.ref import enums as _enums
    if ctx.shard[0] == 0:
        _enums.check(ctx, "code_tables", ['spacepackets.ccsds.spacepacket'])
    from spverif.san import scribble
    scribble.install()
    r = ctx.rng
    # 1. exhaustive over each 16-bit word, both directions, other words random
    for word in range(3):
        for w in range(65536):
            if not ctx.mine(w):
                continue
            other = r.getrandbits(48)
            shift = (2 - word) * 16
            v = (other & ~(0xFFFF << shift) & 0xFFFFFFFFFFFF) | (w << shift)
            d = _from48(v)
            k_pack(ctx, route="ctor" if w & 1 else "composite", **d)
            suffix = b"" if w % 3 else r.randbytes(r.randrange(1, 9))
            k_unpack(ctx, v.to_bytes(6, "big") + suffix)
    ctx.exhaustive.append("each 16-bit header word x {pack, unpack}, other words random")
    # 2. walking ones / zeros over 48 bits
    for b in range(48):
        for v in (1 << b, 0xFFFFFFFFFFFF ^ (1 << b)):
            k_pack(ctx, **_from48(v))
            k_unpack(ctx, v.to_bytes(6, "big"))
    for v in (0, 0xFFFFFFFFFFFF):
        k_pack(ctx, **_from48(v))
        k_unpack(ctx, v.to_bytes(6, "big"))
    # 3. all 13-bit packet ids (with version bits) and all 16-bit psc words
    for raw in range(65536):
        if ctx.mine(raw):
            k_words(ctx, "pid", raw)
            k_words(ctx, "psc", raw)
    ctx.exhaustive.append("all 2^16 packet-id(+version) words and all 2^16 sequence-control words")
    # 4. random 48-bit values with random suffixes
    for _ in range(ctx.n(30_000, 3_000_000)):
        v = r.getrandbits(48)
        k_pack(ctx, route=r.choice(("ctor", "composite")), **_from48(v))
        k_unpack(ctx, v.to_bytes(6, "big") + r.randbytes(r.choice((0, 0, 1, 2, 7, 60))))
    # 5. boundary pools per field
    for apid in pool_uint(11):
        for count in (0, 1, 0x2000, 0x3FFF):
            k_pack(ctx, 0, 1, 0, apid, 3, count, 0xFFFF)
    for count in pool_uint(14):
        k_pack(ctx, 7, 0, 1, 0x7FF, 0, count, 0)
    for length in pool_uint(16):
        k_pack(ctx, 5, 1, 1, 0x400, 2, 0x2AAA, length)
    # 6. refusals
    bad = {"apid": (-2 ** 31, -1, 2048, 2049, 65536, 2 ** 31, 2 ** 63),
           "count": (-2 ** 31, -1, 16384, 16385, 65536, 2 ** 31, 2 ** 63),
           "length": (-2 ** 31, -1, 65536, 65537, 2 ** 31, 2 ** 63)}
    routes = {"apid": ("ctor", "composite", "packet_id", "get_id_raw"),
              "count": ("ctor", "composite", "psc", "get_psc_raw"),
              "length": ("ctor", "composite")}
    for field, vals in bad.items():
        for v in vals:
            for route in routes[field]:
                k_refuse(ctx, field, v, route)
    # 7. SpacePacket.pack
    for shf in (0, 1):
        for sec in (None, "", "2011010000", "aa"):
            for data in (None, "", "00", "0102030405"):
                k_sp_pack(ctx, shf, sec if shf or sec is None else None, data, r.getrandbits(11), r.getrandbits(14),
                          r.getrandbits(3))
    for j in range(ctx.n(400, 40_000)):
        k_composite_siblings(ctx, ctx.seed * 1_000_003 + ctx.shard[0] * 100_003 + j)
    for j in range(ctx.n(400, 40_000)):
        k_fresh_words(ctx, r.getrandbits(13), r.getrandbits(16))
    # octet strings the code under test itself holds (markers, masks, tables) and well-known link markers, as the start of a header
    from spverif.core.util import harvested_constants
    consts = harvested_constants()
    ctx.extra["harvested_constants"] = len(consts)
    for c in consts:
        for pad in (b"", bytes(8), r.randbytes(8)):
            raw = (c + pad + r.randbytes(6))[:max(6, len(c) + len(pad))]
            if len(raw) >= 6:
                k_unpack(ctx, raw.hex())
                ctx.table("constants_as_header_start", "cases")
    for j in range(ctx.n(3000, 200_000)):
        k_hdr_history(ctx, ctx.seed * 1_000_003 + ctx.shard[0] * 100_003 + j)
    # informational: setters and the masking helper
    sp = _imp()
    h = sp.SpacePacketHeader(sp.PacketType.TM, 1, 1, 1)
    h.apid = 4096
    ok, p = attempt(h.pack)
    ctx.note("setter apid=4096 then pack: " + ("encoded " + bytes(p).hex() if ok else type(p).__name__))
    BITS.flush(ctx)


def conclude(ctx):
    ctx.require(ctx.extra.get("hostile_caller_scribbled_pack_results", 0) > 0, "hostile-caller sanitizer scribbled no pack() result")
    for t in ("bit_seen_1_pack", "bit_seen_0_pack", "bit_seen_1_unpack", "bit_seen_0_unpack"):
        ctx.require(len(ctx.tables.get(t, {})) == 48, f"bit toggle table {t} incomplete")
    for m in ("hdr.pack", "hdr.unpack", "hdr.roundtrip", "hdr.refusal", "pid.from_raw", "psc.from_raw", "sp.pack",
              "hdr.packet_len"):
        ctx.require(ctx.monitors.get(m, {}).get("evaluations", 0) > 0, f"monitor {m} never evaluated")
    for f in ("apid", "count", "length"):
        for c in ("min-1", "max+1", "far"):
            ctx.require(ctx.tables.get("refusal_values", {}).get(f"{f}:{c}", 0) > 0, f"refusal class {f}:{c} empty")
    ctx.require(len(ctx.distinct) > 10_000, "fewer than 10000 distinct non-trivial headers")
