"""C18 - reserved CFDP messages (proxy, directory, originating id) round-trip via message-to-user TLVs."""
from __future__ import annotations

import itertools
import json

from spverif.core.util import attempt, exc_sig, rand_bytes, rand_uint, rand_name, hist_len
from spverif.ref import cfdp as R
from . import _cfdp as C

SCRIBBLE = True
THOROUGH_SCALE = 16
ID = "C18"
LEVEL = "exploration"
SHARDS = {"quick": 1, "thorough": 8}
RULE = ("cases = parameter tuples of the 9 reserved message kinds (entity-id widths {1,2,4,8}, sequence-number widths {1,2,4,8}, every "
        "condition code / delivery code / file status / transmission mode / flag value, names of 0..250 octets incl. multi-octet UTF-8, "
        "totals above 255 octets refused) and arbitrary message-to-user contents for the negative clause (all strings of length 0..6 over "
        "a 7-symbol alphabet {c,f,d,p,00,80,ff}, random binary, near misses); non-trivial = not the 1-octet-id / short-name instance of "
        "tests/cfdp/tlvslvs/test_reserved_cfdp_msg.py; distinct = distinct (kind, parameters) / content")
TRUSTED = ["CPython 3.12", "spverif.ref.cfdp (tlv, lv, reserved_message, is_reserved)"]
ASSUMPTIONS = ["oracle = CCSDS 727.0-B-5 6.1/6.2 message layouts written out in spverif/props/c18.py:ref_fields",
               "get_* accessors on reserved messages whose content is malformed for their own type are informational (outside the property)"]
KINDS9 = ("put_request", "put_response", "put_cancel", "closure_request", "transmission_mode", "originating_id", "listing_request", "listing_response", "listing_options")
MSG_TYPE = {"put_request": 0x00, "put_response": 0x07, "put_cancel": 0x09, "closure_request": 0x0B, "transmission_mode": 0x04, "originating_id": 0x0A,
            "listing_request": 0x10, "listing_response": 0x11, "listing_options": 0x15}
GETTER = {"put_request": "get_proxy_put_request_params", "put_response": "get_proxy_put_response_params", "closure_request": "get_proxy_closure_requested",
          "transmission_mode": "get_proxy_transmission_mode", "originating_id": "get_originating_transaction_id", "listing_request": "get_dir_listing_request_params",
          "listing_response": "get_dir_listing_response_params", "listing_options": "get_dir_listing_options"}


def ref_fields(kind, p) -> bytes:
    if kind == "put_request":
        return R.lv(p["dest_id"][1].to_bytes(p["dest_id"][0], "big")) + R.lv(p["src"].encode()) + R.lv(p["dst"].encode())
    if kind == "put_response":
        return bytes([(p["cond"] << 4) | (p["delivery"] << 2) | p["status"]])
    if kind == "put_cancel":
        return b""
    if kind == "closure_request":
        return bytes([p["closure"]])
    if kind == "transmission_mode":
        return bytes([p["mode"]])
    if kind == "originating_id":
        return bytes([((p["src"][0] - 1) << 4) | (p["seq"][0] - 1)]) + p["src"][1].to_bytes(p["src"][0], "big") + p["seq"][1].to_bytes(p["seq"][0], "big")
    if kind == "listing_request":
        return R.lv(p["path"].encode()) + R.lv(p["file"].encode())
    if kind == "listing_response":
        return bytes([p["success"] << 7]) + R.lv(p["path"].encode()) + R.lv(p["file"].encode())
    if kind == "listing_options":
        return bytes([(p["recursive"] << 1) | p["all"]])
    raise AssertionError(kind)


def build(kind, p):
    X = C.lib()
    from spacepackets.cfdp import tlv as T
    from spacepackets.cfdp.defs import TransactionId, TransmissionMode, ConditionCode, DeliveryCode, FileStatus
    bf = X.ByteFieldGenerator.from_int
    if kind == "put_request":
        return T.ProxyPutRequest(T.ProxyPutRequestParams(bf(*p["dest_id"]), X.CfdpLv.from_str(p["src"]), X.CfdpLv.from_str(p["dst"])))
    if kind == "put_response":
        return T.ProxyPutResponse(T.ProxyPutResponseParams(ConditionCode(p["cond"]), DeliveryCode(p["delivery"]), FileStatus(p["status"])))
    if kind == "put_cancel":
        return T.ProxyCancelRequest()
    if kind == "closure_request":
        return T.ProxyClosureRequest(bool(p["closure"]))
    if kind == "transmission_mode":
        return T.ProxyTransmissionMode(TransmissionMode(p["mode"]))
    if kind == "originating_id":
        return T.OriginatingTransactionId(TransactionId(bf(*p["src"]), bf(*p["seq"])))
    if kind == "listing_request":
        return T.DirectoryListingRequest(T.DirectoryParams.from_strs(p["path"], p["file"]))
    if kind == "listing_response":
        return T.DirectoryListingResponse(bool(p["success"]), T.DirectoryParams.from_strs(p["path"], p["file"]))
    if kind == "listing_options":
        return T.DirectoryListingParameters(T.DirListingOptions(bool(p["recursive"]), bool(p["all"])))
    raise AssertionError(kind)


def read_back(kind, v):
    """Getter result -> canonical parameter dict."""
    if kind == "put_request":
        return {"dest_id": [v.dest_entity_id.byte_len, v.dest_entity_id.value], "src": v.source_file_as_str, "dst": v.dest_file_as_str}
    if kind == "put_response":
        return {"cond": int(v.condition_code), "delivery": int(v.delivery_code), "status": int(v.file_status)}
    if kind == "closure_request":
        return {"closure": int(bool(v))} if v in (0, 1, True, False) else {"closure": repr(v)}
    if kind == "transmission_mode":
        return {"mode": int(v)}
    if kind == "originating_id":
        return {"src": [v.source_id.byte_len, v.source_id.value], "seq": [v.seq_num.byte_len, v.seq_num.value]}
    if kind == "listing_request":
        return {"path": v.dir_path_as_str, "file": v.dir_file_name_as_str}
    if kind == "listing_response":
        return {"success": int(bool(v[0])), "path": v[1].dir_path_as_str, "file": v[1].dir_file_name_as_str}
    if kind == "listing_options":
        return {"recursive": int(bool(v.recursive)), "all": int(bool(v.all))}
    raise AssertionError(kind)


def k_msg(ctx, kind, p):
    X = C.lib()
    case = {"k": "msg", "kind": kind, "p": p}
    ctx.case(f"msg/{kind}", (kind, json.dumps(p, sort_keys=True)), sample=case if len(json.dumps(p)) < 400 else None)
    fields = ref_fields(kind, p)
    too_long = 5 + len(fields) > 255
    ok, m = attempt(build, kind, p)
    if too_long:
        ctx.check("msg.long_refused", (not ok) and isinstance(m, ValueError), "over_255_octets_accepted_or_wrong_error", kind, case, observed=repr(m)[:200])
        return
    if not ctx.check("msg.pack", ok, "construct_raised", f"{kind}/" + (exc_sig(m) if not ok else ""), case, error=repr(m)):
        return
    want = R.reserved_message(MSG_TYPE[kind], fields)
    ok, raw = attempt(m.pack)
    if not ctx.check("msg.pack", ok and bytes(raw) == want, "octets", kind, case, expected=want[:80], observed=bytes(raw)[:80] if ok else repr(raw)):
        return
    ctx.check("msg.pack", m.packet_len == len(want) and int(m.tlv_type) == 2 and bytes(m.value) == want[2:], "views", kind, case)
    for sfx in (b"", b"\x02\x03abc"):
        ok, t = attempt(X.MessageToUserTlv.unpack, want + sfx)
        if not ctx.check("msg.decode", ok, "unpack_raised", f"{kind}/" + (exc_sig(t) if not ok else ""), case, error=repr(t)):
            return
        ok, isr = attempt(t.is_reserved_cfdp_message)
        if not ctx.check("msg.decode", ok and isr is True, "not_recognised_as_reserved", kind, case, observed=repr(isr)):
            return
        ok, rm = attempt(t.to_reserved_msg_tlv)
        if not ctx.check("msg.decode", ok and rm is not None, "to_reserved_failed", kind, case, error=repr(rm)):
            return
        _check_reserved(ctx, kind, p, rm, case, "decoded")
    _check_reserved(ctx, kind, p, m, case, "built")
    ok, g = attempt(lambda: m.to_generic_msg_to_user_tlv())
    ctx.check("msg.decode", ok and bytes(g.pack()) == want and g.is_reserved_cfdp_message() is True, "to_generic", kind, case)
    ok, raw2 = attempt(m.pack)
    ctx.check("msg.pack", ok and bytes(raw2) == want, "second_pack_differs", kind, case, observed=bytes(raw2)[:80] if ok else repr(raw2))
    # The same message with the last 1..n octets of its fields missing (a damaged message-to-user TLV, self-consistent as a TLV):
    # a parameter reader may refuse it; if it returns parameters they must be the ones these octets encode - widths included -
    # i.e. the reference encoding of what was returned reproduces exactly the octets that were there (nothing invented, nothing
    # taken from a field of another width)
    if kind in GETTER and fields:
        for missing in sorted({1, 2, 3, len(fields) // 2, len(fields) - 1, len(fields)} - {0}):
            if missing > len(fields):
                continue
            part = fields[:len(fields) - missing]
            ok, rm = attempt(lambda: X.MessageToUserTlv.unpack(R.reserved_message(MSG_TYPE[kind], part)).to_reserved_msg_tlv())
            if not ok or rm is None:
                ctx.table("truncated_message_reader", f"{kind}:not_reserved_or_refused_early")
                continue
            ok, v = attempt(getattr(rm, GETTER[kind]))
            ctx.ev("msg.truncated_getters")
            if not ok or v is None:
                ctx.table("truncated_message_reader", f"{kind}:{'none' if ok else type(v).__name__}")
                continue
            ok2, back = attempt(lambda: ref_fields(kind, read_back(kind, v)))
            ctx.table("truncated_message_reader", f"{kind}:returned")
            ctx.check("msg.truncated_getters", ok2 and back == part, "parameters_returned_for_a_truncated_message_are_not_what_its_octets_encode", kind, dict(case, missing=missing),
                      octets_present=part, returned=repr(v)[:200], reference_encoding_of_returned=back if ok2 else repr(back))
    if kind in ("put_request", "listing_request", "listing_response"):
        # the same parameter object (and the LV objects inside it) used for further messages, as an application re-using names would
        from spacepackets.cfdp import tlv as T
        ok, prm = attempt(getattr(m, GETTER[kind]))
        if ok and prm is not None:
            prm = prm[1] if kind == "listing_response" else prm
            if kind == "put_request":
                again = [("put_request", lambda: T.ProxyPutRequest(prm), (0x00, fields)),
                         ("listing_request", lambda: T.DirectoryListingRequest(T.DirectoryParams(prm.source_file_name, prm.dest_file_name)),
                          (0x10, R.lv(p["src"].encode()) + R.lv(p["dst"].encode())))]
            else:
                again = [("listing_request", lambda: T.DirectoryListingRequest(prm), (0x10, R.lv(p["path"].encode()) + R.lv(p["file"].encode()))),
                         ("listing_response", lambda: T.DirectoryListingResponse(True, prm), (0x11, b"\x80" + R.lv(p["path"].encode()) + R.lv(p["file"].encode())))]
            for k2, fn, (mt2, f2) in again:
                if 5 + len(f2) > 255:
                    continue
                w2 = R.reserved_message(mt2, f2)
                ok, r2 = attempt(lambda: bytes(fn().pack()))
                ctx.check("msg.pack", ok and r2 == w2, "octets_when_parameter_objects_are_reused", f"{kind}->{k2}", case, expected=w2[:80], observed=r2[:80] if ok else repr(r2))


def _check_reserved(ctx, kind, p, rm, case, origin):
    proxy_types = {0x00, 0x01, 0x02, 0x03, 0x04, 0x05, 0x06, 0x07, 0x08, 0x09, 0x0B}
    mt = MSG_TYPE[kind]
    ok, cl = attempt(lambda: (rm.get_reserved_cfdp_message_type(), rm.is_cfdp_proxy_operation(), rm.is_directory_operation(), rm.is_originating_transaction_id(),
                              None if rm.get_cfdp_proxy_message_type() is None else int(rm.get_cfdp_proxy_message_type()),
                              None if rm.get_directory_operation_type() is None else int(rm.get_directory_operation_type())))
    exp = (mt, mt in proxy_types, mt in (0x10, 0x11, 0x15), mt == 0x0A, mt if mt in proxy_types else None, mt if mt in (0x10, 0x11, 0x15) else None)
    ctx.check("msg.classification", ok and cl == exp, "differs", f"{kind}/{origin}", case, observed=repr(cl), expected=exp)
    for k2, getter in GETTER.items():
        ok, v = attempt(getattr(rm, getter))
        ctx.ev("msg.getters")
        if k2 == kind:
            if not ok or v is None:
                ctx.fail("msg.getters", "matching_getter_failed", f"{kind}/{origin}/" + (exc_sig(v) if not ok else "None"), case, error=repr(v))
                continue
            ok2, got = attempt(read_back, kind, v)
            if not ok2 or got != p:
                ctx.fail("msg.getters", "parameters_differ", f"{kind}/{origin}/" + (C.diff_keys(got, p) if ok2 else exc_sig(got)), case, observed=got if ok2 else repr(got), expected=p)
                continue
            # the pathlib conveniences say what the string accessors say
            if kind in ("listing_request", "listing_response", "put_request"):
                from pathlib import Path
                pv = v[1] if kind == "listing_response" and isinstance(v, tuple) else v
                pairs = (("dir_path_as_path", "dir_path_as_str"), ("dir_file_name_as_path", "dir_file_name_as_str")) if kind != "put_request" else \
                        (("source_file_as_path", "source_file_as_str"), ("dest_file_as_path", "dest_file_as_str"))
                for a_path, a_str in pairs:
                    ok4, e4 = attempt(lambda: (getattr(pv, a_path), getattr(pv, a_str)))
                    ctx.check("msg.getters", ok4 and e4[0] == Path(e4[1]), "path_accessor_differs_from_string_accessor", f"{kind}/{a_path}", case, observed=repr(e4))
            if kind in ("originating_id", "put_request", "put_response", "listing_request", "listing_options"):
                # the parameter objects themselves compare equal to the ones the message was built from
                orig = _orig_params(kind, p)
                ok3, e = attempt(lambda: (v == orig) and (orig == v))
                ctx.check("msg.getters", ok3 and e is True, "parameter_object_not_equal_to_original", f"{kind}/{origin}", case, observed=repr(e))
                if kind == "originating_id":
                    ctx.check("msg.getters", hash(v) == hash(orig) and {orig: 1}.get(v) == 1, "transaction_id_hash_differs", origin, case)
                    # the same numbers carried in other widths: whatever equality says about the pair, the hash agrees with it
                    from spacepackets.cfdp.defs import TransactionId
                    bf = C.lib().ByteFieldGenerator.from_int
                    for w1 in C.WIDTHS:
                        for w2 in C.WIDTHS:
                            if p["src"][1] < 1 << 8 * w1 and p["seq"][1] < 1 << 8 * w2 and (w1, w2) != (p["src"][0], p["seq"][0]):
                                twin = TransactionId(bf(w1, p["src"][1]), bf(w2, p["seq"][1]))
                                ok5, e5 = attempt(lambda: (v == twin, twin == v, hash(v) == hash(twin)))
                                ctx.check("msg.getters", ok5 and e5[0] == e5[1] and (not e5[0] or e5[2]), "equal_transaction_ids_hash_differently", origin, case, observed=repr(e5), widths=[w1, w2])
            # hostile caller: the parameter object that was handed out is overwritten (it is the caller's now); the next decode of the
            # same octets - k_msg decodes every message twice - must hand out the parameters in the octets again
            _scribble_params(ctx, v)
        else:
            if not ok:
                ctx.fail("msg.getters", "foreign_getter_raised", f"{k2}_on_{kind}/{exc_sig(v)}", case, error=repr(v))
            elif v is not None:
                ctx.fail("msg.getters", "foreign_getter_returned_value", f"{k2}_on_{kind}", case, observed=repr(v))


def _scribble_params(ctx, v):
    X = C.lib()
    for o in (v if isinstance(v, tuple) else (v,)):
        d = getattr(o, "__dict__", None)
        if not d:
            continue
        for name, a in list(d.items()):
            try:
                if isinstance(a, X.CfdpLv):
                    a.value = b"\xde\xad"                       # the LV object itself ...
                    setattr(o, name, X.CfdpLv(b"scribbled"))    # ... and the attribute that held it
                elif hasattr(a, "byte_len") and hasattr(a, "value"):
                    a.value = (a.value ^ 1) & ((1 << 8 * a.byte_len) - 1) if a.byte_len else a.value
                elif isinstance(a, bool):
                    setattr(o, name, not a)
                elif isinstance(a, int):
                    setattr(o, name, type(a)((int(a) + 1) % 2) if not isinstance(a, bool) and type(a) is not int else a + 1)
                ctx.extra["hostile_caller_scribbled_parameter_attributes"] = ctx.extra.get("hostile_caller_scribbled_parameter_attributes", 0) + 1
            except Exception:  # noqa: BLE001 - frozen / validated attributes: nothing to scribble
                pass


def _orig_params(kind, p):
    X = C.lib()
    from spacepackets.cfdp import tlv as T
    from spacepackets.cfdp.defs import TransactionId, ConditionCode, DeliveryCode, FileStatus
    bf = X.ByteFieldGenerator.from_int
    if kind == "originating_id":
        return TransactionId(bf(*p["src"]), bf(*p["seq"]))
    if kind == "put_request":
        return T.ProxyPutRequestParams(bf(*p["dest_id"]), X.CfdpLv.from_str(p["src"]), X.CfdpLv.from_str(p["dst"]))
    if kind == "put_response":
        fp = X.FinishedParams(ConditionCode(p["cond"]), DeliveryCode(p["delivery"]), FileStatus(p["status"]))
        return T.ProxyPutResponseParams.from_finished_params(fp)
    if kind == "listing_request":
        return T.DirectoryParams.from_strs(p["path"], p["file"])
    if kind == "listing_options":
        return T.DirListingOptions(bool(p["recursive"]), bool(p["all"]))
    raise AssertionError(kind)


def k_not_reserved(ctx, content):
    X = C.lib()
    v = bytes.fromhex(content)
    case = {"k": "not_reserved", "content": content}
    want = R.is_reserved(v)
    ctx.case("classify/" + ("reserved" if want else "other"), v, sample=case if len(v) < 24 else None)
    for route, mk in (("ctor", lambda: X.MessageToUserTlv(v)), ("unpack", lambda: X.MessageToUserTlv.unpack(R.tlv(2, v)))):
        ok, t = attempt(mk)
        if not ok:
            ctx.check("classify", False, "construct_raised", route, case, error=repr(t))
            continue
        ok, res = attempt(t.is_reserved_cfdp_message)
        ctx.ev("classify")
        if not ok:
            ctx.fail("classify", "raised", exc_sig(res), case, error=repr(res))
        elif res is not want:
            ctx.fail("classify", "wrong_answer", f"expected={want}", case, observed=repr(res))
        ok, rm = attempt(t.to_reserved_msg_tlv)
        ctx.ev("classify")
        if not ok:
            ctx.fail("classify", "to_reserved_raised", exc_sig(rm), case, error=repr(rm))
        elif (rm is not None) != want:
            ctx.fail("classify", "to_reserved_wrong", f"expected={'object' if want else 'None'}", case)


def k_field_reuse(ctx, seed):
    """Entity-id / sequence-number field objects that an application keeps and advances in place (field.value = n) between
    messages: every originating-id and proxy-put-request message built from them carries the value they hold at that moment."""
    import random
    X = C.lib()
    from spacepackets.cfdp import tlv as T
    from spacepackets.cfdp.defs import TransactionId
    r = random.Random(f"fieldreuse/{seed}")
    case = {"k": "field_reuse", "seed": seed}
    ctx.case("field_reuse", seed, sample=case)
    a, b = r.choice(C.WIDTHS), r.choice(C.WIDTHS)
    va, vb = rand_uint(r, 8 * a), rand_uint(r, 8 * b)
    fa, fb = X.ByteFieldGenerator.from_int(a, va), X.ByteFieldGenerator.from_int(b, vb)
    trail = []
    for rnd in range(hist_len(r, 2, 6)):
        if rnd:
            for which in ("a", "b"):
                if r.random() < 0.7:
                    how = r.choice(("int", "bytes"))
                    if which == "a":
                        va = rand_uint(r, 8 * a)
                        fa.value = va if how == "int" else va.to_bytes(a, "big")
                    else:
                        vb = rand_uint(r, 8 * b)
                        fb.value = vb if how == "int" else vb.to_bytes(b, "big")
                    trail.append(f"{which}.value={how}")
        kind = r.choice(("originating_id", "put_request"))
        if kind == "originating_id":
            p = {"src": [a, va], "seq": [b, vb]}
            mk = lambda: T.OriginatingTransactionId(TransactionId(fa, fb))  # noqa: E731
        else:
            p = {"dest_id": [a, va], "src": "x.bin", "dst": "y"}
            mk = lambda: T.ProxyPutRequest(T.ProxyPutRequestParams(fa, X.CfdpLv.from_str("x.bin"), X.CfdpLv.from_str("y")))  # noqa: E731
        want = R.reserved_message(MSG_TYPE[kind], ref_fields(kind, p))
        ok, raw = attempt(lambda: bytes(mk().pack()))
        if not ctx.check("msg.pack", ok and raw == want, "octets_when_field_objects_are_updated_in_place", kind, dict(case, round=rnd), trail=trail,
                         expected=want, observed=raw if ok else repr(raw)):
            return
        ok, rm = attempt(lambda: X.MessageToUserTlv.unpack(raw).to_reserved_msg_tlv())
        ok2, got = attempt(lambda: read_back(kind, getattr(rm, GETTER[kind])())) if ok else (False, rm)
        if not ctx.check("msg.getters", ok2 and got == p, "parameters_differ", f"{kind}/field_reuse", dict(case, round=rnd), trail=trail, observed=repr(got), expected=p):
            return


KINDS = {"field_reuse": k_field_reuse, "msg": k_msg, "not_reserved": k_not_reserved}


def rand_msg(r, kind):
    name = lambda m: rand_name(r, m)  # noqa: E731
    if kind == "put_request":
        w = r.choice(C.WIDTHS)
        return {"dest_id": [w, rand_uint(r, 8 * w)], "src": name(r.choice((0, 5, 40, 120))), "dst": name(r.choice((0, 5, 40, 120)))}
    if kind == "put_response":
        return {"cond": r.choice(C.CONDS), "delivery": r.getrandbits(1), "status": r.getrandbits(2)}
    if kind == "put_cancel":
        return {}
    if kind == "closure_request":
        return {"closure": r.getrandbits(1)}
    if kind == "transmission_mode":
        return {"mode": r.getrandbits(1)}
    if kind == "originating_id":
        a, b = r.choice(C.WIDTHS), r.choice(C.WIDTHS)
        global _LAST_ORIG
        if _LAST_ORIG is not None and r.random() < 0.15:
            # numeric twin of the id generated before: same numbers, other widths
            v1, v2 = _LAST_ORIG
            a = r.choice([w for w in C.WIDTHS if v1 < 1 << 8 * w])
            b = r.choice([w for w in C.WIDTHS if v2 < 1 << 8 * w])
        else:
            v1, v2 = rand_uint(r, 8 * a), rand_uint(r, 8 * b)
        _LAST_ORIG = (v1, v2)
        return {"src": [a, v1], "seq": [b, v2]}
    if kind == "listing_request":
        return {"path": name(r.choice((0, 5, 40, 120))), "file": name(r.choice((0, 5, 40, 120)))}
    if kind == "listing_response":
        return {"success": r.getrandbits(1), "path": name(r.choice((0, 5, 40, 120))), "file": name(r.choice((0, 5, 40, 120)))}
    if kind == "listing_options":
        return {"recursive": r.getrandbits(1), "all": r.getrandbits(1)}
    raise AssertionError(kind)


_LAST_ORIG = None


def k_paths(ctx, path, file):
    """Directory parameters built from pathlib paths: the names are the string forms of the paths."""
    from pathlib import Path
    from spacepackets.cfdp import tlv as T
    X = C.lib()
    case = {"k": "paths", "path": path, "file": file}
    ctx.case("paths", (path, file), sample=case)
    ok, dp = attempt(T.DirectoryParams.from_paths, Path(path), Path(file))
    sp_, sf_ = str(Path(path)), str(Path(file))
    if not ctx.check("msg.paths", ok, "from_paths_raised", exc_sig(dp) if not ok else "", case, error=repr(dp)):
        return
    ctx.check("msg.paths", bytes(dp.dir_path.value) == sp_.encode() and bytes(dp.dir_file_name.value) == sf_.encode() and dp == T.DirectoryParams.from_strs(sp_, sf_)
              and dp.dir_path_as_path == Path(path) and dp.dir_file_name_as_path == Path(file), "from_paths_differs_from_string_form", "", case,
              observed=[bytes(dp.dir_path.value), bytes(dp.dir_file_name.value)])
    ok, lv = attempt(X.CfdpLv.from_path, Path(path))
    ctx.check("msg.paths", ok and bytes(lv.value) == sp_.encode() and bytes(lv.pack()) == R.lv(sp_.encode()), "lv_from_path", "", case)
    ok, raw = attempt(lambda: bytes(T.DirectoryListingRequest(dp).pack()))
    ctx.check("msg.paths", ok and raw == R.reserved_message(0x10, R.lv(sp_.encode()) + R.lv(sf_.encode())), "listing_request_from_paths", "", case, observed=raw if ok else repr(raw))


KINDS["paths"] = k_paths


def selftest(ctx):
    assert R.reserved_message(0x09, b"").hex() == "020563666470" + "09"
    assert R.is_reserved(b"cfdp\x00") and not R.is_reserved(b"cfdp") and not R.is_reserved(b"cfdq\x00") and not R.is_reserved(b"\xff\xfe\x00\x01\x02")
    ctx.selftest["ref reserved message marker"] = 5


def run(ctx):
    from spverif.ref import enums as _enums
    if ctx.shard[0] == 0:
        _enums.check(ctx, "code_tables", ['spacepackets.cfdp.tlv.defs.ProxyMessageType', 'spacepackets.cfdp.tlv.defs.DirectoryOperationMessageType', 'spacepackets.cfdp.defs.ConditionCode', 'spacepackets.cfdp.defs.DeliveryCode', 'spacepackets.cfdp.defs.FileStatus', 'spacepackets.cfdp.defs.TransmissionMode'])
    from spverif.san import scribble
    scribble.install()
    r = ctx.rng
    # enumerations
    for cond in C.CONDS:
        for dl in (0, 1):
            for st in range(4):
                k_msg(ctx, "put_response", {"cond": cond, "delivery": dl, "status": st})
    for v in (0, 1):
        k_msg(ctx, "closure_request", {"closure": v})
        k_msg(ctx, "transmission_mode", {"mode": v})
        for w in (0, 1):
            k_msg(ctx, "listing_options", {"recursive": v, "all": w})
    k_msg(ctx, "put_cancel", {})
    for a in C.WIDTHS:
        for b in C.WIDTHS:
            for _ in range(3 if ctx.quick else 20):
                k_msg(ctx, "originating_id", {"src": [a, rand_uint(r, 8 * a)], "seq": [b, rand_uint(r, 8 * b)]})
        for n1 in (0, 1, 17, 100):
            for n2 in (0, 1, 17, 100):
                k_msg(ctx, "put_request", {"dest_id": [a, rand_uint(r, 8 * a)], "src": "s" * n1, "dst": rand_name(r, n2) if n2 else ""})
    # the same numbers carried in every width that holds them, one after the other (both orders)
    for v1, v2 in ((0, 0), (1, 5), (0xFF, 0xFF), (0x100, 7), (0xFFFF, 0x1234), (0x10000, 0xFFFFFFFF), (3, 0x100000000)):
        ws1 = [w for w in C.WIDTHS if v1 < 1 << 8 * w]
        ws2 = [w for w in C.WIDTHS if v2 < 1 << 8 * w]
        for order in (1, -1):
            for a in ws1[::order]:
                for b in ws2[::order]:
                    k_msg(ctx, "originating_id", {"src": [a, v1], "seq": [b, v2]})
            for a in ws1[::order]:
                k_msg(ctx, "put_request", {"dest_id": [a, v1], "src": "s", "dst": "d"})
    ctx.exhaustive.append("put response: 13 condition codes x 2 x 4; closure / mode / listing option flags; 16 width combinations of the originating transaction id; "
                          "4 entity-id widths x name-length grid of the put request")
    for n1 in (0, 1, 60, 124, 125, 200, 250):
        for n2 in (0, 1, 60, 124, 125, 200, 250):
            k_msg(ctx, "listing_request", {"path": "p" * n1, "file": "f" * n2})
            k_msg(ctx, "listing_response", {"success": (n1 + n2) & 1, "path": "é" * (n1 // 2), "file": "f" * n2})
    for _ in range(ctx.n(3000, 200_000)):
        kind = r.choice(KINDS9)
        k_msg(ctx, kind, rand_msg(r, kind))
    # the marker octets 'cfdp' (63 66 64 70) appearing again inside the message fields: in names and inside ids
    from spverif.core.util import HAZARD_NAMES
    for hz in HAZARD_NAMES:
        if len(hz.encode()) <= 100:
            k_msg(ctx, "listing_request", {"path": hz, "file": "f"})
            k_msg(ctx, "listing_response", {"success": 1, "path": "p", "file": hz})
            k_msg(ctx, "put_request", {"dest_id": [4, 0x63666470], "src": hz, "dst": "cfdp"})
    for w, v in ((4, 0x63666470), (8, 0x6366647063666470), (8, 0x0063666470000000), (2, 0x6366), (4, 0x66647000)):
        k_msg(ctx, "originating_id", {"src": [w, v], "seq": [w, v]})
        k_msg(ctx, "put_request", {"dest_id": [w, v], "src": "a", "dst": "b"})
    from spacepackets.cfdp.tlv.tlv import create_cfdp_proxy_and_dir_op_message_marker
    ctx.check("msg.paths", create_cfdp_proxy_and_dir_op_message_marker() == b"cfdp", "marker_helper", "", {"k": "marker"})
    for pth in ("/tmp/dir", "rel/dir", ".", "/", "a b/c", "dir/子", "x" * 120, "/home/cfdp/in"):
        for fl in ("listing.txt", "out/list.bin", "é.txt", "f" * 100):
            k_paths(ctx, pth, fl)
    for j in range(ctx.n(800, 60_000)):
        k_field_reuse(ctx, ctx.seed * 1_000_003 + ctx.shard[0] * 100_003 + j)
    # negative clause
    alpha = (0x63, 0x66, 0x64, 0x70, 0x00, 0x80, 0xFF)
    maxlen = 6 if ctx.quick else 7
    i = 0
    for n in range(0, maxlen + 1):
        for t in itertools.product(alpha, repeat=n):
            i += 1
            if ctx.mine(i):
                k_not_reserved(ctx, bytes(t).hex())
    ctx.exhaustive.append(f"all message contents of length 0..{maxlen} over the alphabet c,f,d,p,00,80,ff")
    for s in (b"cfdp", b"cfdq\x00", b"cfd", b"CFDP\x00", b"cfdp\x00", b"cfdp\xff", b"\x80fdp\x00", b"cfd\xf0\x00", b"c\xc3\xa9dp\x01", b"cfdp" + bytes(251), b"\xff" * 255,
              "cfdé\x00".encode(), b"cfdp\x0a", b"xcfdp\x00"):
        k_not_reserved(ctx, s.hex())
    for _ in range(ctx.n(3000, 200_000)):
        n = r.randrange(0, 40)
        v = r.randbytes(n)
        if r.random() < 0.3 and n >= 4:
            v = b"cfdp"[:r.randrange(1, 5)] + v[4:]
        k_not_reserved(ctx, v.hex())


def conclude(ctx):
    ctx.require(ctx.extra.get("hostile_caller_scribbled_pack_results", 0) > 0, "hostile-caller sanitizer scribbled no pack() result")
    for kind in KINDS9:
        ctx.require(ctx.classes.get(f"msg/{kind}", 0) > 0, f"message kind {kind} not exercised")
    for c in ("classify/reserved", "classify/other"):
        ctx.require(ctx.classes.get(c, 0) > 0, f"class {c} empty")
    for m in ("msg.pack", "msg.decode", "msg.classification", "msg.getters", "msg.truncated_getters", "classify", "msg.long_refused"):
        ctx.require(ctx.monitors.get(m, {}).get("evaluations", 0) > 0, f"monitor {m} never evaluated")
