"""C07 - CFDP File Data PDU: offset, segment metadata and file data carried exactly."""
from __future__ import annotations

import json
import random

from spverif.core.util import attempt, exc_sig, rand_uint, rand_bytes, documented_errors
from spverif.ref import cfdp as R
from . import _cfdp as C
from . import _views as V

SCRIBBLE = True
THOROUGH_SCALE = 8
ID = "C07"
LEVEL = "exploration"
SHARDS = {"quick": 1, "thorough": 16}
RULE = ("cases = (header configuration incl. segmentation control, offset, file data, optional segment metadata); all 64 metadata "
        "lengths 0..63 x 4 record-continuation states, empty data, maximal data field (65535 octets), offsets from boundary pools "
        "over the 32/64-bit range, CRC x large x 16 widths x segmentation control x metadata present; plus refusal of metadata "
        "> 63 octets and the behavioural check of the segment-length helper; non-trivial = not (default configuration, offset 0, no "
        "metadata); distinct = distinct (configuration, offset, metadata, data digest)")
TRUSTED = ["CPython 3.12", "spverif.ref.cfdp.file_data/decode_pdu", "spverif.ref.crc"]
ASSUMPTIONS = ["oracle = independent model of CCSDS 727.0-B-5 5.3 (spverif/ref/cfdp.py)"]


ISO = C.Isolation()


def build_via_setters(cfg, p, seed):
    import random
    X = C.lib()
    r = random.Random(seed)
    q = dict(p)
    q["data"] = r.choice(("", "aa", "bb" * 40))
    q["seg_meta"] = r.choice((None, [1, ""], [2, "0102"], [3, "11" * 63], [0, "22" * 5]))
    # the ids / sequence number start with other values and are written into the header's field objects afterwards (integer, octets
    # of the field width, or a longer receive buffer from which the field takes its own width)
    c0 = dict(cfg)
    ids = []
    for name, attr, w in (("src", "source_entity_id", cfg["idw"]), ("dst", "dest_entity_id", cfg["idw"]), ("seq", "transaction_seq_num", cfg["seqw"])):
        if r.random() < 0.5:
            c0[name] = (cfg[name] ^ 1) & ((1 << 8 * w) - 1)
            how = r.choice(("int", "bytes", "longer_bytes"))
            val = cfg[name] if how == "int" else cfg[name].to_bytes(w, "big") + (b"" if how == "bytes" else b"\xa5\x5a\x00")
            ids.append(lambda attr=attr, val=val: setattr(getattr(obj.pdu_header, attr), "value", val))
    obj = C.build("file_data", c0, q)
    steps = ids + [lambda: setattr(obj, "file_data", bytes.fromhex(p["data"])),
             lambda: setattr(obj, "segment_metadata", None if p["seg_meta"] is None else X.SegmentMetadata(X.RecordContinuationState(p["seg_meta"][0]), bytes.fromhex(p["seg_meta"][1])))]
    if r.random() < 0.5:
        obj.pack()
    r.shuffle(steps)
    for fn in steps:
        fn()
    return obj


def k_fd(ctx, cfg, p, model_fed=False, via="ctor", seed=0):
    X = C.lib()
    data = bytes.fromhex(p["data"])
    case = {"k": "fd", "cfg": cfg, "p": p, "model_fed": model_fed}          # complete, so that a witness can be replayed as it is
    sm = p["seg_meta"]
    trivial = cfg["crc"] == 0 and cfg["large"] == 0 and cfg["idw"] == 1 and cfg["seqw"] == 1 and p["offset"] == 0 and sm is None
    feat = f"{C.cfg_class(cfg)}/meta={'y' if sm is not None else 'n'}"
    ctx.case(f"fd/{feat}/segctrl={cfg['segctrl']}", (tuple(sorted(cfg.items())), p["offset"], json.dumps(sm), hash(data)),
             nontrivial=not trivial, sample=case if len(data) <= 64 else None)
    ctx.table("widths", f"idw={cfg['idw']}/seqw={cfg['seqw']}")
    ctx.table("data_len_class", "0" if not data else "1-64" if len(data) <= 64 else "65-4096" if len(data) <= 4096 else "big")
    if sm is not None:
        ctx.table("meta_len_x_state", f"{len(sm[1]) // 2}/{sm[0]}")
    want = C.ref_octets("file_data", cfg, p)
    if via == "setters":
        ok, pdu = attempt(build_via_setters, cfg, p, seed)
        feat += "/after_setters"
        case["via"], case["seed"] = via, seed
    else:
        ok, pdu = attempt(C.build, "file_data", cfg, p)
    if not ctx.check("fd.construct", ok, "raised", exc_sig(pdu) if not ok else "", case, error=repr(pdu)):
        return
    okb, before = attempt(lambda: (pdu.packet_len, pdu.pdu_data_field_len))           # read before pack(): setters keep them right on their own
    ok, raw = attempt(pdu.pack)
    if not ctx.check("fd.pack", ok, "raised", exc_sig(raw) if not ok else "", case, error=repr(raw)):
        return
    raw = bytes(raw)
    ctx.check("fd.len", okb and before == (len(want), len(want) - R.header_len(cfg["idw"], cfg["seqw"])), "length_reported_before_packing", feat, case, observed=repr(before), expected=len(want))
    if not ctx.check("fd.pack", raw == want, "octets", f"{feat}/{_where(cfg, raw, want)}", case, expected=want[:80], observed=raw[:80]):
        return
    hl = R.header_len(cfg["idw"], cfg["seqw"])
    ctx.check("fd.len", pdu.packet_len == len(want), "packet_len", feat, case, observed=pdu.packet_len, expected=len(want))
    ctx.check("fd.len", pdu.pdu_data_field_len == len(want) - hl and pdu.header_len == hl, "data_field_len", feat, case)
    src = want if model_fed else raw
    ok, u = attempt(X.FileDataPdu.unpack, src)
    if not ctx.check("fd.unpack", ok, "raised", f"{feat}/datalen={'0' if not data else 'n'}/" + (exc_sig(u) if not ok else ""), case, error=repr(u)):
        return
    got = C.get_params("file_data", u)
    exp = C.ref_params("file_data", R.decode_pdu(want))
    if not ctx.check("fd.unpack", got == exp, "param", f"{feat}/{C.diff_keys(got, exp)}" + (f"/extra={len(got['data']) // 2 - len(data)}" if got["data"] != exp["data"] else ""),
                     case, expected={k: v for k, v in exp.items() if k != "data"}, observed={k: v for k, v in got.items() if k != "data"},
                     observed_data_len=len(got["data"]) // 2, expected_data_len=len(data)):
        return
    ctx.check("fd.unpack", len(u.file_data) == len(data), "file_data_len", feat, case)
    hgot = C.hdr_fields(u.pdu_header)
    hexp = dict(R.decode_header(want), dst_w=cfg["idw"])
    if not ctx.check("fd.unpack", hgot == hexp, "header_field", C.diff_keys(hgot, hexp), case, expected=hexp, observed=hgot):
        return
    views = (u.offset, u.has_segment_metadata, None if u.record_cont_state is None else int(u.record_cont_state), int(u.crc_flag),
             int(u.file_flag), int(u.pdu_type))
    ctx.check("fd.unpack", views == (p["offset"], sm is not None, None if sm is None else sm[0], cfg["crc"], cfg["large"], 1), "views", feat, case, observed=views)
    ok1, e1 = attempt(lambda: u == pdu)
    ok2, e2 = attempt(lambda: pdu == u)
    ctx.check("fd.roundtrip", ok1 and ok2 and e1 is True and e2 is True, "eq", feat, case, observed=[repr(e1), repr(e2)],
              lens=[u.packet_len, pdu.packet_len])
    ctx.check("fd.roundtrip", u.packet_len == len(want), "packet_len", feat, case, observed=u.packet_len, expected=len(want))
    ok, rp = attempt(u.pack)
    ctx.check("fd.roundtrip", ok and bytes(rp) == want, "repack", feat, case, observed=bytes(rp)[:80] if ok else repr(rp))
    # the same PDU in a buffer that goes on behind it: file data not one octet more
    for sfx in (want[:9], b"\x00\x00\x00", rand_bytes(random.Random(len(want)), 5)):
        ok, us = attempt(X.FileDataPdu.unpack, src + sfx)
        if ok:
            gs = C.get_params("file_data", us)
            ctx.check("fd.unpack", gs == exp and us.packet_len == len(want), "param_when_octets_follow_the_pdu", f"{feat}/{C.diff_keys(gs, exp)}" + (f"/extra={len(gs['data']) // 2 - len(data)}" if gs["data"] != exp["data"] else ""), case,
                      observed_data_len=len(gs["data"]) // 2, expected_data_len=len(data))
        else:
            ctx.check("fd.unpack", isinstance(us, documented_errors()) and not isinstance(us, __import__("spacepackets.cfdp.exceptions", fromlist=["InvalidCrc"]).InvalidCrc), "intact_pdu_refused_when_octets_follow", f"{feat}/{exc_sig(us)}", case, error=repr(us))
    V.pdu_views(ctx, "fd.delegated_views", pdu, want, hexp, case, "FileDataPdu/constructed")
    V.pdu_views(ctx, "fd.delegated_views", u, want, hexp, case, "FileDataPdu/unpacked")
    ISO.remember(u, want, "file_data", view=lambda u=u: (C.get_params("file_data", u), C.hdr_fields(u.pdu_header), u.packet_len))
    ISO.recheck(ctx, "fd.decoded_objects_independent", case)


def _where(cfg, a, b):
    if len(a) != len(b):
        return f"len{len(a) - len(b):+d}"
    hl = R.header_len(cfg["idw"], cfg["seqw"])
    for i, (x, y) in enumerate(zip(a, b)):
        if x != y:
            return "hdr_fixed" if i < 4 else "hdr_ids" if i < hl else "crc" if cfg["crc"] and i >= len(a) - 2 else "body"
    return ""


def k_meta_refuse(ctx, cfg, n, state):
    """Segment metadata longer than 63 octets must be refused with ValueError by the time pack() returns."""
    case = {"k": "meta_refuse", "cfg": cfg, "n": n, "state": state}
    ctx.case(f"meta_refuse/n={n}", (n, state, cfg["crc"], cfg["large"]), sample=case)
    p = {"offset": 1, "data": "0102", "seg_meta": [state, "ab" * n]}
    ok, res = attempt(lambda: bytes(C.build("file_data", cfg, p).pack()))
    ctx.ev("fd.metadata_refusal")
    if ok:
        ctx.fail("fd.metadata_refusal", "long_metadata_packed", f"n={'64' if n == 64 else '>64'}", case, observed=res[:40])
    elif not isinstance(res, ValueError):
        ctx.fail("fd.metadata_refusal", "wrong_error", type(res).__name__, case, error=repr(res))
    # the same through the documented setter, on a PDU without metadata and on one that already has some (also after a pack)
    X = C.lib()
    for start in (None, [1, "0a0b"]):
        for packed_first in (False, True):
            def via_setter():
                pdu = C.build("file_data", cfg, {"offset": 1, "data": "0102", "seg_meta": start})
                if packed_first:
                    pdu.pack()
                pdu.segment_metadata = X.SegmentMetadata(X.RecordContinuationState(state), bytes.fromhex("ab" * n))
                return bytes(pdu.pack())
            ok, res = attempt(via_setter)
            ctx.ev("fd.metadata_refusal")
            if ok:
                ctx.fail("fd.metadata_refusal", "long_metadata_packed", f"n={'64' if n == 64 else '>64'}/via_setter", case, observed=res[:40])
            elif not isinstance(res, ValueError):
                ctx.fail("fd.metadata_refusal", "wrong_error", f"{type(res).__name__}/via_setter", case, error=repr(res))
            # ... and the PDU object after the refusal: unchanged if the assignment itself was refused, and in any case what it was
            # before once the previous (valid) metadata are assigned again
            p0 = {"offset": 1, "data": "0102", "seg_meta": start}
            want0 = C.ref_octets("file_data", cfg, p0)
            pdu = C.build("file_data", cfg, p0)
            if packed_first:
                pdu.pack()
            ok_set, e = attempt(setattr, pdu, "segment_metadata", X.SegmentMetadata(X.RecordContinuationState(state), bytes.fromhex("ab" * n)))
            if not ok_set:
                ok2, raw2 = attempt(lambda: bytes(pdu.pack()))
                ctx.check("fd.metadata_refusal", ok2 and raw2 == want0 and pdu.packet_len == len(want0), "object_changed_by_a_refused_assignment", f"start={'meta' if start else 'none'}", case,
                          observed=raw2[:40] if ok2 else repr(raw2), expected=want0[:40])
            attempt(setattr, pdu, "segment_metadata", None if start is None else X.SegmentMetadata(X.RecordContinuationState(start[0]), bytes.fromhex(start[1])))
            ok3, raw3 = attempt(lambda: bytes(pdu.pack()))
            ctx.check("fd.metadata_refusal", ok3 and raw3 == want0 and pdu.packet_len == len(want0), "object_not_restored_by_a_valid_assignment_after_the_refusal", f"start={'meta' if start else 'none'}", case,
                      observed=raw3[:40] if ok3 else repr(raw3), expected=want0[:40])


def k_seglen(ctx, cfg, max_len, meta_len):
    """get_max_file_seg_len_for_max_packet_len_and_pdu_cfg(conf, L, md) = n  <=>  n data octets pack to exactly L octets."""
    X = C.lib()
    from spacepackets.cfdp.pdu.file_data import get_max_file_seg_len_for_max_packet_len_and_pdu_cfg as f
    case = {"k": "seglen", "cfg": cfg, "max_len": max_len, "meta_len": meta_len}
    ctx.case("seglen", (tuple(sorted(cfg.items())), max_len, meta_len), sample=case)
    sm = None if meta_len is None else X.SegmentMetadata(X.RecordContinuationState(1), bytes(meta_len))
    conf = C.lib_cfg(cfg)
    ok, n = attempt(f, conf, max_len, sm)
    p0 = {"offset": 0, "data": "", "seg_meta": None if meta_len is None else [1, "00" * meta_len]}
    base = len(C.ref_octets("file_data", cfg, p0))
    ctx.ev("fd.max_seg_len")
    if base > max_len:
        if ok:
            ctx.fail("fd.max_seg_len", "impossible_size_answered", "", case, observed=n, base=base)
        elif not isinstance(res := n, ValueError):
            ctx.fail("fd.max_seg_len", "wrong_error", type(res).__name__, case)
        return
    if not ok:
        return ctx.fail("fd.max_seg_len", "raised", exc_sig(n), case, error=repr(n), base=base)
    if n != max_len - base:
        return ctx.fail("fd.max_seg_len", "value", f"crc={cfg['crc']}/large={cfg['large']}/meta={meta_len is not None}", case, observed=n, expected=max_len - base)
    if n <= 3000:
        p = dict(p0, data="11" * n)
        pdu = C.build("file_data", cfg, p)
        ctx.check("fd.max_seg_len", len(pdu.pack()) == max_len and pdu.get_max_file_seg_len_for_max_packet_len(max_len) == n, "packs_to_max", "", case)


KINDS = {"fd": k_fd, "meta_refuse": k_meta_refuse, "seglen": k_seglen}


def selftest(ctx):
    n = 0
    r = ctx.rng
    for _ in range(400):
        cfg = C.rand_cfg(r, segctrl=True)
        p = C.rand_params(r, "file_data", cfg)
        raw = C.ref_octets("file_data", cfg, p)
        d = R.decode_pdu(raw + b"\xff")
        assert C.ref_params("file_data", d) == p and d["total"] == len(raw)
        n += 1
    ctx.selftest["ref.cfdp.file_data encode/decode round trip"] = n


def run(ctx):
    from spverif.ref import enums as _enums
    if ctx.shard[0] == 0:
        _enums.check(ctx, "code_tables", ['spacepackets.cfdp.pdu.file_data', 'spacepackets.cfdp.defs.SegmentationControl', 'spacepackets.cfdp.defs.SegmentMetadataFlag'])
    from spverif.san import scribble
    scribble.install()
    r = ctx.rng
    i = 0
    # all 64 metadata lengths x 4 states
    for n in range(64):
        for st in range(4):
            i += 1
            if ctx.mine(i):
                cfg = C.rand_cfg(r, segctrl=True)
                k_fd(ctx, cfg, {"offset": C.rand_fss(r, cfg["large"]), "data": rand_bytes(r, r.choice((0, 1, 2, 50))).hex(),
                                "seg_meta": [st, rand_bytes(r, n).hex()]}, model_fed=bool(i & 1))
    ctx.exhaustive.append("all 64 segment-metadata lengths x 4 record-continuation states")
    # all configurations x metadata present/absent x empty/non-empty data
    for cfg in C.all_cfgs(r, segctrl=True):
        i += 1
        if not ctx.mine(i):
            continue
        for sm in (None, [r.getrandbits(2), rand_bytes(r, r.randrange(0, 64)).hex()]):
            for dl in (0, 1, r.randrange(2, 200)):
                k_fd(ctx, cfg, {"offset": C.rand_fss(r, cfg["large"]), "data": rand_bytes(r, dl).hex(), "seg_meta": sm}, model_fed=bool(dl & 1))
    ctx.exhaustive.append("crc x large x 16 widths x mode (128 configurations) x metadata present/absent x {empty, 1, n} data")
    for large in (0, 1):
        for crc in (0, 1):
            for off in C.fss_pool(large):
                cfg = C.rand_cfg(r, segctrl=True, crc=crc, large=large)
                k_fd(ctx, cfg, {"offset": off, "data": "a1b2c3", "seg_meta": None if off & 1 else [3, "77"]})
    # maximal segment: data field exactly 65535 octets
    if ctx.shard[0] == 0:
        for crc in (0, 1):
            for large in (0, 1):
                for sm in (None, [2, "0102030405"]):
                    cfg = C.rand_cfg(r, segctrl=True, crc=crc, large=large)
                    over = (8 if large else 4) + (2 if crc else 0) + (0 if sm is None else 1 + len(sm[1]) // 2)
                    k_fd(ctx, cfg, {"offset": 5, "data": (bytes(range(256)) * 256)[:65535 - over].hex(), "seg_meta": sm}, model_fed=bool(crc))
                    ok, res = attempt(lambda: bytes(C.build("file_data", cfg, {"offset": 5, "data": "00" * (65536 - over), "seg_meta": sm}).pack()))
                    ctx.check("fd.refusal", not ok, "oversize_data_field_packed", f"crc={crc}", {"cfg": cfg, "data_len": 65536 - over})
    # File Data PDUs with the CRC flag whose running CRC is exactly 0x0000 / 0xFFFF after the header or after the offset field
    for target in (0x0000, 0xFFFF):
        for where in ("header", "offset", "whole"):
            for sm in (None, [2, "a1b2c3"]):
                cfg = C.rand_cfg(r, segctrl=True, crc=1, seqw=r.choice((2, 4, 8)))
                got = C.craft_crc_boundary("file_data", cfg, {"offset": C.rand_fss(r, cfg["large"]), "data": rand_bytes(r, 20).hex(), "seg_meta": sm}, where, target)
                if got is not None:
                    ctx.table("crc_register_at_boundary", f"{where}/{target:04x}/meta={'y' if sm else 'n'}")
                    k_fd(ctx, got[0], got[1], model_fed=bool(target))
    # block-boundary sizes: total PDU length / data-field length / file-data length around multiples of 256 ... 32768
    from spverif.core.util import block_boundary_sizes
    j = 0
    for crc in (0, 1):
        for large in (0, 1):
            cfg = C.rand_cfg(r, segctrl=True, crc=crc, large=large)
            hl = R.header_len(cfg["idw"], cfg["seqw"])
            fss = 8 if large else 4
            for n in block_boundary_sizes((0, fss + 2 * crc, hl + fss + 2 * crc), 65535 - fss - 2 * crc, ctx.quick):
                j += 1
                if ctx.mine(j) and (not ctx.quick or j % 4 == 0):
                    ctx.table("block_boundary_data_len", n)
                    k_fd(ctx, cfg, {"offset": C.rand_fss(r, large), "data": r.randbytes(n).hex(), "seg_meta": None}, model_fed=bool(j & 1))
    for _ in range(ctx.n(4000, 400_000)):
        cfg = C.rand_cfg(r, segctrl=True)
        k_fd(ctx, cfg, C.rand_params(r, "file_data", cfg), model_fed=r.random() < 0.5)
    for j in range(ctx.n(2500, 200_000)):
        cfg = C.rand_cfg(r, segctrl=True)
        k_fd(ctx, cfg, C.rand_params(r, "file_data", cfg), via="setters", seed=ctx.seed * 1_000_003 + ctx.shard[0] * 100_003 + j)
    # offsets that do not fit
    for large, bad in ((0, (2 ** 32, 2 ** 63)), (1, (2 ** 64, 2 ** 65))):
        for v in bad:
            cfg = C.rand_cfg(r, large=large)
            ok, res = attempt(lambda: bytes(C.build("file_data", cfg, {"offset": v, "data": "00", "seg_meta": None}).pack()))
            ctx.check("fd.refusal", not ok, "oversize_offset_packed", f"large={large}", {"cfg": cfg, "offset": v})
    for n in (64, 65, 100, 255, 300):
        for st in (0, 3):
            k_meta_refuse(ctx, C.rand_cfg(r), n, st)
    for _ in range(ctx.n(300, 20_000)):
        cfg = C.rand_cfg(r)
        meta_len = r.choice((None, 0, 1, 10, 63))
        k_seglen(ctx, cfg, r.choice((0, 5, 10, 14, 15, 16, 20, 24, 30, 36, 40, 64, 100, 512, 1024, 4096, 65535)), meta_len)


def conclude(ctx):
    ctx.require(ctx.extra.get("hostile_caller_scribbled_pack_results", 0) > 0, "hostile-caller sanitizer scribbled no pack() result")
    for crc in (0, 1):
        for large in (0, 1):
            for meta in "yn":
                for sc in (0, 1):
                    ctx.require(ctx.classes.get(f"fd/crc={crc}/large={large}/meta={meta}/segctrl={sc}", 0) > 0, f"cell fd/crc={crc}/large={large}/meta={meta}/segctrl={sc} empty")
    ctx.require(len(ctx.tables.get("meta_len_x_state", {})) == 256, "metadata length x state table incomplete")
    ctx.require(len(ctx.tables.get("widths", {})) == 16, "width table incomplete")
    for k in ("0", "1-64", "65-4096", "big"):
        ctx.require(ctx.tables.get("data_len_class", {}).get(k, 0) > 0, f"data length class {k} empty")
    for m in ("fd.pack", "fd.unpack", "fd.roundtrip", "fd.len", "fd.metadata_refusal", "fd.max_seg_len", "fd.refusal"):
        ctx.require(ctx.monitors.get(m, {}).get("evaluations", 0) > 0, f"monitor {m} never evaluated")
