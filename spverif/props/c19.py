"""C19 - sequence counters count modulo 2^width, stay in range and survive restarts (history + restart injection)."""
from __future__ import annotations

import os
import random
import shutil
import subprocess
import sys
import tempfile
from pathlib import Path

from spverif.core.util import attempt, exc_sig
from spverif.core import repo as repo_mod
from spverif.ref.models import seq_next

THOROUGH_SCALE = 12
ID = "C19"
LEVEL = "exploration"
SHARDS = {"quick": 1, "thorough": 8}
RULE = ("cases = call histories: in-memory provider for every width 1..16 with 2*2^w+3 calls (get_and_increment and next() mixed); "
        "file-backed provider for widths 1..8 with a new instance created before every call (every inter-call restart point), width 14 "
        "(and the PUS 14-bit provider) over a full wrap with random restart points, thorough: width 16 and a history in which every call "
        "is made by a fresh interpreter process; after every call the returned value, its range, its acceptance as a packet sequence "
        "count and the first line of the file are compared with n -> (n+1) mod 2^w; file contents for the rejection clause; "
        "non-trivial = history longer than 2^w calls (wraps at least once); distinct = distinct (provider, width, restart pattern)")
TRUSTED = ["CPython 3.12", "spverif.ref.models.seq_next", "the file system of the sandbox (tempfile directories, removed at exit)"]
ASSUMPTIONS = ["process stops are injected between calls only (a crash inside a call is outside the property)", "one provider instance uses a file at a time"]
AUDIT = {"opens": 0, "path": None}
_HOOKED = False


def _hook():
    global _HOOKED
    if _HOOKED:
        return

    def audit(event, args):
        if event == "open" and AUDIT["path"] is not None and args and str(args[0]) == AUDIT["path"]:
            AUDIT["opens"] += 1
    sys.addaudithook(audit)
    _HOOKED = True


def _imp():
    from spacepackets import seqcount
    from spacepackets.ccsds.spacepacket import PacketSeqCtrl, SequenceFlags
    return seqcount, PacketSeqCtrl, SequenceFlags


def _through_a_packet(count):
    """The count as the sequence count of a telecommand that is packed and decoded again ('acceptable as a packet sequence count')."""
    from spacepackets.ecss.tc import PusTc
    from spacepackets.ccsds.spacepacket import SpacePacketHeader
    try:
        raw = bytes(PusTc(service=17, subservice=1, apid=0x42, seq_count=count).pack())
        a, b = PusTc.unpack(raw).seq_count, SpacePacketHeader.unpack(raw).seq_count
        return a if a == b else (a, b)
    except Exception as e:  # noqa: BLE001
        return repr(e)


def k_mem(ctx, width, ncalls, seed):
    sc, PSC, SF = _imp()
    r = random.Random(seed)
    case = {"k": "mem", "width": width, "ncalls": ncalls, "seed": seed}
    ctx.case(f"mem/width={width}", (width, ncalls, seed), nontrivial=ncalls > (1 << width), sample=case)
    p = sc.SeqCountProvider(width)
    ctx.check("count.config", p.max_bit_width == width, "max_bit_width", "mem", case)
    want = 0
    m = 1 << width
    for i in range(ncalls):
        ok, got = attempt(next, p) if r.random() < 0.5 else attempt(p.get_and_increment)
        ctx.ev("count.sequence")
        if not ok:
            return ctx.fail("count.sequence", "raised", f"mem/{exc_sig(got)}", dict(case, call=i), error=repr(got))
        if got != want:
            phase = "first_call" if i == 0 else "at_wrap" if want == 0 else "before_wrap" if i < m else "after_wrap"
            return ctx.fail("count.sequence", "value_differs_from_model", f"mem/{phase}", dict(case, call=i), observed=got, expected=want)
        if not 0 <= got < m:
            return ctx.fail("count.range", "out_of_range", "mem", dict(case, call=i), observed=got)
        if width <= 14 and (i % 7 == 0 or got >= (1 << width) - 2 or (got & (got - 1)) == 0):
            ok2, e = attempt(PSC, SF.UNSEGMENTED, got)
            ctx.check("count.acceptable", ok2, "not_accepted_as_sequence_count", "mem", dict(case, call=i), observed=got)
            ctx.check("count.acceptable", _through_a_packet(got) == got, "count_does_not_survive_a_packet_round_trip", "mem", dict(case, call=i), observed=_through_a_packet(got), expected=got)
        want = seq_next(want, width)
    ctx.ev("count.range")
    ctx.table("mem_widths", width)


def _first_line_value(path):
    with open(path, "rb") as f:
        line = f.readline()
    return line


def k_file(ctx, width, ncalls, restart, seed, provider="file", start_at=None):
    """restart: 'every' | 'never' | 'random'."""
    sc, PSC, SF = _imp()
    _hook()
    r = random.Random(seed)
    case = {"k": "file", "width": width, "ncalls": ncalls, "restart": restart, "seed": seed, "provider": provider, "start_at": start_at}
    ctx.case(f"file/{provider}/width={width}/restart={restart}", (width, ncalls, restart, seed, provider, start_at), nontrivial=ncalls > (1 << width) or start_at is not None,
             sample=case)
    d = tempfile.mkdtemp(prefix="spv-c19-")
    try:
        path = Path(d) / "seqcnt.txt"
        AUDIT["path"], AUDIT["opens"] = str(path), 0
        m = 1 << width
        want = 0
        if start_at is not None:
            path.write_text(f"{start_at}\n")
            want = start_at

        def mk():
            return sc.PusFileSeqCountProvider(path) if provider == "pus" else sc.FileSeqCountProvider(width, path)
        ok, p = attempt(mk)
        if not ctx.check("count.sequence", ok, "constructor_raised", f"file/{exc_sig(p) if not ok else ''}", case, error=repr(p)):
            return
        restarts = 0
        for i in range(ncalls):
            if restart == "every" or (restart == "random" and r.random() < 0.02):
                p = mk()
                restarts += 1
            # inter-call point: the file must hold the model's next value
            line = _first_line_value(path)
            ctx.ev("count.file_state")
            if line.strip() != str(want).encode():
                return ctx.fail("count.file_state", "file_does_not_hold_next_count", f"width={'14' if width == 14 else 'n'}/" + ("after_restart" if restarts else "no_restart"),
                                dict(case, call=i), file_first_line=line, expected=want)
            if i % 5 == 0:
                ok, cur = attempt(p.current)
                ctx.check("count.file_state", ok and cur == want, "current_differs", "", dict(case, call=i), observed=repr(cur), expected=want)
            before = AUDIT["opens"]
            ok, got = attempt(next, p) if r.random() < 0.5 else attempt(p.get_and_increment)
            ctx.ev("count.sequence")
            if not ok:
                return ctx.fail("count.sequence", "raised", f"file/{exc_sig(got)}", dict(case, call=i), error=repr(got))
            if AUDIT["opens"] == before:
                ctx.fail("count.file_state", "call_did_not_touch_the_file", "", dict(case, call=i))
            if got != want:
                phase = "first_call" if i == 0 and start_at is None else "at_wrap" if want == 0 else "after_restart" if restart == "every" else "other"
                return ctx.fail("count.sequence", "value_differs_from_model", f"file/{phase}", dict(case, call=i), observed=got, expected=want)
            if not 0 <= got < m:
                return ctx.fail("count.range", "out_of_range", "file", dict(case, call=i), observed=got)
            if width <= 14 and (i % 7 == 0 or got >= (1 << width) - 2 or (got & (got - 1)) == 0):
                ok2, e = attempt(PSC, SF.UNSEGMENTED, got)
                ctx.check("count.acceptable", ok2, "not_accepted_as_sequence_count", "file", dict(case, call=i), observed=got)
                ctx.check("count.acceptable", _through_a_packet(got) == got, "count_does_not_survive_a_packet_round_trip", "file", dict(case, call=i), observed=_through_a_packet(got), expected=got)
            want = seq_next(want, width)
        ctx.ev("count.range")
        ctx.table("file_cells", f"{provider}/width={width}/restart={restart}")
        ctx.table("restart_points_injected", "count", restarts)
        ctx.table("file_opens_observed", "count", AUDIT["opens"])
    finally:
        AUDIT["path"] = None
        shutil.rmtree(d, ignore_errors=True)


def k_process(ctx, width, ncalls):
    """Every call is made by a fresh interpreter process (real process death between calls)."""
    case = {"k": "process", "width": width, "ncalls": ncalls}
    ctx.case(f"process/width={width}", (width, ncalls), nontrivial=ncalls > (1 << width), sample=case)
    d = tempfile.mkdtemp(prefix="spv-c19p-")
    try:
        path = os.path.join(d, "cnt.txt")
        code = ("import sys; sys.path.insert(0, sys.argv[1]); sys.meta_path[:] = [f for f in sys.meta_path if 'ditable' not in type(f).__name__ and 'ditable' not in getattr(f, '__name__', '')];"
                "from pathlib import Path; from spacepackets.seqcount import FileSeqCountProvider;"
                "print(next(FileSeqCountProvider(int(sys.argv[2]), Path(sys.argv[3]))))")
        want = 0
        for i in range(ncalls):
            try:
                out = subprocess.run([sys.executable, "-c", code, repo_mod.REPO, str(width), path], capture_output=True, text=True, timeout=60)
            except subprocess.TimeoutExpired:
                ctx.inconc("fresh-process call timed out")
                return
            ctx.ev("count.across_processes")
            if out.returncode != 0 or out.stdout.strip() != str(want):
                return ctx.fail("count.across_processes", "value_differs_from_model", "at_wrap" if want == 0 and i else "other", dict(case, call=i),
                                observed=out.stdout.strip(), stderr=out.stderr[-300:], expected=want)
            want = seq_next(want, width)
    finally:
        shutil.rmtree(d, ignore_errors=True)


def k_content(ctx, width, content_hex):
    sc, PSC, SF = _imp()
    content = bytes.fromhex(content_hex)
    case = {"k": "content", "width": width, "content_hex": content_hex}
    ctx.case("content", (width, content), sample=dict(case, text=repr(content)))
    d = tempfile.mkdtemp(prefix="spv-c19c-")
    try:
        path = Path(d) / "c.txt"
        path.write_bytes(content)
        first = content.split(b"\n")[0].rstrip()
        strict = None
        if first.isascii() and first.isdigit() and int(first) < (1 << width):
            strict = int(first)
        for name, fn in (("get_and_increment", lambda p: p.get_and_increment()), ("current", lambda p: p.current()), ("next", lambda p: next(p))):
            path.write_bytes(content)
            ok, p = attempt(sc.FileSeqCountProvider, width, path)
            if not ok:
                ctx.check("count.rejection", isinstance(p, ValueError), "constructor_wrong_error", type(p).__name__, case, error=repr(p))
                continue
            ok, res = attempt(fn, p)
            ctx.ev("count.rejection")
            if strict is not None:
                if not ok or res != strict:
                    ctx.fail("count.rejection", "valid_content_not_honoured", name, case, observed=repr(res), expected=strict)
            elif ok:
                # only acceptable when the first line denotes that very value in range (e.g. non-ASCII digits)
                # a count is a string of decimal digits (surrounding white space tolerated); signs, underscores, floats, hex
                # and anything else int() might swallow are unreadable content
                try:
                    txt = first.decode().strip()
                    den = int(txt) if txt.isdigit() else None
                except Exception:
                    den = None
                if den is None or res != den or not 0 <= res < (1 << width):
                    ctx.fail("count.rejection", "invalid_content_accepted", name, case, observed=repr(res))
            elif not isinstance(res, ValueError):
                ctx.fail("count.rejection", "wrong_error", f"{name}/{type(res).__name__}", case, error=repr(res))
    finally:
        shutil.rmtree(d, ignore_errors=True)


def k_missing(ctx, when):
    sc, PSC, SF = _imp()
    case = {"k": "missing", "when": when}
    ctx.case(f"missing/{when}", when, sample=case)
    d = tempfile.mkdtemp(prefix="spv-c19m-")
    try:
        path = Path(d) / "m.txt"
        p = sc.FileSeqCountProvider(5, path)
        ctx.check("count.missing_file", path.exists() and next(p) == 0, "new_file_not_created_with_zero", "", case)
        for _ in range(when):
            next(p)
        os.unlink(path)
        for name, fn in (("next", lambda: next(p)), ("current", p.current), ("get_and_increment", p.get_and_increment)):
            ok, res = attempt(fn)
            ctx.check("count.missing_file", (not ok) and isinstance(res, FileNotFoundError), "missing_file_not_reported", name, case, observed=repr(res))
        p.create_new()
        ctx.check("count.missing_file", next(p) == 0 and next(p) == 1, "create_new_does_not_restart_at_zero", "", case)
        # the same call as an explicit restart in mid-sequence, and as the way out of unreadable content: the file holds 0 afterwards
        p.create_new()
        ok, v = attempt(lambda: (path.read_text(), next(p), next(p)))
        ctx.check("count.missing_file", ok and v[0].strip() == "0" and v[1:] == (0, 1), "create_new_on_existing_file_does_not_restart_at_zero", "mid_sequence", case, observed=repr(v))
        path.write_text("garbage\n")
        ok0, e0 = attempt(lambda: next(p))
        p.create_new()
        ok, v = attempt(lambda: (next(p), next(p)))
        ctx.check("count.missing_file", (not ok0) and isinstance(e0, ValueError) and ok and v == (0, 1), "create_new_on_existing_file_does_not_restart_at_zero", "after_unreadable_content", case, observed=repr(v))
    finally:
        shutil.rmtree(d, ignore_errors=True)


def k_rewidth(ctx, provider, seed):
    """The width is changed through the max_bit_width setter of the provider interface while counting (only to widths that
    still hold the current count): from then on the sequence wraps at the new width."""
    sc, PSC, SF = _imp()
    r = random.Random(f"rewidth/{seed}")
    case = {"k": "rewidth", "provider": provider, "seed": seed}
    ctx.case(f"rewidth/{provider}", (provider, seed), sample=case)
    d = tempfile.mkdtemp(prefix="spv-c19w-") if provider == "file" else None
    try:
        width = r.randrange(1, 7)
        if provider == "file":
            path = Path(d) / "w.txt"
            p = sc.FileSeqCountProvider(width, path)
        else:
            p = sc.SeqCountProvider(width)
        want = 0
        changes = 0
        for i in range(r.randrange(20, 160)):
            if r.random() < 0.12:
                fits = [w for w in range(1, 9) if want <= (1 << w) - 1 and w != width]
                if fits:
                    new = r.choice(fits)
                    ctx.table("width_changes", "widened" if new > width else "narrowed")
                    p.max_bit_width = new
                    width = new
                    changes += 1
                    if provider == "file" and r.random() < 0.3:
                        p = sc.FileSeqCountProvider(width, path)      # restart with the new width on the same file
            ok, got = attempt(next, p)
            ctx.ev("count.after_width_change")
            if not ok or got != want or not 0 <= got < (1 << width) or p.max_bit_width != width:
                return ctx.fail("count.after_width_change", "value_differs_from_model" if ok else "raised", f"{provider}/" + ("at_wrap" if want == 0 and i else "counting"),
                                dict(case, call=i), observed=repr(got), expected=want, width=width, width_changes=changes)
            want = seq_next(want, width)
    finally:
        if d:
            shutil.rmtree(d, ignore_errors=True)


KINDS = {"rewidth": k_rewidth, "mem": k_mem, "file": k_file, "process": k_process, "content": k_content, "missing": k_missing}


def run(ctx):
    r = ctx.rng
    i = 0
    for w in range(1, 17):
        i += 1
        if ctx.mine(i):
            k_mem(ctx, w, 2 * (1 << w) + 3, ctx.seed + w)
    ctx.exhaustive.append("in-memory provider: every width 1..16, 2*2^w+3 calls each")
    for w in range(1, 9):
        i += 1
        if ctx.mine(i):
            k_file(ctx, w, 2 * (1 << w) + 3, "every", ctx.seed + w)
            k_file(ctx, w, 2 * (1 << w) + 3, "never", ctx.seed + w)
    ctx.exhaustive.append("file provider: widths 1..8, a new instance before every call (every inter-call restart point), more than two wraps")
    i += 1
    if ctx.mine(i):
        k_file(ctx, 14, (1 << 14) + 40 if not ctx.quick else 300, "random", ctx.seed, start_at=None if not ctx.quick else 16383 - 120)
        k_file(ctx, 14, 300, "random", ctx.seed + 1, provider="pus", start_at=16383 - 150)
    if not ctx.quick:
        i += 1
        if ctx.mine(i):
            k_file(ctx, 16, (1 << 16) + 20, "random", ctx.seed + 2)
        i += 1
        if ctx.mine(i):
            k_file(ctx, 14, (1 << 14) + 40, "random", ctx.seed + 3, provider="pus")
    # wide counters: decimal representations of 6..10 digits, restarts before every call, incl. the wrap
    for w, start in ((17, 99_990), (20, 999_990), (24, 9_999_990), (24, (1 << 24) - 60), (30, 999_999_990), (32, (1 << 32) - 60), (32, 99_999)):
        i += 1
        if ctx.mine(i):
            k_file(ctx, w, 120, "every", ctx.seed + w, start_at=start)
            k_file(ctx, w, 120, "never", ctx.seed + w + 1, start_at=start)
    # very wide counters (file provider; e.g. the 56-bit USLP frame count): exact integer arithmetic at the wrap
    for w in (33, 40, 48, 52, 53, 54, 55, 56, 62, 63, 64):
        i += 1
        if ctx.mine(i):
            k_file(ctx, w, 130, "every", ctx.seed + w, start_at=(1 << w) - 61)
            k_file(ctx, w, 130, "never", ctx.seed + w + 1, start_at=(1 << w) - 61)
            for c in (str(1 << w), str((1 << w) + 1), str((1 << w) - 1)):
                k_content(ctx, w, (c + "\n").encode().hex())
    # stored counts where the decimal representation gains a digit or a binary field fills up (9, 99, ..., 255, 65535, 2^32-1 ...)
    interesting = sorted({10 ** k - 1 for k in range(1, 20)} | {(1 << k) - 1 for k in (8, 15, 16, 24, 31, 32, 48, 53, 63)} | {(1 << k) for k in (8, 16, 32)})
    for w in (16, 20, 32, 64):
        for v in interesting:
            if v + 3 <= (1 << w) - 1:
                i += 1
                if ctx.mine(i):
                    k_file(ctx, w, 4, "every" if v & 1 else "never", ctx.seed + v % 1000, start_at=v - 1)
    for j in range(ctx.n(120, 6000)):
        k_rewidth(ctx, "mem" if j & 1 else "file", ctx.seed * 1_000_003 + ctx.shard[0] * 100_003 + j)
    for w in (9, 10, 11, 12, 13, 15):
        i += 1
        if ctx.mine(i):
            k_file(ctx, w, 200, "every", ctx.seed + w, start_at=(1 << w) - 100)
    i += 1
    if ctx.mine(i):
        k_process(ctx, 2, 11)
        if not ctx.quick:
            k_process(ctx, 4, 40)
    if ctx.shard[0] == 0:
        for w in (3, 14):
            for c in (b"", b"\n", b"abc\n", b"-1\n", b"1.5\n", b" 5\n", b"0x10\n", str(1 << w).encode() + b"\n", str((1 << w) - 1).encode() + b"\n", b"1" + b"0" * 30 + b"\n",
                      "٣\n".encode(), "²\n".encode(), b"\xff\xfe\n", b"5\n7\n", b"5", b"0\n383\n", b"7 \n", b"7\r\n", b"\n5\n", b"+3\n", b"1_0\n", b"00\n", b"007\n", b"-0\n", b"1__0\n", b"_1\n", b"1_\n", b"\t4\n", b"1e2\n", b"0b1\n", b"0o7\n", b"1 2\n", b"3\x0c\n"):
                k_content(ctx, w, c.hex())
        for when in (0, 1, 5):
            k_missing(ctx, when)


def conclude(ctx):
    ctx.require(len(ctx.tables.get("mem_widths", {})) == 16, "in-memory widths incomplete")
    for w in range(1, 9):
        ctx.require(ctx.tables.get("file_cells", {}).get(f"file/width={w}/restart=every", 0) > 0, f"file width {w} with restarts before every call missing")
    ctx.require(ctx.tables.get("file_opens_observed", {}).get("count", 0) > 0, "audit hook saw no open() of the counter file")
    for m in ("count.sequence", "count.range", "count.acceptable", "count.file_state", "count.across_processes", "count.rejection", "count.missing_file", "count.after_width_change"):
        ctx.require(ctx.monitors.get(m, {}).get("evaluations", 0) > 0, f"monitor {m} never evaluated")
