"""C03 - PUS-C telemetry for any timestamp length: exact encoding, inverse decode, short length rejected."""
from __future__ import annotations

from spverif.core.util import attempt, exc_sig, documented_errors, pool_uint, rand_uint, rand_bytes, hist_len
from spverif.ref import pus as R
from spverif.props import _views as V
from spverif.ref.crc import crc16

SCRIBBLE = True
ID = "C03"
LEVEL = "exploration"
SHARDS = {"quick": 1, "thorough": 16}
RULE = ("cases = (route, apid, count, service, subservice, message counter, destination id, time reference, "
        "packet version, timestamp, source data) with the timestamp length handed to the decoder as configuration, "
        "and crafted raw buffers for the rejection clause; timestamp lengths {0,1,2,6,7,8,15,16,32}, all 16 time "
        "references, all 8 packet versions, all services/subservices; non-trivial = not the default ping TM[17,2] with zero "
        "counter/destination/time-reference/version; distinct = distinct (field tuple, timestamp, data digest)")
TRUSTED = ["CPython 3.12", "spverif.ref.pus", "spverif.ref.ccsds", "spverif.ref.crc"]
ASSUMPTIONS = [
    "oracle = independent model of ECSS-E-ST-70-41C TM packet (spverif/ref/pus.py)",
    "the decoder is always given the timestamp length the packet was built with (the property's configuration)",
]
TS_LENS = (0, 1, 2, 6, 7, 8, 15, 16, 32)
ROUTES = ("ctor", "composite", "srv17")


def _imp():
    from spacepackets.ecss import tm as tmm
    from spacepackets.ecss import check_pus_crc
    from spacepackets.ecss.pus_17_test import Service17Tm
    from spacepackets.ccsds import spacepacket as sp
    return tmm, sp, check_pus_crc, Service17Tm


def _lenclass(n):
    return "0" if n == 0 else "1-64" if n <= 64 else "65-4096" if n <= 4096 else "big"


def _tm_fields(t):
    h = t.sp_header
    sh = t.pus_tm_sec_header
    return {"version": h.ccsds_version, "ptype": int(h.packet_type), "shf": int(bool(h.sec_header_flag)), "apid": h.apid,
            "flags": int(h.seq_flags), "count": h.seq_count, "length": h.data_len, "time_ref": sh.spacecraft_time_ref,
            "service": sh.service, "subservice": sh.subservice, "msg_counter": sh.message_counter, "dest_id": sh.dest_id,
            "timestamp": bytes(sh.timestamp), "data": bytes(t.tm_data)}


def build(route, apid, count, service, subservice, msg_counter, dest_id, time_ref, version, ts, data):
    tmm, sp, _, Service17Tm = _imp()
    if route == "ctor":
        return tmm.PusTm(service=service, subservice=subservice, timestamp=ts, source_data=data, apid=apid,
                         seq_count=count, message_counter=msg_counter, space_time_ref=time_ref,
                         destination_id=dest_id, packet_version=version)
    if route == "composite":
        h = sp.SpacePacketHeader(sp.PacketType.TM, apid, count, 7 + len(ts) + len(data) + 1, True,
                                 sp.SequenceFlags.UNSEGMENTED, version)
        sh = tmm.PusTmSecondaryHeader(service, subservice, ts, msg_counter, dest_id, time_ref)
        return tmm.PusTm.from_composite_fields(h, sh, data)
    if route == "srv17":
        return Service17Tm(apid=apid, subservice=subservice, timestamp=ts, ssc=count, source_data=data,
                           packet_version=version, space_time_ref=time_ref, destination_id=dest_id)
    raise AssertionError(route)


def k_tm(ctx, route, apid, count, service, subservice, msg_counter, dest_id, time_ref, version, ts, data, model_fed=False):
    tmm, sp, check_pus_crc, Service17Tm = _imp()
    ts_b = bytes.fromhex(ts) if isinstance(ts, str) else bytes(ts)
    data_b = bytes.fromhex(data) if isinstance(data, str) else bytes(data)
    if route == "srv17":
        service, msg_counter = 17, 0
    case = {"k": "tm", "route": route, "apid": apid, "count": count, "service": service, "subservice": subservice,
            "msg_counter": msg_counter, "dest_id": dest_id, "time_ref": time_ref, "version": version,
            "ts": ts_b.hex(), "data": data_b.hex()}          # complete, so that a witness can be replayed as it is
    sample = case if len(data_b) <= 64 else dict(case, data=data_b[:8].hex() + "..", data_len=len(data_b))
    trivial = (service, subservice, msg_counter, dest_id, time_ref, version) == (17, 2, 0, 0, 0, 0) and len(ts_b) in (0, 7)
    ctx.case(f"tm/{route}/ts={len(ts_b)}/len={_lenclass(len(data_b))}",
             (route, apid, count, service, subservice, msg_counter, dest_id, time_ref, version, ts_b, hash(data_b)),
             nontrivial=not trivial, sample=sample)
    ctx.table("time_ref", time_ref)
    ctx.table("packet_version", version)
    ctx.table("timestamp_len", len(ts_b))
    want = R.tm(apid, count, service, subservice, msg_counter, dest_id, time_ref, ts_b, data_b, version=version)
    ok, t = attempt(build, route, apid, count, service, subservice, msg_counter, dest_id, time_ref, version, ts_b, data_b)
    if not ctx.check("tm.construct", ok, "raised", exc_sig(t) if not ok else "", case, error=repr(t)):
        return
    ok, p = attempt(t.pack)
    if not ctx.check("tm.pack", ok, "raised", exc_sig(p) if not ok else "", case, error=repr(p)):
        return
    p = bytes(p)
    if not ctx.check("tm.pack", p == want, "octets", _octet_diff(p, want, len(ts_b)), case, expected=want[:80], observed=p[:80]):
        return
    inner = t.pus_tm if route == "srv17" else t
    ctx.check("tm.packet_len", inner.packet_len == len(want), "value", "", case, observed=inner.packet_len, expected=len(want))
    ctx.check("tm.crc", check_pus_crc(p) is True and crc16(p) == 0, "valid_packet_fails_check", "", case)
    ctx.check("tm.timestamp_offset", tmm.PUS_TM_TIMESTAMP_OFFSET == 13 and p[13:13 + len(ts_b)] == ts_b, "position", "", case)
    ok, sp_p = attempt(lambda: inner.to_space_packet().pack())
    ctx.check("tm.space_packet_view", ok and bytes(sp_p) == want, "octets", "", case, observed=sp_p if ok else repr(sp_p))
    ok, p2 = attempt(t.pack)
    ctx.check("tm.pack", ok and bytes(p2) == want, "second_pack_differs", "", case)
    ctx.check("tm.service_from_bytes", tmm.PusTm.service_from_bytes(bytearray(p)) == service, "value", "", case)
    src = want if model_fed else p
    if route == "srv17":
        ok, w = attempt(Service17Tm.unpack, src, len(ts_b))
        if not ctx.check("tm.unpack", ok, "raised", "srv17/" + (exc_sig(w) if not ok else ""), case, error=repr(w)):
            return
        views = (w.service, w.subservice, bytes(w.timestamp), bytes(w.source_data), w.sp_header.apid, w.ccsds_version,
                 w.packet_seq_control.seq_count, w.packet_id.apid)
        ctx.check("tm.srv17_views", views == (17, subservice, ts_b, data_b, apid, version, count, apid), "value", "", case,
                  observed=views)
        ok2, rp = attempt(w.pack)
        ctx.check("tm.roundtrip", ok2 and bytes(rp) == want, "srv17_repack", "", case)
        u = w.pus_tm
    else:
        ok, u = attempt(tmm.PusTm.unpack, src, len(ts_b))
        if not ctx.check("tm.unpack", ok, "raised", exc_sig(u) if not ok else "", case, error=repr(u)):
            return
    if service == 17 and route != "srv17":
        # any service-17 telemetry (not only what the wrapper's constructor can build) decoded through the wrapper
        ok, w = attempt(Service17Tm.unpack, src, len(ts_b))
        if ctx.check("tm.unpack", ok, "raised", "srv17_of_general_tm/" + (exc_sig(w) if not ok else ""), case, error=repr(w)):
            ok2, rp = attempt(w.pack)
            ctx.check("tm.roundtrip", ok2 and bytes(rp) == want, "srv17_repack_of_general_tm", _octet_diff(bytes(rp), want, len(ts_b)) if ok2 else "raised", case,
                      observed=bytes(rp) if ok2 else repr(rp), expected=want)
            ctx.check("tm.srv17_views", _tm_fields(w.pus_tm) == {k: R.decode_tm(want, len(ts_b))[k] for k in _tm_fields(w.pus_tm)}, "fields_of_general_tm", "", case)
    got = _tm_fields(u)
    exp = R.decode_tm(want, len(ts_b))
    exp_f = {k: exp[k] for k in got}
    if not ctx.check("tm.unpack", got == exp_f, "field", ",".join(k for k in got if got[k] != exp_f[k]), case,
                     expected={k: v for k, v in exp_f.items() if k != "data"},
                     observed={k: v for k, v in got.items() if k != "data"}):
        return
    ctx.check("tm.roundtrip", u == inner and inner == u, "eq", "", case)
    ctx.check("tm.roundtrip", u.packet_len == len(want), "packet_len", "", case)
    ok, rp = attempt(u.pack)
    ctx.check("tm.roundtrip", ok and bytes(rp) == want, "repack", "", case)
    ctx.check("tm.roundtrip", u.crc16 is not None and bytes(u.crc16) == want[-2:], "crc16_attr", "", case)
    V.sp_views(ctx, "tm.delegated_views", t, want, case, f"{type(t).__name__}/{route}")
    V.sp_views(ctx, "tm.delegated_views", u, want, case, "PusTm/unpacked")
    # decoded from a buffer that goes on after the packet: the stored trailer is the packet's, not the buffer's
    ok, u2 = attempt(tmm.PusTm.unpack, src + (want[:3] if len(want) & 1 else b"\xa5" * 5), len(ts_b))
    if ctx.check("tm.unpack", ok, "raised_with_following_octets", exc_sig(u2) if not ok else "", case, error=repr(u2)):
        ok, rp = attempt(u2.pack, recalc_crc=False)
        ctx.check("tm.roundtrip", ok and bytes(rp) == want and bytes(u2.crc16) == want[-2:] and u2 == inner, "decoded_from_longer_buffer", "", case, observed=bytes(rp)[-8:] if ok else repr(rp))


def _octet_diff(a, b, ts_len) -> str:
    if len(a) != len(b):
        return f"len{len(a) - len(b):+d}"
    for i, (x, y) in enumerate(zip(a, b)):
        if x != y:
            if i < 6:
                return "primary_header"
            if i < 13:
                return f"sec_header[{i - 6}]"
            if i < 13 + ts_len:
                return "timestamp"
            if i >= len(a) - 2:
                return "crc"
            return "data"
    return ""


def craft_short_tm(rng, n, ts_len):
    """Length field declares n total octets (7 <= n < 6+7+ts_len+2); CRC over the declared octets is zero;
    octet 6 is a PUS-C version octet; a plausible remainder of a telemetry packet follows."""
    for _ in range(2_000_000):
        apid, count = rng.getrandbits(11), rng.getrandbits(14)
        h = bytes([0x08 | (apid >> 8), apid & 0xFF, 0xC0 | (count >> 8), count & 0xFF, (n - 7) >> 8, (n - 7) & 0xFF])
        if n >= 9:
            p = h + bytes([0x20 | rng.getrandbits(4)]) + rng.randbytes(n - 9)
            p += crc16(p).to_bytes(2, "big")
        elif n == 8:
            c = crc16(h)
            if c >> 12 != 2:
                continue
            p = h + c.to_bytes(2, "big")
        else:
            c = crc16(h[:5])
            if c >> 8 != h[5] or (c & 0xF0) != 0x20:
                continue
            p = h[:5] + c.to_bytes(2, "big")
        assert crc16(p[:n]) == 0 and len(p) == n
        return p + bytes([17, 2, 0, 1, 0, 2]) + rng.randbytes(ts_len + 8)
    raise RuntimeError("no crafted buffer found")


def k_tm_short(ctx, raw, ts_len, via="tm"):
    tmm, sp, _, Service17Tm = _imp()
    b = bytes.fromhex(raw)
    n = int.from_bytes(b[4:6], "big") + 7
    case = {"k": "tm_short", "raw": raw, "ts_len": ts_len, "via": via}
    ctx.case(f"tm_short/ts={ts_len}/missing={6 + 7 + ts_len + 2 - n}", ("short", raw, ts_len, via), sample=case)
    ctx.table("short_declared_missing_octets", 6 + 7 + ts_len + 2 - n)
    fn = tmm.PusTm.unpack if via == "tm" else Service17Tm.unpack
    ok, res = attempt(fn, b, ts_len)
    ctx.ev("tm.short_declared_rejected")
    if ok:
        u = res if via == "tm" else res.pus_tm
        ctx.fail("tm.short_declared_rejected", "decoded_from_neighbouring_octets", f"via={via}", case,
                 observed={"service": u.service, "timestamp": bytes(u.timestamp).hex(), "tm_data": bytes(u.tm_data).hex(),
                           "packet_len": u.packet_len})
    elif not isinstance(res, documented_errors()):
        ctx.fail("tm.short_declared_rejected", "undocumented_error", exc_sig(res), case, error=repr(res))


def k_sec_header(ctx, service, subservice, msg_counter, dest_id, time_ref, ts):
    tmm, _, _, _ = _imp()
    ts_b = bytes.fromhex(ts)
    case = {"k": "sec_header", "service": service, "subservice": subservice, "msg_counter": msg_counter,
            "dest_id": dest_id, "time_ref": time_ref, "ts": ts}
    ctx.case(f"sec_header/ts={len(ts_b)}", (service, subservice, msg_counter, dest_id, time_ref, ts), sample=case)
    want = R.tm_sec_header(service, subservice, msg_counter, dest_id, time_ref, ts_b)
    ok, p = attempt(lambda: tmm.PusTmSecondaryHeader(service, subservice, ts_b, msg_counter, dest_id, time_ref).pack())
    ctx.check("tm.sec_header", ok and bytes(p) == want, "pack", "", case, expected=want, observed=p if ok else repr(p))
    ok, h = attempt(tmm.PusTmSecondaryHeader.unpack, want + b"\x55\x66", len(ts_b))
    ctx.check("tm.sec_header", ok and (h.service, h.subservice, h.message_counter, h.dest_id, h.spacecraft_time_ref,
                                      bytes(h.timestamp)) == (service, subservice, msg_counter, dest_id, time_ref, ts_b),
              "unpack", "", case, observed=repr(h))
    if ok:
        ctx.check("tm.sec_header", h.header_size == 7 + len(ts_b), "header_size", "", case, observed=h.header_size)
    ok, h = attempt(tmm.PusTmSecondaryHeader.unpack, want, len(ts_b))     # exactly the packed octets, nothing behind them
    ctx.check("tm.sec_header", ok and (h.service, h.subservice, h.message_counter, h.dest_id, h.spacecraft_time_ref,
                                      bytes(h.timestamp)) == (service, subservice, msg_counter, dest_id, time_ref, ts_b),
              "unpack_exact_octets", "", case, observed=repr(h))


def poison_tm(r):
    """Operations on another, invalid telemetry packet that fail part-way (fault sequence)."""
    tmm, sp, _, Service17Tm = _imp()
    outcomes = []
    for mk in (lambda: tmm.PusTm(service=r.choice((256, 300)), subservice=1, timestamp=b"", apid=1),
               lambda: tmm.PusTm(service=17, subservice=2, timestamp=r.choice((None, "stamp", 7)), apid=1),
               lambda: tmm.PusTm(service=17, subservice=2, timestamp=b"", source_data=r.choice(("text", 5, None)), apid=1),
               lambda: tmm.PusTm(service=17, subservice=2, timestamp=b"", apid=1, message_counter=r.choice((65536, -1)))):
        ok, t = attempt(mk)
        if not ok:
            outcomes.append("ctor:" + type(t).__name__)
            continue
        for name in r.sample(("calc_crc", "pack", "to_space_packet"), 2):
            ok, e = attempt(getattr(t, name))
            outcomes.append(name + (":ok" if ok else ":" + type(e).__name__))
    ok, e = attempt(tmm.PusTm.unpack, r.randbytes(r.randrange(0, 24)), r.choice((0, 7)))
    outcomes.append("unpack" + (":ok" if ok else ":" + type(e).__name__))
    return outcomes


def k_view_history(ctx, seed):
    """After any mix of pack / calc_crc / to_space_packet / unpack and changes through the public setters, pack() and the
    space-packet view both equal the model of the current field values (also through the service-17 wrapper)."""
    import random
    tmm, sp, check_pus_crc, Service17Tm = _imp()
    r = random.Random(f"tmview/{seed}")
    case = {"k": "view_history", "seed": seed}
    ctx.case("tm_view_history", seed, sample=case)
    ts = r.randbytes(r.choice((0, 7, 16)))
    f = {"apid": r.getrandbits(11), "count": r.getrandbits(14), "service": r.getrandbits(8), "subservice": r.getrandbits(8), "mc": r.getrandbits(16), "dest": r.getrandbits(16),
         "tref": r.getrandbits(4), "ver": r.getrandbits(3), "data": r.randbytes(r.randrange(0, 12))}
    route = r.choice(ROUTES)
    if route == "srv17":
        f["service"], f["mc"] = 17, 0
    w = build(route, f["apid"], f["count"], f["service"], f["subservice"], f["mc"], f["dest"], f["tref"], f["ver"], ts, f["data"])
    t = w.pus_tm if route == "srv17" else w
    wrapper = w if route == "srv17" else None
    if r.random() < 0.4:
        if wrapper is not None:
            wrapper = Service17Tm.unpack(bytes(wrapper.pack()), len(ts))
            t = wrapper.pus_tm
        else:
            t = tmm.PusTm.unpack(bytes(t.pack()), len(ts))
    ops = []

    def eq_now():
        t_eq = build("ctor", f["apid"], f["count"], f["service"], f["subservice"], f["mc"], f["dest"], f["tref"], f["ver"], ts, f["data"])
        if len(ops) % 2:
            t_eq.pack()
        oke, e = attempt(lambda: (t == t_eq) and (t_eq == t))
        return ctx.check("tm.view_history", oke and e is True, "object_unequal_to_a_fresh_one_with_the_same_field_values",
                         "after_field_change" if any(o in ops for o in ("apid", "tm_data", "seq_count")) else "unchanged", dict(case, ops=list(ops)), observed=repr(e))

    for step in range(hist_len(r, 2, 9)):
        op = r.choice(("pack", "calc_crc", "view", "apid", "tm_data", "pack_cached", "seq_count", "poison", "calc_crc_cached") + (("wrapper_pack", "wrapper_pack") if wrapper is not None else ()))
        ops.append(op)
        if op == "pack":
            got = bytes(t.pack())
        elif op == "poison":
            for o in poison_tm(r):
                ctx.table("poison_outcomes", o)
            continue
        elif op == "calc_crc_cached":
            t.calc_crc()
            got = bytes(t.pack(recalc_crc=False))
        elif op == "wrapper_pack":
            got = bytes(wrapper.pack())
        elif op == "seq_count":
            f["count"] = rand_uint(r, 14)
            t.sp_header.seq_count = f["count"]
            if not eq_now():
                return
            continue
        elif op == "pack_cached":
            t.pack()
            got = bytes(t.pack(recalc_crc=False))
        elif op == "calc_crc":
            t.calc_crc()
            continue
        elif op == "view":
            got = bytes(t.to_space_packet().pack())
        elif op == "apid":
            f["apid"] = rand_uint(r, 11)
            t.apid = f["apid"]
            if not eq_now():
                return
            continue
        else:
            f["data"] = r.randbytes(r.randrange(0, 12))
            t.tm_data = f["data"]
            if not eq_now():
                return
            continue
        want = R.tm(f["apid"], f["count"], f["service"], f["subservice"], f["mc"], f["dest"], f["tref"], ts, f["data"], version=f["ver"])
        what = "space_packet_view" if op == "view" else "pack"
        changed = any(o in ops for o in ("apid", "tm_data", "seq_count"))
        if op == "wrapper_pack":
            what = "service17_wrapper_pack"
        ctx.table("view_history_ops", op)
        V.sp_views(ctx, "tm.view_history", t, want, dict(case, ops=ops), "PusTm/history")
        if not eq_now():
            return
        if wrapper is not None:
            V.sp_views(ctx, "tm.view_history", wrapper, want, dict(case, ops=ops), "Service17Tm/history")
        if not ctx.check("tm.view_history", got == want, f"{what}_differs_from_current_fields", _octet_diff(got, want, len(ts)) + ("/after_field_change" if changed else ""),
                         dict(case, ops=ops), observed=got, expected=want):
            return


def craft_tm_crc_boundary(rng, where, target, ts, n):
    """Field values of a telemetry packet whose CRC register equals `target` after the primary header (where='primary') or
    after primary + secondary header incl. the timestamp (where='secondary')."""
    from spverif.ref.crc import find16
    from spverif.ref import ccsds as H
    for _ in range(64):
        apid, svc, sub, tref, mc, count = rng.getrandbits(11), rng.getrandbits(8), rng.getrandbits(8), rng.getrandbits(4), rng.getrandbits(16), rng.getrandbits(14)
        length = 7 + len(ts) + n + 2 - 1
        if where == "primary":
            x = find16(b"", lambda x: H.encode_header(0, 0, 1, apid, 3, x, length), target, 16384)
            if x is not None:
                return apid, x, svc, sub, mc, rng.getrandbits(16), tref
        else:
            head = H.encode_header(0, 0, 1, apid, 3, count, length) + bytes([0x20 | tref, svc, sub]) + mc.to_bytes(2, "big")
            x = find16(head, lambda x: x.to_bytes(2, "big") + ts, target)
            if x is not None:
                return apid, count, svc, sub, mc, x, tref
    return None


def k_tm_wrong_type(ctx, apid, count, ts, data):
    """A primary header that says 'telecommand' handed to the composite-fields route: refused, or packed as telemetry."""
    tmm, sp, _, Service17Tm = _imp()
    t, d = bytes.fromhex(ts), bytes.fromhex(data)
    case = {"k": "tm_wrong_type", "apid": apid, "count": count, "ts": ts, "data": data}
    ctx.case("tm_wrong_type", (apid, count, t, d), sample=case)
    h = sp.SpacePacketHeader(sp.PacketType.TC, apid, count, 7 + len(t) + len(d) + 1, True, sp.SequenceFlags.UNSEGMENTED)
    ok, res = attempt(lambda: bytes(tmm.PusTm.from_composite_fields(h, tmm.PusTmSecondaryHeader(17, 2, t, 0, 0, 0), d).pack()))
    ctx.ev("tm.refusal")
    if ok and (res[0] >> 4) & 1:
        ctx.fail("tm.refusal", "telecommand_header_packed_as_telemetry", "composite", case, observed=res[:16])
    elif not ok and not isinstance(res, ValueError):
        ctx.fail("tm.refusal", "wrong_error", f"composite/{type(res).__name__}", case, error=repr(res))


def k_same_shape_series(ctx, seed):
    """Many telemetry packets one after the other that agree in every header field, the timestamp length and the length of their
    source data and differ only in content (timestamp and data), each with fresh objects that are released again."""
    import random
    tmm, sp, check_pus_crc, Service17Tm = _imp()
    r = random.Random(f"tmseries/{seed}")
    case = {"k": "same_shape_series", "seed": seed}
    ctx.case("tm_same_shape_series", seed, sample=case)
    f = (r.getrandbits(11), r.getrandbits(14), r.getrandbits(8), r.getrandbits(8), r.getrandbits(16), r.getrandbits(16), r.getrandbits(4), r.getrandbits(3))
    n, tsl = r.choice((0, 1, 16, 255, 256, 257, 300, 1024, 4096)), r.choice((0, 7, 16))
    for i in range(r.choice((6, 12, 40))):
        data = bytes(rand_bytes(r, n)) if r.random() < 0.8 else bytearray(rand_bytes(r, n))
        ts = bytes(rand_bytes(r, tsl))
        want = R.tm(f[0], f[1], f[2], f[3], f[4], f[5], f[6], ts, bytes(data), version=f[7])
        t = build("ctor", f[0], f[1], f[2], f[3], f[4], f[5], f[6], f[7], ts, data)
        how = r.choice(("pack", "pack", "view", "pack_twice", "decode"))
        if how == "decode":
            ok, got = attempt(lambda: bytes(tmm.PusTm.unpack(want, tsl).pack()))
        else:
            ok, got = attempt(lambda: bytes(t.to_space_packet().pack()) if how == "view" else (t.pack(), bytes(t.pack()))[1] if how == "pack_twice" else bytes(t.pack()))
        if not ctx.check("tm.series", ok and got == want, "packet_of_an_earlier_telemetry_packet_of_the_same_shape_shows", f"{_octet_diff(got, want, tsl) if ok else 'raised'}/len={_lenclass(n)}", dict(case, index=i, how=how),
                         observed=got[-8:] if ok else repr(got), expected=want[-8:]):
            return
        del t, data, ts


def k_defaults(ctx, seed):
    """Telemetry built with defaulted arguments, one of them extended in place afterwards (tm.tm_data += ...): every later
    packet built with defaults carries the documented defaults again (empty source data, APID 0, counters 0, version 0)."""
    import random
    tmm, sp, check_pus_crc, Service17Tm = _imp()
    r = random.Random(f"tmdefaults/{seed}")
    case = {"k": "defaults", "seed": seed}
    ctx.case("tm_defaults", seed, sample=case)
    for i in range(3):
        sv, sb, ts = r.getrandbits(8), r.getrandbits(8), r.randbytes(r.choice((0, 7)))
        ok, t = attempt(tmm.PusTm, service=sv, subservice=sb, timestamp=ts)
        want = R.tm(0, 0, sv, sb, 0, 0, 0, ts, b"", version=0)
        ok2, raw = attempt(lambda: bytes(t.pack())) if ok else (False, t)
        if not ctx.check("tm.defaults", ok and ok2 and raw == want and bytes(t.tm_data) == b"", "defaulted_arguments_are_not_the_documented_defaults", "first" if i == 0 else "after_an_earlier_object_was_extended_in_place", dict(case, index=i),
                         observed=raw if ok2 else repr(raw), expected=want):
            return
        extra = r.randbytes(r.randrange(1, 5))
        how = r.choice(("iadd", "extend_if_mutable", "assign"))
        if how == "iadd":
            t.tm_data += extra
        elif how == "extend_if_mutable" and isinstance(t.tm_data, bytearray):
            t.tm_data.extend(extra)
        else:
            t.tm_data = bytes(t.tm_data) + extra
        ok3, raw3 = attempt(lambda: bytes(t.pack()))
        ctx.check("tm.defaults", ok3 and raw3 == R.tm(0, 0, sv, sb, 0, 0, 0, ts, extra, version=0), "octets_after_extending_the_default_data", how, dict(case, index=i))


KINDS = {"defaults": k_defaults, "same_shape_series": k_same_shape_series, "tm_wrong_type": k_tm_wrong_type, "tm": k_tm, "tm_short": k_tm_short, "sec_header": k_sec_header, "view_history": k_view_history}


def selftest(ctx):
    assert R.tm(1, 0, 17, 2, 0, 0, 0, b"", b"").hex() == "0801c00000082011020000000086d7"
    n = 1
    for _ in range(300):
        ts = ctx.rng.randbytes(ctx.rng.choice(TS_LENS))
        d = ctx.rng.randbytes(ctx.rng.randrange(0, 100))
        p = R.tm(ctx.rng.getrandbits(11), ctx.rng.getrandbits(14), 5, 6, 7, 8, 9, ts, d, version=ctx.rng.getrandbits(3))
        dd = R.decode_tm(p, len(ts))
        assert dd["data"] == d and dd["timestamp"] == ts and dd["crc_ok"]
        n += 1
    ctx.selftest["ref.pus.tm golden+roundtrip"] = n


def run(ctx):
    from spverif.ref import enums as _enums
    if ctx.shard[0] == 0:
        _enums.check(ctx, "code_tables", ['spacepackets.ecss.defs', 'spacepackets.ecss.pus_17_test', 'spacepackets.ccsds.spacepacket'])
    from spverif.san import scribble
    scribble.install()
    r = ctx.rng

    def ts_of(n):
        if n == 7 and r.random() < 0.5:
            return b"\x40" + r.randbytes(6)
        return rand_bytes(r, n)

    i = 0
    for ts_len in TS_LENS:
        for time_ref in range(16):
            for route in ROUTES:
                i += 1
                if ctx.mine(i):
                    k_tm(ctx, route, rand_uint(r, 11), rand_uint(r, 14), rand_uint(r, 8), rand_uint(r, 8), rand_uint(r, 16),
                         rand_uint(r, 16), time_ref, r.getrandbits(3), ts_of(ts_len), rand_bytes(r, r.randrange(0, 20)),
                         model_fed=bool(i & 1))
        for version in range(8):
            for route in ROUTES:
                i += 1
                if ctx.mine(i):
                    k_tm(ctx, route, rand_uint(r, 11), rand_uint(r, 14), rand_uint(r, 8), rand_uint(r, 8), rand_uint(r, 16),
                         rand_uint(r, 16), r.getrandbits(4), version, ts_of(ts_len), rand_bytes(r, r.randrange(0, 20)))
    ctx.exhaustive.append("timestamp lengths {0,1,2,6,7,8,15,16,32} x all 16 time references x 3 routes; x all 8 packet versions x 3 routes")
    for v in range(256):
        if ctx.mine(v):
            k_tm(ctx, "ctor", r.getrandbits(11), r.getrandbits(14), v, r.getrandbits(8), r.getrandbits(16), r.getrandbits(16),
                 r.getrandbits(4), r.getrandbits(3), ts_of(r.choice(TS_LENS)), rand_bytes(r, v % 5))
            k_tm(ctx, ROUTES[v % 3], r.getrandbits(11), r.getrandbits(14), r.getrandbits(8), v, r.getrandbits(16),
                 r.getrandbits(16), r.getrandbits(4), r.getrandbits(3), ts_of(r.choice(TS_LENS)), rand_bytes(r, v % 3), model_fed=True)
            k_sec_header(ctx, v, 255 - v, (v * 257) & 0xFFFF, (v * 263) & 0xFFFF, v & 0xF, ts_of(TS_LENS[v % 9]).hex())
    ctx.exhaustive.append("all 256 services and all 256 subservices")
    for x in pool_uint(16):
        k_tm(ctx, "ctor", 1, 2, 3, 4, x, 0xFFFF ^ x, 5, 6, ts_of(7), b"\x01")
        k_tm(ctx, "composite", 1, 2, 3, 4, 0xFFFF ^ x, x, 5, 6, ts_of(2), b"")
    for apid in pool_uint(11):
        k_tm(ctx, r.choice(ROUTES), apid, r.getrandbits(14), 3, 25, 1, 2, 3, 4, ts_of(7), b"\x00")
    for count in pool_uint(14):
        k_tm(ctx, r.choice(ROUTES), r.getrandbits(11), count, 3, 25, 1, 2, 3, 4, ts_of(1), b"")
    lens = list(range(0, 65)) + [255, 256, 1000, 4096]
    for j, n in enumerate(lens):
        if ctx.mine(j):
            for route in ROUTES:
                k_tm(ctx, route, r.getrandbits(11), r.getrandbits(14), r.getrandbits(8), r.getrandbits(8), r.getrandbits(16),
                     r.getrandbits(16), r.getrandbits(4), r.getrandbits(3), ts_of(r.choice(TS_LENS)), rand_bytes(r, n),
                     model_fed=bool(j & 1))
    # block-boundary sizes: CRC-covered octets (13 + ts + n) and total octets (15 + ts + n) around multiples of 256 ... 32768
    from spverif.core.util import block_boundary_sizes
    for tsl in (0, 7):
        for j, n in enumerate(block_boundary_sizes((13 + tsl, 15 + tsl), 65535 - 9 - tsl, ctx.quick)):
            if ctx.mine(j):
                ctx.table("block_boundary_data_len", n)
                k_tm(ctx, ROUTES[j % 3], r.getrandbits(11), r.getrandbits(14), r.getrandbits(8), r.getrandbits(8), r.getrandbits(16),
                     r.getrandbits(16), r.getrandbits(4), r.getrandbits(3), ts_of(tsl), rand_bytes(r, n), model_fed=bool(j & 1))
    if ctx.shard[0] == 0:
        for ts_len in (0, 7, 32):
            n = 65536 - 7 - ts_len - 2
            for route in ROUTES:
                k_tm(ctx, route, 0x2AA, 0x1555, 130, 131, 0x8001, 0x7FFE, 0xA, 5, ts_of(ts_len), bytes([ts_len + 1]) * n)
            ok, res = attempt(lambda: build("ctor", 1, 2, 3, 4, 5, 6, 7, 0, ts_of(ts_len), bytes(n + 1)).pack())
            ctx.check("tm.refusal", not ok, "oversize_accepted", "ctor", {"ts_len": ts_len, "data_len": n + 1})
    for _ in range(ctx.n(2500, 300_000)):
        n = r.choice((0, 1, 2, 3, 5, 8, 13, 21, 34, 55, 89, 144, 233, 377)) if r.random() < 0.7 else r.randrange(0, 2000)
        k_tm(ctx, r.choice(ROUTES), rand_uint(r, 11), rand_uint(r, 14), rand_uint(r, 8), rand_uint(r, 8), rand_uint(r, 16),
             rand_uint(r, 16), rand_uint(r, 4), rand_uint(r, 3), ts_of(r.choice(TS_LENS)), rand_bytes(r, n),
             model_fed=r.random() < 0.5)
    for j in range(ctx.n(1500, 150_000)):
        k_view_history(ctx, ctx.seed * 1_000_003 + ctx.shard[0] * 100_003 + j)
    for j in range(ctx.n(60, 6_000)):
        k_defaults(ctx, ctx.seed * 1_000_003 + ctx.shard[0] * 100_003 + j)
    for j in range(ctx.n(120, 12_000)):
        k_same_shape_series(ctx, ctx.seed * 1_000_003 + ctx.shard[0] * 100_003 + j)
    # telemetry whose running CRC is exactly 0x0000 / 0xFFFF after the primary header, or after both headers
    for where in ("primary", "secondary"):
        for target in (0x0000, 0xFFFF):
            for tsl, n in ((0, 0), (7, 3), (16, 9)):
                ts = ts_of(tsl)
                f = craft_tm_crc_boundary(r, where, target, ts, n)
                if f is not None:
                    ctx.table("crc_register_at_boundary", f"{where}/{target:04x}")
                    for route in ("ctor", "composite"):
                        k_tm(ctx, route, f[0], f[1], f[2], f[3], f[4], f[5], f[6], 0, ts, rand_bytes(r, n), model_fed=(n == 3))
    for _ in range(ctx.n(120, 6000)):
        k_tm(ctx, r.choice(("ctor", "composite")), rand_uint(r, 11), rand_uint(r, 14), 17, rand_uint(r, 8), rand_uint(r, 16), rand_uint(r, 16), rand_uint(r, 4), rand_uint(r, 3),
             ts_of(r.choice(TS_LENS)), rand_bytes(r, r.randrange(0, 20)), model_fed=r.random() < 0.5)
    for n in range(0, 24):
        k_tm_wrong_type(ctx, r.getrandbits(11), r.getrandbits(14), rand_bytes(r, r.choice((0, 7, 16))).hex(), rand_bytes(r, n).hex())
    # rejection clause
    for ts_len in (0, 1, 7, 16):
        minimal = 6 + 7 + ts_len + 2
        for n in sorted({7, 8, 9, 12, 13, 14, minimal - 3, minimal - 2, minimal - 1}):
            if 7 <= n < minimal:
                for via in ("tm", "srv17"):
                    k_tm_short(ctx, craft_short_tm(r, n, ts_len).hex(), ts_len, via)


def conclude(ctx):
    ctx.require(len(ctx.tables.get("crc_register_at_boundary", {})) == 4, "crafted CRC-boundary telemetry packets missing")
    ctx.require(ctx.extra.get("hostile_caller_scribbled_pack_results", 0) > 0, "hostile-caller sanitizer scribbled no pack() result")
    for route in ROUTES:
        for ts in TS_LENS:
            ctx.require(any(k.startswith(f"tm/{route}/ts={ts}/") for k in ctx.classes), f"class tm/{route}/ts={ts} empty")
    for t, n in (("time_ref", 16), ("packet_version", 8), ("timestamp_len", len(TS_LENS))):
        ctx.require(len(ctx.tables.get(t, {})) == n, f"table {t} incomplete")
    for m in ("tm.pack", "tm.unpack", "tm.roundtrip", "tm.space_packet_view", "tm.crc", "tm.srv17_views", "tm.view_history",
              "tm.short_declared_rejected", "tm.packet_len", "tm.timestamp_offset", "tm.sec_header"):
        ctx.require(ctx.monitors.get(m, {}).get("evaluations", 0) > 0, f"monitor {m} never evaluated")
    ctx.require(len(ctx.tables.get("short_declared_missing_octets", {})) >= 5, "too few short-declared classes")
