"""C17 - USLP primary / truncated headers and transfer frames: exact encoding and round trip."""
from __future__ import annotations

import json

from spverif.core.util import attempt, exc_sig, rand_bytes, rand_uint, pool_uint, documented_errors
from spverif.ref import uslp as R

SCRIBBLE = True
THOROUGH_SCALE = 24
ID = "C17"
LEVEL = "exploration"
SHARDS = {"quick": 1, "thorough": 16}
RULE = ("cases = header field tuples (all 2^16 SCIDs, all 64 VCIDs, all 16 MAP ids, both flags, frame-length pool, every VCF-count length "
        "0..7 with boundary values) for the primary and the truncated header, out-of-range ids, and frames over the grid 8 construction "
        "rules x 10 protocol ids x TFDZ sizes {0,1,2,17,1000} x insert zone {none,1,8} x OCF x FECF {none,2,4} x {fixed, variable, "
        "truncated} decoded with matching managed parameters, plus the detectable mismatches; non-trivial = header differs from the "
        "vectors of tests/test_uslp.py; distinct = distinct field tuple / frame description")
TRUSTED = ["CPython 3.12", "spverif.ref.uslp (header words built with integer shifts, int.to_bytes)"]
ASSUMPTIONS = ["oracle = independent model of CCSDS 732.1-B-2 4.1.2 / 4.1.4 (spverif/ref/uslp.py)",
               "only detectable managed-parameter mismatches are required to raise (wrong fixed length, truncated header under the fixed type, "
               "construction rule of the other frame type, wrong properties class, managed sizes leaving no room for the data field)",
               "frame length / VCF count values that do not fit their field are not 'ids': informational"]
RULES = tuple(range(8))
UPIDS = (0, 1, 2, 3, 4, 5, 6, 7, 8, 31)


def _imp():
    from spacepackets.uslp import header as uh
    from spacepackets.uslp import frame as uf
    return uh, uf


def k_primary(ctx, scid, src_dest, vcid, map_id, frame_len, bypass, pcc, ocf, vcf_len, vcf_count):
    uh, uf = _imp()
    case = {"k": "primary", "scid": scid, "src_dest": src_dest, "vcid": vcid, "map_id": map_id, "frame_len": frame_len, "bypass": bypass, "pcc": pcc, "ocf": ocf,
            "vcf_len": vcf_len, "vcf_count": vcf_count}
    ctx.case(f"primary/vcf_len={vcf_len}", tuple(case.values()), nontrivial=scid not in (0x10, 0) or vcf_len not in (0, 1), sample=case)
    want = R.primary_header(scid, src_dest, vcid, map_id, frame_len, bypass, pcc, ocf, vcf_len, vcf_count)
    ok, h = attempt(uh.PrimaryHeader, scid, uh.SourceOrDestField(src_dest), vcid, map_id, frame_len, uh.BypassSequenceControlFlag(bypass), uh.ProtocolCommandFlag(pcc),
                    bool(ocf), vcf_len, vcf_count if vcf_len else None)
    if not ctx.check("hdr.pack", ok, "construct_raised", "", case, error=repr(h)):
        return
    ok, p = attempt(h.pack)
    if not ctx.check("hdr.pack", ok and bytes(p) == want, "octets", f"vcf_len={vcf_len}/" + _where(bytes(p), want) if ok else f"raised:{exc_sig(p)}", case, expected=want,
                     observed=bytes(p) if ok else repr(p)):
        return
    ctx.check("hdr.len", h.len() == len(want) == 7 + vcf_len and h.truncated() is False, "len", f"vcf_len={vcf_len}", case, observed=h.len())
    for sfx in (b"", b"\x5a\xa5\x5a"):
        ok, u = attempt(uh.PrimaryHeader.unpack, want + sfx)
        if not ctx.check("hdr.unpack", ok, "raised", f"vcf_len={vcf_len}/" + (exc_sig(u) if not ok else ""), case, error=repr(u)):
            return
        got = (u.scid, int(u.src_dest), u.vcid, u.map_id, u.frame_len, int(u.bypass_seq_ctrl_flag), int(u.prot_ctrl_cmd_flag), int(bool(u.op_ctrl_flag)), u.vcf_count_len,
               u.vcf_count if vcf_len else 0)
        exp = (scid, src_dest, vcid, map_id, frame_len, bypass, pcc, ocf, vcf_len, vcf_count if vcf_len else 0)
        names = ("scid", "src_dest", "vcid", "map_id", "frame_len", "bypass", "pcc", "ocf", "vcf_len", "vcf_count")
        if not ctx.check("hdr.unpack", got == exp, "field", f"vcf_len={vcf_len}/" + ",".join(n for n, a, b in zip(names, got, exp) if a != b), case, observed=got, expected=exp):
            return
        ok, rp = attempt(u.pack)
        ctx.check("hdr.unpack", ok and bytes(rp) == want and u.len() == len(want), "repack", f"vcf_len={vcf_len}", case)
    ctx.check("hdr.type", uh.determine_header_type(want) == uh.HeaderType.NON_TRUNCATED, "determine_header_type", "primary", case)
    ok, t = attempt(uh.TruncatedPrimaryHeader.unpack, want)
    ctx.check("hdr.type", (not ok) and isinstance(t, documented_errors()), "primary_accepted_as_truncated", "", case, observed=repr(t))


def _where(a, b):
    if len(a) != len(b):
        return f"len{len(a) - len(b):+d}"
    for i, (x, y) in enumerate(zip(a, b)):
        if x != y:
            return f"octet{i}" if i < 7 else "vcf_count"
    return ""


def k_truncated(ctx, scid, src_dest, vcid, map_id):
    uh, uf = _imp()
    case = {"k": "truncated", "scid": scid, "src_dest": src_dest, "vcid": vcid, "map_id": map_id}
    ctx.case("truncated", (scid, src_dest, vcid, map_id), sample=case)
    want = R.truncated_header(scid, src_dest, vcid, map_id)
    ok, h = attempt(uh.TruncatedPrimaryHeader, scid, uh.SourceOrDestField(src_dest), vcid, map_id)
    ok, p = attempt(h.pack) if ok else (False, h)
    if not ctx.check("hdr.pack", ok and bytes(p) == want, "octets", "truncated/" + (_where(bytes(p), want) if ok else "raised"), case, expected=want, observed=bytes(p) if ok else repr(p)):
        return
    ctx.check("hdr.len", h.len() == 4 and h.truncated() is True, "len", "truncated", case)
    ok, u = attempt(uh.TruncatedPrimaryHeader.unpack, want + b"\x01\x02")
    if ctx.check("hdr.unpack", ok, "raised", "truncated", case, error=repr(u)):
        ctx.check("hdr.unpack", (u.scid, int(u.src_dest), u.vcid, u.map_id) == (scid, src_dest, vcid, map_id) and bytes(u.pack()) == want, "field", "truncated", case,
                  observed=(u.scid, int(u.src_dest), u.vcid, u.map_id))
    ctx.check("hdr.type", uh.determine_header_type(want) == uh.HeaderType.TRUNCATED, "determine_header_type", "truncated", case)
    ok, t = attempt(uh.PrimaryHeader.unpack, want + bytes(10))
    ctx.check("hdr.type", (not ok) and isinstance(t, documented_errors()), "truncated_accepted_as_primary", "", case, observed=repr(t))


def k_id_refuse(ctx, field, value, which):
    uh, uf = _imp()
    case = {"k": "id_refuse", "field": field, "value": value, "which": which}
    ctx.case(f"id_refuse/{field}", (field, value, which), sample=case)
    kw = {"scid": 1, "vcid": 2, "map_id": 3}
    kw[field] = value

    def go():
        if which == "primary":
            return uh.PrimaryHeader(kw["scid"], uh.SourceOrDestField.SOURCE, kw["vcid"], kw["map_id"], 10, uh.BypassSequenceControlFlag(0), uh.ProtocolCommandFlag(0), False).pack()
        return uh.TruncatedPrimaryHeader(kw["scid"], uh.SourceOrDestField.SOURCE, kw["vcid"], kw["map_id"]).pack()
    ok, res = attempt(go)
    ctx.ev("hdr.id_refusal")
    if ok:
        ctx.fail("hdr.id_refusal", "out_of_range_id_encoded", f"{field}/{'negative' if value < 0 else 'too_large'}", case, observed=bytes(res))
    elif not isinstance(res, ValueError):
        ctx.fail("hdr.id_refusal", "wrong_error", f"{field}/{type(res).__name__}", case, error=repr(res))


# --------------------------------------------------------------------- frames
def build_frame(d):
    """d: ftype fixed|variable|truncated, rule, upid, tfdz(hex), ptr, iz(hex|None), ocf(hex|None), fecf(hex|None), hdr fields."""
    uh, uf = _imp()
    tfdz = bytes.fromhex(d["tfdz"])
    iz = None if d["iz"] is None else bytes.fromhex(d["iz"])
    ocf = None if d["ocf"] is None else bytes.fromhex(d["ocf"])
    fecf = None if d["fecf"] is None else bytes.fromhex(d["fecf"])
    if d["ftype"] == "truncated":
        h = uh.TruncatedPrimaryHeader(d["scid"], uh.SourceOrDestField(d["src_dest"]), d["vcid"], d["map_id"])
        ref_h = lambda total: R.truncated_header(d["scid"], d["src_dest"], d["vcid"], d["map_id"])  # noqa: E731
    else:
        h = uh.PrimaryHeader(d["scid"], uh.SourceOrDestField(d["src_dest"]), d["vcid"], d["map_id"], 0, uh.BypassSequenceControlFlag(d["bypass"]), uh.ProtocolCommandFlag(d["pcc"]),
                             ocf is not None, d["vcf_len"], d["vcf_count"] if d["vcf_len"] else None)
        ref_h = lambda total: R.primary_header(d["scid"], d["src_dest"], d["vcid"], d["map_id"], total - 1, d["bypass"], d["pcc"], int(ocf is not None), d["vcf_len"], d["vcf_count"])  # noqa: E731
    tf = uf.TransferFrameDataField(uf.TfdzConstructionRules(d["rule"]), uf.UslpProtocolIdentifier(d["upid"]), tfdz, d["ptr"])
    fr = uf.TransferFrame(h, tf, iz, ocf, fecf)
    hl = 4 if d["ftype"] == "truncated" else 7 + d["vcf_len"]
    total = hl + (len(iz) if iz else 0) + 1 + (2 if d["ptr"] is not None else 0) + len(tfdz) + (4 if ocf else 0) + (len(fecf) if fecf else 0)
    want = R.frame(ref_h(total), R.tfdf(d["rule"], d["upid"], tfdz, d["ptr"]), iz, ocf, fecf)
    return fr, want, total


def props_for(d, total, **over):
    uh, uf = _imp()
    iz = None if d["iz"] is None else len(d["iz"]) // 2
    fecf = None if d["fecf"] is None else len(d["fecf"]) // 2
    a = dict(has_insert_zone=iz is not None, has_fecf=fecf is not None, insert_zone_len=iz, fecf_len=fecf)
    a.update({k: v for k, v in over.items() if k in a})
    if d["ftype"] == "fixed":
        return uf.FrameType.FIXED, uf.FixedFrameProperties(fixed_len=over.get("fixed_len", total), **a)
    return uf.FrameType.VARIABLE, uf.VarFrameProperties(truncated_frame_len=over.get("truncated_frame_len", total if d["ftype"] == "truncated" else 0), **a)


def k_frame(ctx, d):
    uh, uf = _imp()
    case = {"k": "frame", "d": d}          # complete, so that a witness can be replayed as it is
    cell = f"{d['ftype']}/iz={'n' if d['iz'] is None else len(d['iz']) // 2}/ocf={int(d['ocf'] is not None)}/fecf={'n' if d['fecf'] is None else len(d['fecf']) // 2}"
    ctx.case(f"frame/{cell}", json.dumps(d, sort_keys=True), sample=case if len(d["tfdz"]) <= 80 else None)
    ctx.table("rule_x_type", f"{d['rule']}/{d['ftype']}")
    ctx.table("upid", d["upid"])
    ctx.table("tfdz_len", len(d["tfdz"]) // 2)
    ok, b = attempt(build_frame, d)
    if not ctx.check("frame.pack", ok, "construct_raised", cell + "/" + (exc_sig(b) if not ok else ""), case, error=repr(b)):
        return
    fr, want, total = b
    trunc = d["ftype"] == "truncated"
    ctx.check("frame.len", fr.len() == total, "len_before_pack", cell, case, observed=fr.len(), expected=total)
    fr.set_frame_len_in_header()
    if not trunc:
        ctx.check("frame.len", fr.header.frame_len == total - 1, "frame_len_field_after_update", cell, case, observed=fr.header.frame_len, expected=total - 1)
    ftype_lib = {"fixed": uf.FrameType.FIXED, "variable": uf.FrameType.VARIABLE, "truncated": uf.FrameType.VARIABLE}[d["ftype"]]
    for how, kw in (("explicit_type", dict(truncated=trunc, frame_type=ftype_lib)), ("auto_type", dict(truncated=trunc))):
        ok, raw = attempt(fr.pack, **kw)
        if not ctx.check("frame.pack", ok and bytes(raw) == want, "octets", f"{cell}/{how}/" + ("raised:" + exc_sig(raw) if not ok else _part(bytes(raw), want, d)), case,
                         expected=want[:80], observed=bytes(raw)[:80] if ok else repr(raw)):
            return
    ctx.check("frame.len", len(want) == fr.len(), "len_vs_packed", cell, case)
    ft, props = props_for(d, total)
    # the data field on its own, with the optional frame-type cross-check given and left out
    tf_raw = R.tfdf(d["rule"], d["upid"], bytes.fromhex(d["tfdz"]), d["ptr"])
    for ft_arg in (ftype_lib, None):
        ok, tf = attempt(uf.TransferFrameDataField.unpack, tf_raw + b"\x77" * 3, trunc, len(tf_raw), ft_arg)
        how = "frame_type_given" if ft_arg is not None else "frame_type_none"
        if ctx.check("frame.tfdf", ok, "unpack_raised", f"{d['ftype']}/{how}/" + (exc_sig(tf) if not ok else ""), case, error=repr(tf)):
            gt = (int(tf.tfdz_contr_rules), int(tf.uslp_ident), tf.fhp_or_lvop, bytes(tf.tfdz).hex())
            ctx.check("frame.tfdf", gt == (d["rule"], d["upid"], d["ptr"], d["tfdz"]), "field", f"{d['ftype']}/{how}/rule={d['rule']}", case, observed=(gt[0], gt[1], gt[2], gt[3][:40]))
            ok2, rp = attempt(lambda: bytes(tf.pack(truncated=trunc, frame_type=ftype_lib)))
            ctx.check("frame.tfdf", ok2 and rp == tf_raw and tf.len() == len(tf_raw), "repack_or_len", f"{d['ftype']}/{how}", case)
    # managed parameters that say the same thing in another way: a zone declared absent may still carry a (meaningless) size
    variants = [("as_built", props)]
    if d["iz"] is None or d["fecf"] is None:
        over = {}
        if d["iz"] is None:
            over.update(has_insert_zone=False, insert_zone_len=4)
        if d["fecf"] is None:
            over.update(has_fecf=False, fecf_len=2)
        variants.append(("absent_zone_with_size", props_for(d, total, **over)[1]))
    if d["iz"] is None or d["fecf"] is None:
        # a second set of managed parameters built the same way and then reconfigured through its public attributes (another
        # channel's): the set used for this frame must not have moved
        _, other = props_for(d, total)
        other.insert_zone_properties.present, other.insert_zone_properties.size = True, 4
        other.fecf_properties.present, other.fecf_properties.size = True, 2
        ctx.table("managed_parameter_sets", "sibling_reconfigured")
    for pname, props in variants:
      for sfx in (((b"", b"\xee" * 5) if d["ftype"] != "fixed" else (b"",)) if pname == "as_built" else (b"",)):
          ok, u = attempt(uf.TransferFrame.unpack, want + sfx, ft, props)
          if not ctx.check("frame.unpack", ok, "raised", cell + "/" + (exc_sig(u) if not ok else "") + ("" if pname == "as_built" else "/" + pname), case, error=repr(u)):
              return
          got = {"hdr": bytes(u.header.pack()).hex(), "iz": None if u.insert_zone is None else bytes(u.insert_zone).hex(), "rule": int(u.tfdf.tfdz_contr_rules),
                 "upid": int(u.tfdf.uslp_ident), "ptr": u.tfdf.fhp_or_lvop, "tfdz": bytes(u.tfdf.tfdz).hex(), "ocf": None if u.op_ctrl_field is None else bytes(u.op_ctrl_field).hex(),
                 "fecf": None if u.fecf is None else bytes(u.fecf).hex()}
          hl = 4 if trunc else 7 + d["vcf_len"]
          exp = {"hdr": want[:hl].hex(), "iz": d["iz"], "rule": d["rule"], "upid": d["upid"], "ptr": d["ptr"], "tfdz": d["tfdz"], "ocf": d["ocf"], "fecf": d["fecf"]}
          if not ctx.check("frame.unpack", got == exp, "field", cell + "/" + ",".join(k for k in exp if got[k] != exp[k]), case,
                           observed={k: (v[:40] if isinstance(v, str) else v) for k, v in got.items()}, expected={k: (v[:40] if isinstance(v, str) else v) for k, v in exp.items()}):
              return
          ctx.check("frame.unpack", u.len() == total, "decoded_len", cell, case, observed=u.len(), expected=total)
          ok2, rp = attempt(u.pack, truncated=trunc, frame_type=ftype_lib)
          ctx.check("frame.unpack", ok2 and bytes(rp) == want, "repack", cell, case, observed=bytes(rp)[:80] if ok2 else repr(rp))


def _part(a, b, d):
    if len(a) != len(b):
        return f"len{len(a) - len(b):+d}"
    hl = 4 if d["ftype"] == "truncated" else 7 + d["vcf_len"]
    izl = 0 if d["iz"] is None else len(d["iz"]) // 2
    for i, (x, y) in enumerate(zip(a, b)):
        if x != y:
            return "header" if i < hl else "insert_zone" if i < hl + izl else "tfdf_header" if i < hl + izl + (3 if d["ptr"] is not None else 1) else "tail"
    return ""


def k_mismatch(ctx, d, kind):
    """Detectable managed-parameter mismatches must raise a USLP error / ValueError."""
    uh, uf = _imp()
    case = {"k": "mismatch", "d": d, "kind": kind}
    ctx.case(f"mismatch/{kind}", (json.dumps(d, sort_keys=True), kind), sample=case)
    fr, want, total = build_frame(d)
    ft, props = props_for(d, total)
    if kind == "wrong_fixed_len":
        ft, props = props_for(d, total, fixed_len=total + 1 if total % 2 else max(8, total - 1))
        if d["ftype"] != "fixed":
            return
    elif kind == "truncated_under_fixed":
        if d["ftype"] != "truncated":
            return
        ft = uf.FrameType.FIXED
        props = uf.FixedFrameProperties(total, props.insert_zone_properties.present, props.fecf_properties.present, props.insert_zone_properties.size, props.fecf_properties.size)
    elif kind == "rule_of_other_type":
        # decode a fixed-rule frame as variable and vice versa (lengths kept consistent)
        if d["ftype"] == "fixed":
            ft = uf.FrameType.VARIABLE
            props = uf.VarFrameProperties(props.insert_zone_properties.present, props.fecf_properties.present, 0, props.insert_zone_properties.size, props.fecf_properties.size)
        elif d["ftype"] == "variable":
            ft = uf.FrameType.FIXED
            props = uf.FixedFrameProperties(total, props.insert_zone_properties.present, props.fecf_properties.present, props.insert_zone_properties.size, props.fecf_properties.size)
        else:
            return
    elif kind == "wrong_props_class":
        if d["ftype"] == "fixed":
            props = uf.VarFrameProperties(props.insert_zone_properties.present, props.fecf_properties.present, total, props.insert_zone_properties.size, props.fecf_properties.size)
        elif d["ftype"] == "truncated":
            props = uf.FixedFrameProperties(total, props.insert_zone_properties.present, props.fecf_properties.present, props.insert_zone_properties.size, props.fecf_properties.size)
        else:
            return
    elif kind == "sizes_leave_zero":
        # managed insert-zone / FECF sizes that consume exactly the whole data field: derived TFDF length 0
        hl = 4 if d["ftype"] == "truncated" else 7 + d["vcf_len"]
        ocf = 4 if d["ocf"] is not None else 0
        rest = total - hl - ocf            # insert zone + TFDF + FECF as packed
        a = rest // 2
        if d["ftype"] == "fixed":
            props = uf.FixedFrameProperties(total, True, True, a, rest - a)
        else:
            props = uf.VarFrameProperties(True, True, total if d["ftype"] == "truncated" else 0, a, rest - a)
    elif kind.startswith("declared_len_exceeds_buffer"):
        # the managed truncated-frame length (or the frame length field) promises 1 .. a few octets more than were received
        k = int(kind.rsplit("+", 1)[1])
        if d["ftype"] == "truncated":
            ft, props = props_for(d, total, truncated_frame_len=total + k)
        elif d["ftype"] == "variable":
            hl_ = 7 + d["vcf_len"]
            want = want[:4] + (total - 1 + k).to_bytes(2, "big") + want[6:]
            if total - 1 + k > 0xFFFF:
                return
        else:
            return
    elif kind == "no_room_for_tfdf":
        big = total
        if d["ftype"] == "fixed":
            props = uf.FixedFrameProperties(total, True, True, big, big)
        else:
            props = uf.VarFrameProperties(True, True, total if d["ftype"] == "truncated" else 0, big, big)
    ctx.table("mismatch_cells", f"{kind}/{d['ftype']}")
    ok, res = attempt(uf.TransferFrame.unpack, want, ft, props)
    ctx.ev("frame.mismatch")
    if ok:
        ctx.fail("frame.mismatch", "mismatching_parameters_accepted", f"{kind}/{d['ftype']}", case)
    elif not isinstance(res, documented_errors()):
        ctx.fail("frame.mismatch", "undocumented_error", f"{kind}/{d['ftype']}/{exc_sig(res)}", case, error=repr(res))


KINDS = {"primary": k_primary, "truncated": k_truncated, "id_refuse": k_id_refuse, "frame": k_frame, "mismatch": k_mismatch}


def rand_frame(r, ftype=None, rule=None, upid=None, tfdz_len=None, iz=-1, ocf=None, fecf=-1):
    ftype = ftype or r.choice(("fixed", "variable", "truncated"))
    if rule is None:
        rule = r.randrange(0, 3) if ftype == "fixed" else r.randrange(3, 8)
    n = r.randrange(0, 8)
    iz = r.choice((None, 1, 8)) if iz == -1 else iz
    fecf = r.choice((None, 2, 4)) if fecf == -1 else fecf
    ocf = (r.getrandbits(1) if ocf is None else ocf) and ftype != "truncated"
    tfdz_len = r.choice((0, 1, 2, 17, 1000)) if tfdz_len is None else tfdz_len
    d = _rand_frame_fields(r, ftype, rule, upid, tfdz_len, iz, ocf, fecf, n)
    c = r.random()
    if c < 0.12:
        # coincidences of extreme values: every small field at its maximum (VCID 63, MAP 15, idle protocol id 31, pointer 0xFFFF,
        # SCID 0xFFFF) or at its minimum at the same time - the combinations the standard reserves for idle / fill frames
        hi = c < 0.06
        d.update(scid=0xFFFF if hi else 0, vcid=63 if hi else 0, map_id=15 if hi else 0, upid=31 if hi else 0, src_dest=int(hi), bypass=int(hi), pcc=int(hi))
        if d["ptr"] is not None:
            d["ptr"] = 0xFFFF if hi else 0
        if r.random() < 0.5:
            d["ptr"] = None if d["ptr"] is None else r.choice((0xFFFF, 0xFFFE, 0x07FF, 0))
    return d


def _rand_frame_fields(r, ftype, rule, upid, tfdz_len, iz, ocf, fecf, n):
    return {"ftype": ftype, "rule": rule, "upid": r.choice(UPIDS) if upid is None else upid, "tfdz": rand_bytes(r, tfdz_len).hex(),
            "ptr": r.getrandbits(16) if ftype == "fixed" else None, "iz": None if iz is None else rand_bytes(r, iz).hex(), "ocf": rand_bytes(r, 4).hex() if ocf else None,
            "fecf": None if fecf is None else rand_bytes(r, fecf).hex(), "scid": r.getrandbits(16), "src_dest": r.getrandbits(1), "vcid": r.getrandbits(6), "map_id": r.getrandbits(4),
            "bypass": r.getrandbits(1), "pcc": r.getrandbits(1), "vcf_len": n, "vcf_count": r.choice((0, 0, 1, (1 << 8 * n) - 1, r.getrandbits(8 * n), r.getrandbits(8 * n))) if n else 0}


def selftest(ctx):
    # header vector asserted in tests/test_uslp.py: scid 0x10, source/dest 1... use round trip of the model instead of copying test constants
    n = 0
    for _ in range(1000):
        r = ctx.rng
        k = r.randrange(0, 8)
        f = (r.getrandbits(16), r.getrandbits(1), r.getrandbits(6), r.getrandbits(4), r.getrandbits(16), r.getrandbits(1), r.getrandbits(1), r.getrandbits(1), k, r.getrandbits(8 * k) if k else 0)
        b = R.primary_header(*f)
        d = R.decode_primary(b + b"xx")
        assert (d["scid"], d["src_dest"], d["vcid"], d["map_id"], d["frame_len"], d["bypass"], d["pcc"], d["ocf"], d["vcf_len"], d["vcf_count"]) == f and d["tfvn"] == 12 and d["len"] == len(b)
        n += 1
    assert R.primary_header(0, 0, 0, 0, 0, 0, 0, 0, 0, 0).hex() == "c0000000000000" and R.truncated_header(0xFFFF, 1, 63, 15).hex() == "cfffffff"
    ctx.selftest["ref.uslp header round trip + fixed points"] = n + 2


def run(ctx):
    from spverif.ref import enums as _enums
    if ctx.shard[0] == 0:
        _enums.check(ctx, "code_tables", ['spacepackets.uslp'])
    from spverif.san import scribble
    scribble.install()
    r = ctx.rng
    uh, uf = _imp()
    for scid in range(65536):
        if not ctx.mine(scid) or (ctx.quick and scid % 8 != ctx.seed % 8 and 32 < scid < 65500):
            continue
        n = scid % 8
        k_primary(ctx, scid, r.getrandbits(1), r.getrandbits(6), r.getrandbits(4), rand_uint(r, 16), r.getrandbits(1), r.getrandbits(1), r.getrandbits(1), n, rand_uint(r, 8 * n) if n else 0)
        if scid % 4 == 0:
            k_truncated(ctx, scid, r.getrandbits(1), r.getrandbits(6), r.getrandbits(4))
    ctx.exhaustive.append("all 2^16 spacecraft ids" + (" (quick: one residue class mod 8 + both ends)" if ctx.quick else ""))
    for vcid in range(64):
        for map_id in range(16):
            for sd in (0, 1):
                n = (vcid + map_id) % 8
                k_primary(ctx, rand_uint(r, 16), sd, vcid, map_id, rand_uint(r, 16), vcid & 1, map_id & 1, sd, n, rand_uint(r, 8 * n) if n else 0)
                k_truncated(ctx, rand_uint(r, 16), sd, vcid, map_id)
    ctx.exhaustive.append("all 64 VCIDs x all 16 MAP ids x both source/destination values (primary and truncated header)")
    for n in range(8):
        vals = [0] if n == 0 else pool_uint(8 * n, r, 4)
        for v in vals:
            for flags in range(8):
                k_primary(ctx, rand_uint(r, 16), flags & 1, r.getrandbits(6), r.getrandbits(4), rand_uint(r, 16), flags >> 1 & 1, flags >> 2 & 1, r.getrandbits(1), n, v)
    for fl in pool_uint(16):
        k_primary(ctx, 0xA5A5, 1, 0x2A, 0x5, fl, 1, 0, 1, 3, 0x010203)
    ctx.exhaustive.append("every VCF-count length 0..7 with walking-bit values x 8 flag combinations; frame-length pool")
    for which in ("primary", "truncated"):
        for field, vals in (("scid", (65536, 65537, 2 ** 31, -1, -65536)), ("vcid", (64, 65, 255, 2 ** 31, -1)), ("map_id", (16, 17, 255, -1))):
            for v in vals:
                k_id_refuse(ctx, field, v, which)
    # frames: full grid with random fill
    i = 0
    for ftype in ("fixed", "variable", "truncated"):
        rules = range(0, 3) if ftype == "fixed" else range(3, 8)
        for rule in rules:
            for upid in UPIDS:
                for tl in (0, 1, 2, 17, 1000):
                    for iz in (None, 1, 8):
                        for ocf in ((0, 1) if ftype != "truncated" else (0,)):
                            for fecf in (None, 2, 4):
                                i += 1
                                if not ctx.mine(i) or (ctx.quick and (i * 7 + ctx.seed) % 5 != 0):
                                    continue
                                k_frame(ctx, rand_frame(r, ftype, rule, upid, tl, iz, ocf, fecf))
    ctx.exhaustive.append("frame grid: 8 construction rules x 10 protocol ids x 5 TFDZ sizes x 3 insert-zone sizes x OCF x 3 FECF sizes x {fixed, variable, truncated}"
                          + (" (quick: every 5th cell)" if ctx.quick else ""))
    for _ in range(ctx.n(1500, 200_000)):
        k_frame(ctx, rand_frame(r))
    # frames of exactly a given total size: the largest a 16-bit length field can describe (65536 octets, field 0xFFFF), one less,
    # and sizes around powers of two
    for target in (65536, 65535, 65534, 32769, 32768, 32767, 4096, 512, 257, 256, 255):
        for ftype in ("fixed", "variable"):
            for rep in range(1 if ctx.quick and target < 65534 else 2):
                d = rand_frame(r, ftype, tfdz_len=0)
                overhead = build_frame(d)[2]
                d["tfdz"] = rand_bytes(r, target - overhead).hex()
                ctx.table("frame_total_size", target)
                k_frame(ctx, d)
    # the largest data field there is: a 65536-octet frame with the shortest header and nothing else around the data field (TFDF of 65529 octets)
    for ftype in ("fixed", "variable"):
        for total_ in (65536, 65535, 65534, 65533):
            d = rand_frame(r, ftype, tfdz_len=0, iz=None, ocf=0, fecf=None)
            d.update(vcf_len=0, vcf_count=0)
            d["tfdz"] = rand_bytes(r, total_ - build_frame(d)[2]).hex()
            ctx.table("largest_tfdf", f"{ftype}/{total_}")
            k_frame(ctx, d)
    for _ in range(ctx.n(300, 30_000)):
        d = rand_frame(r, tfdz_len=r.choice((1, 2, 17)))
        for kind in ("wrong_fixed_len", "truncated_under_fixed", "rule_of_other_type", "wrong_props_class", "no_room_for_tfdf", "sizes_leave_zero",
                     "declared_len_exceeds_buffer+1", "declared_len_exceeds_buffer+2", "declared_len_exceeds_buffer+4", "declared_len_exceeds_buffer+5"):
            k_mismatch(ctx, d, kind)


def conclude(ctx):
    ctx.require(ctx.extra.get("hostile_caller_scribbled_pack_results", 0) > 0, "hostile-caller sanitizer scribbled no pack() result")
    for n in range(8):
        ctx.require(ctx.classes.get(f"primary/vcf_len={n}", 0) > 0, f"VCF length {n} not exercised")
    ctx.require(len(ctx.tables.get("rule_x_type", {})) == 13, "rule x frame type table incomplete")
    ctx.require(len(ctx.tables.get("upid", {})) == len(UPIDS), "protocol id table incomplete")
    for c in ("wrong_fixed_len/fixed", "truncated_under_fixed/truncated", "rule_of_other_type/fixed", "rule_of_other_type/variable", "wrong_props_class/fixed",
              "wrong_props_class/truncated", "no_room_for_tfdf/fixed", "no_room_for_tfdf/variable", "no_room_for_tfdf/truncated",
              "sizes_leave_zero/fixed", "sizes_leave_zero/variable", "sizes_leave_zero/truncated"):
        ctx.require(ctx.tables.get("mismatch_cells", {}).get(c, 0) > 0, f"mismatch cell {c} empty")
    for m in ("hdr.pack", "hdr.unpack", "hdr.len", "hdr.type", "hdr.id_refusal", "frame.pack", "frame.unpack", "frame.len", "frame.mismatch"):
        ctx.require(ctx.monitors.get(m, {}).get("evaluations", 0) > 0, f"monitor {m} never evaluated")
