"""C14 - CDS short timestamps: exact encoding and agreement with calendar arithmetic."""
from __future__ import annotations

import datetime as dt

from spverif.core.util import attempt, exc_sig, hist_len
from spverif.ref import cds as R

SCRIBBLE = True
THOROUGH_SCALE = 8
ID = "C14"
LEVEL = "exploration"
SHARDS = {"quick": 1, "thorough": 16}
RULE = ("cases = (day, ms) pairs: all 65536 days x ms in {0,1,999,1000,43200000,86399999,2 random} plus random pairs; every calendar "
        "day 1958-01-01..2137-06-06 x times {00:00:00, 00:00:00.001, 12:00, 23:59:59.999, random microsecond} for from_datetime; "
        "(timestamp, timedelta) pairs incl. exactly-to-midnight, 1 ms short of it, multi-day and the overflow edge; all 256 first "
        "octets and short inputs for the refusal clause; non-trivial = not one of the four literals of tests/ccsds/test_time.py "
        "(day 0 / unix day 0 with ms 0); distinct = distinct (day, ms[, timedelta])")
TRUSTED = ["CPython 3.12 datetime (proleptic Gregorian calendar arithmetic)", "spverif.ref.cds (integer arithmetic only)"]
ASSUMPTIONS = ["oracle = exact integer / datetime arithmetic from 1958-01-01T00:00:00Z (spverif/ref/cds.py); the day offset 4383 is computed by the calendar, not copied",
               "as_unix_seconds is a float: compared within 1 microsecond; as_datetime must equal the instant exactly",
               "ms_of_today with a finer-than-millisecond argument, now() and the deprecated aliases are informational"]
UTC = dt.timezone.utc
MS = R.MS_PER_DAY


def _cls():
    from spacepackets.ccsds.time import CdsShortTimestamp
    return CdsShortTimestamp


def k_stamp(ctx, days, ms):
    T = _cls()
    case = {"k": "stamp", "days": days, "ms": ms}
    ctx.case("stamp/" + ("pre1970" if days < R.UNIX_DAY_OFFSET else "post1970"), (days, ms), nontrivial=(days, ms) not in ((0, 0), (4383, 0)),
             sample=case)
    ok, t = attempt(T, days, ms)
    if not ctx.check("cds.construct", ok, "raised", exc_sig(t) if not ok else "", case, error=repr(t)):
        return None
    want = R.encode(days, ms)
    ok, p = attempt(t.pack)
    if not ctx.check("cds.pack", ok and bytes(p) == want, "octets", "", case, expected=want, observed=bytes(p) if ok else repr(p)):
        return None
    ctx.check("cds.pack", t.len_packed == 7 and bytes(t.pfield) == b"\x40" and t.ccsds_time_code() == 0b100, "views", "", case)
    for sfx in (b"", b"\x99\x98"):
        ok, u = attempt(T.unpack, want + sfx)
        if ctx.check("cds.unpack", ok, "raised", exc_sig(u) if not ok else "", case, error=repr(u)):
            ctx.check("cds.unpack", (u.ccsds_days, u.ms_of_day) == (days, ms) and u == t and bytes(u.pack()) == want, "field", "", case,
                      observed=[u.ccsds_days, u.ms_of_day])
    inst = R.instant(days, ms)
    ok, d = attempt(t.as_datetime)
    era = "pre1970" if days < R.UNIX_DAY_OFFSET else "post1970"
    tod = "midnight" if ms == 0 else "time_of_day"
    ctx.check("cds.as_datetime", ok and d == inst and d.utcoffset() == dt.timedelta(0), "instant_differs", f"{era}/{tod}", case,
              observed=d.isoformat() if ok else repr(d), expected=inst.isoformat())
    ok, s = attempt(t.as_unix_seconds)
    exact_ms = R.unix_seconds_exact(days, ms)
    ctx.check("cds.as_unix_seconds", ok and abs(s * 1000.0 - exact_ms) < 0.001, "value_differs", f"{era}/{tod}", case, observed=s, expected_ms=exact_ms)
    if (days + ms) % 16 == 0:
        # the other public routes to the same stamp and the same views: Unix-day constructor, deprecated aliases, text form
        import warnings
        ok, t2 = attempt(T.from_unix_days, days - R.UNIX_DAY_OFFSET, ms)
        ctx.check("cds.alt_routes", ok and (t2.ccsds_days, t2.ms_of_day) == (days, ms) and bytes(t2.pack()) == want and t2 == t and t2.as_datetime() == inst, "from_unix_days", era, case,
                  observed=repr(t2))
        with warnings.catch_warnings():
            warnings.simplefilter("ignore")
            ok, v = attempt(lambda: (t.as_date_time(), T.from_date_time(inst), t.as_time_string()))
        ctx.check("cds.alt_routes", ok and v[0] == inst and (v[1].ccsds_days, v[1].ms_of_day) == (days, ms) and v[2] == inst.strftime("%Y-%m-%d %H:%M:%S.%f"), "deprecated_alias_or_text_form_differs",
                  era, case, observed=repr(v))
        ctx.table("alt_routes", "from_unix_days+aliases")
    return t


def k_monotonic(ctx, pairs):
    """Later timestamps map to later instants (strictly), in both views."""
    T = _cls()
    case = {"k": "monotonic", "pairs": pairs}
    ctx.case("monotonic", tuple(map(tuple, pairs)), sample=case if len(pairs) <= 6 else None)
    pairs = sorted(set(map(tuple, pairs)))
    prev = None
    for d, m in pairs:
        t = T(d, m)
        cur = (t.as_unix_seconds(), t.as_datetime())
        if prev is not None:
            era = "pre1970" if d < R.UNIX_DAY_OFFSET else "post1970"
            same_day = "same_day" if prev[2][0] == d else "across_days"
            ctx.check("cds.monotonic", cur[0] > prev[0] and cur[1] > prev[1], "later_stamp_not_later_instant", f"{era}/{same_day}",
                      {"k": "monotonic", "pairs": [list(prev[2]), [d, m]]}, earlier=[prev[0], prev[1].isoformat()], later=[cur[0], cur[1].isoformat()])
        prev = (cur[0], cur[1], (d, m))


_ALIVE = []


def k_from_datetime(ctx, iso_us):
    """iso_us = microseconds since 1958-01-01 (exact integer)."""
    T = _cls()
    d = R.EPOCH + dt.timedelta(microseconds=iso_us)
    case = {"k": "from_datetime", "iso_us": iso_us, "datetime": d.isoformat()}
    want = R.from_datetime(d)
    era = "pre1970" if d < R.UNIX else "post1970"
    whole = "whole_ms" if iso_us % 1000 == 0 else "sub_ms"
    tod = "midnight" if (iso_us // 1000) % MS == 0 else "time_of_day"
    ctx.case(f"from_datetime/{era}/{whole}", iso_us, sample=case)
    ok, t = attempt(T.from_datetime, d)
    if not ctx.check("cds.from_datetime", ok, "raised", exc_sig(t) if not ok else "", case, error=repr(t)):
        return
    # stamps built from earlier datetimes are still alive (start and end of a window): they keep their own values
    for t0, seen0 in _ALIVE:
        now0 = (t0.ccsds_days, t0.ms_of_day, bytes(t0.pack()), t0.as_datetime())
        if not ctx.check("cds.from_datetime", now0 == seen0, "earlier_stamp_changed_by_a_later_from_datetime", era, case, read_then=repr(seen0), read_now=repr(now0)):
            _ALIVE.clear()
            break
    _ALIVE.append((t, (t.ccsds_days, t.ms_of_day, bytes(t.pack()), t.as_datetime())))
    del _ALIVE[:-3]
    got = (t.ccsds_days, t.ms_of_day)
    if whole == "whole_ms":
        ctx.check("cds.from_datetime", got == want, "day_or_ms_differs", f"{era}/{tod}/{'day' if got[0] != want[0] else 'ms'}", case, observed=got, expected=want)
    else:
        # exactness is only promised for whole-millisecond datetimes: allow the neighbouring millisecond
        tot_g, tot_w = got[0] * MS + got[1], want[0] * MS + want[1]
        ctx.check("cds.from_datetime", abs(tot_g - tot_w) <= 1 and 0 <= got[1] < MS, "more_than_1ms_off", f"{era}/{tod}", case, observed=got, expected=want)
    ctx.check("cds.from_datetime", 0 <= got[1] < MS and 0 <= got[0] < 65536, "not_normalised", era, case, observed=got)
    ok, p = attempt(t.pack)
    ctx.check("cds.from_datetime", ok and bytes(p) == R.encode(*got), "pack_after_from_datetime", era, case)
    ok, d2 = attempt(t.as_datetime)
    ctx.check("cds.from_datetime", ok and d2 == d, "as_datetime_is_not_the_input", era, case, observed=repr(d2))
    # the Unix-seconds view of the new stamp, read before anything recomputes it (within the millisecond that may be dropped)
    exact = (iso_us - R.UNIX_DAY_OFFSET * 86_400_000_000) / 1e6
    ok, us = attempt(t.as_unix_seconds)
    ctx.check("cds.from_datetime", ok and abs(us - exact) < (1e-5 if whole == "whole_ms" else 1.1e-3), "unix_seconds_after_from_datetime", f"{era}/{whole}", case, observed=repr(us), expected=exact)


def k_add(ctx, days, ms, td_days, td_s, td_us):
    T = _cls()
    td = dt.timedelta(days=td_days, seconds=td_s, microseconds=td_us)
    case = {"k": "add", "days": days, "ms": ms, "td_days": td_days, "td_s": td_s, "td_us": td_us}
    want = R.add(days, ms, td)
    total_ms_of_day = ms + (td.seconds * 1000 + td.microseconds // 1000)
    cls = "overflow" if want is None else "exactly_midnight" if total_ms_of_day == MS else "carry" if total_ms_of_day > MS else "no_carry"
    ctx.case(f"add/{cls}", (days, ms, td_days, td_s, td_us), sample=case)
    t = T(days, ms)
    ok, res = attempt(lambda: t + td)
    ctx.ev("cds.add")
    if want is None:
        if ok:
            ctx.fail("cds.add", "overflow_not_reported", "", case, observed=[res.ccsds_days, res.ms_of_day])
        elif not isinstance(res, OverflowError):
            ctx.fail("cds.add", "wrong_error", type(res).__name__, case, error=repr(res))
        return
    if not ok:
        return ctx.fail("cds.add", "raised", f"{cls}/{exc_sig(res)}", case, error=repr(res))
    got = (res.ccsds_days, res.ms_of_day)
    if got != want:
        return ctx.fail("cds.add", "result_differs", cls, case, observed=got, expected=want)
    ctx.check("cds.add", res.as_datetime() == R.instant(*want) and bytes(res.pack()) == R.encode(*want), "views_after_add", cls, case)


def k_first_octet(ctx, p, n):
    T = _cls()
    raw = bytes([p]) + bytes(range(1, 7))
    raw = raw[:n]
    case = {"k": "first_octet", "p": p, "n": n}
    ctx.case("first_octet", (p, n))
    for name, fn in (("unpack", T.unpack), ("unpack_from_raw", T.unpack_from_raw), ("read_from_raw", lambda b: T.empty().read_from_raw(b))):
        ok, res = attempt(fn, raw)
        ctx.ev("cds.refusal")
        must_accept = n >= 7 and R.pfield_ok(p)
        ctx.table("first_octet_outcome", "accepted" if ok else type(res).__name__)
        if must_accept and not ok:
            ctx.fail("cds.refusal", "valid_pfield_refused", name, case, error=repr(res))
        elif not must_accept and ok:
            ctx.fail("cds.refusal", "invalid_input_accepted", f"{name}/{'short' if n < 7 else 'pfield'}", case, observed=repr(res))
        elif not must_accept and not isinstance(res, ValueError):
            ctx.fail("cds.refusal", "wrong_error", f"{name}/{type(res).__name__}", case, error=repr(res))


def k_stamp_history(ctx, seed):
    """One timestamp object that is packed, refreshed from raw octets (read_from_raw) and advanced (+ timedelta, which
    updates the object in place) in any order: after every step every view is the view of the current (day, ms) pair."""
    import random
    T = _cls()
    r = random.Random(f"stamph/{seed}")
    case = {"k": "stamp_history", "seed": seed}
    ctx.case("stamp_history", seed, sample=case)
    d, m = r.choice((0, 4382, 4383, r.getrandbits(16), r.randrange(60000))), r.choice((0, 1, MS - 1, r.randrange(MS)))
    start = r.choice(("ctor", "ctor", "unpack", "unpack", "empty_no_views", "ctor_no_views", "from_datetime_sub_ms"))
    forced = None
    if start == "ctor":
        t = T(d, m)
    elif start == "unpack":
        t = T.unpack(R.encode(d, m))
    else:
        # holders whose derived views are not (or not exactly) those of the pair they hold: the documented cheap way to get an
        # object to decode into.  The first operation on them is a decode - of the pair they already hold, every other time.
        if start == "empty_no_views":
            d, m = 0, 0
            t = T.empty(False)
        elif start == "ctor_no_views":
            t = T(d, m, init_dt_unix_stamp=False)
        else:
            t = T.from_datetime(R.instant(d, m) + dt.timedelta(microseconds=r.randrange(1, 1000)))
        forced = r.choice(("read_from_raw_same_value", "read_from_raw"))
    trail = [start]
    ctx.table("stamp_history_starts", start)
    for step in range(hist_len(r, 2, 9)):
        op = r.choice(("pack", "read_from_raw", "read_from_raw_same_day", "read_from_raw_same_value", "add", "add", "views", "pack"))
        if forced:
            op, forced = forced, None
        trail.append(op)
        if op == "read_from_raw_same_value":
            t.read_from_raw(R.encode(d, m) + r.randbytes(r.choice((0, 0, 2))))
        elif op == "read_from_raw_same_day":
            m = r.randrange(MS)
            t.read_from_raw(R.encode(d, m))
        elif op == "read_from_raw":
            d, m = r.getrandbits(16), r.randrange(MS)
            t.read_from_raw(R.encode(d, m) + r.randbytes(r.choice((0, 0, 3))))
        elif op == "add":
            # sub-millisecond parts are dropped by every single addition (integer arithmetic on milliseconds): nothing is carried over
            us = 1000 * r.randrange(1000) + (r.choice((0, 1, 400, 500, 600, 999, r.randrange(1000))) if r.random() < 0.6 else 0)
            td = dt.timedelta(days=r.choice((0, 0, 1, 30)), seconds=r.choice((0, 0, r.randrange(86400))), microseconds=us)
            w = R.add(d, m, td)
            if w is None:
                continue
            res = t + td
            d, m = w
            if res is not t:
                t = res
        elif op == "views":
            t.as_datetime(), t.as_unix_seconds()
        ctx.table("stamp_history_ops", op)
        ok, got = attempt(lambda: (bytes(t.pack()), t.ccsds_days, t.ms_of_day, t.as_datetime(), t == T(d, m), T.unpack(bytes(t.pack())) == t))
        want = (R.encode(d, m), d, m, R.instant(d, m), True, True)
        if not ctx.check("cds.history", ok and got == want and abs(t.as_unix_seconds() - R.unix_seconds_exact(d, m) / 1000) < 1e-6, "views_disagree_with_current_value",
                         "" if not ok else ",".join(n for n, g, w_ in zip(("pack", "days", "ms", "datetime", "eq_fresh", "roundtrip"), got, want) if g != w_) or "unix_seconds",
                         case, trail=trail, observed=repr(got)[:300], expected=repr(want)[:300]):
            return


def k_ms_of_today(ctx, k_ms, as_int=False):
    """The static helper with an explicit argument that is a whole number of milliseconds (k_ms / 1000 seconds since the Unix
    epoch; whole seconds may be given as int): the millisecond of that day, exactly.  (Arguments with a finer fraction are
    outside what the property states and stay informational.)"""
    T = _cls()
    arg = k_ms // 1000 if as_int and k_ms % 1000 == 0 else k_ms / 1000
    case = {"k": "ms_of_today", "k_ms": k_ms, "as_int": as_int}
    ctx.case("ms_of_today", (k_ms, as_int), sample=case)
    ok, v = attempt(T.ms_of_today, arg)
    ctx.check("cds.ms_of_today", ok and v == k_ms % MS, "differs_from_millisecond_of_that_day", "epoch" if k_ms == 0 else "pre1970" if k_ms < 0 else "post1970", case, observed=repr(v), expected=k_ms % MS, argument=repr(arg))


KINDS = {"ms_of_today": k_ms_of_today, "stamp_history": k_stamp_history, "stamp": k_stamp, "monotonic": k_monotonic, "from_datetime": k_from_datetime, "add": k_add, "first_octet": k_first_octet}
MAX_US = (65536 * MS - 1) * 1000 + 999


def selftest(ctx):
    assert R.encode(0x0102, 0x03040506).hex() == "40010203040506"
    assert R.instant(0, 0) == dt.datetime(1958, 1, 1, tzinfo=UTC) and R.instant(4383, 0) == dt.datetime(1970, 1, 1, tzinfo=UTC)
    assert R.from_datetime(dt.datetime(1969, 12, 31, 12, 0, tzinfo=UTC)) == (4382, 43_200_000)
    assert R.add(10, MS - 1000, dt.timedelta(seconds=1)) == (11, 0) and R.add(65535, MS - 1, dt.timedelta(milliseconds=1)) is None
    n = 4
    for _ in range(2000):
        d, m = ctx.rng.getrandbits(16), ctx.rng.randrange(MS)
        assert R.from_datetime(R.instant(d, m)) == (d, m) and R.decode(R.encode(d, m)) == (d, m)
        n += 1
    ctx.selftest["ref.cds golden + instant/from_datetime inverse"] = n


def run(ctx):
    from spverif.ref import enums as _enums
    if ctx.shard[0] == 0:
        _enums.check(ctx, "code_tables", ['spacepackets.ccsds.time'])
    from spverif.san import scribble
    scribble.install()
    r = ctx.rng
    pool = (0, 1, 999, 1000, 43_200_000, 86_399_999)
    for d in range(65536):
        if not ctx.mine(d):
            continue
        mss = pool + (r.randrange(MS), r.randrange(MS)) if (not ctx.quick or d % 8 == ctx.seed % 8 or d < 64 or 4300 < d < 4460 or d > 65500) else (r.choice(pool), r.randrange(MS))
        for ms in mss:
            k_stamp(ctx, d, ms)
    ctx.exhaustive.append("all 65536 day counts" + (" (quick: 2 ms values per day, 8 for one residue class mod 8 and around both epochs)" if ctx.quick else " x 8 ms values"))
    for _ in range(ctx.n(20_000, 4_000_000)):
        k_stamp(ctx, r.getrandbits(16), r.randrange(MS))
    # monotonicity inside pre-1970 days, across 1970-01-01, and over random sorted samples
    for d in (0, 1, 100, 4381, 4382):
        k_monotonic(ctx, [[d, 0], [d, 1], [d, 1000], [d, 43_200_000], [d, MS - 1], [d + 1, 0]])
    k_monotonic(ctx, [[4382, MS - 1], [4383, 0], [4383, 1], [4384, 0]])
    for _ in range(ctx.n(300, 30_000)):
        base = r.choice((r.randrange(0, 4383), r.randrange(4383, 65536), 4382, 4383))
        k_monotonic(ctx, [[min(65535, base + r.randrange(0, 3)), r.randrange(MS)] for _ in range(r.randrange(2, 8))])
    # every calendar day x times
    ndays = 65536
    for d in range(ndays):
        if not ctx.mine(d) or (ctx.quick and not (d % 16 == ctx.seed % 16 or d < 40 or 4340 < d < 4420 or d > 65500)):
            continue
        for ms_us in (0, 1000, 43_200_000_000, 86_399_999_000, r.randrange(86_400_000_000), r.randrange(86_400_000) * 1000):
            k_from_datetime(ctx, d * MS * 1000 + ms_us)
    ctx.exhaustive.append("from_datetime on every calendar day 1958-01-01..2137-06-06" + (" (quick: one residue class mod 16 + both epochs)" if ctx.quick else "") + " x 6 times of day")
    for _ in range(ctx.n(5_000, 1_000_000)):
        k_from_datetime(ctx, r.randrange(MAX_US + 1) if r.random() < 0.5 else r.randrange(65536 * MS) * 1000)
    # sub-millisecond boundaries: just below / at / above half a millisecond, the last microseconds of a day, of a second
    sub = (1, 499, 500, 501, 999)
    for d in (0, 1, 4381, 4382, 4383, 4384, 20000, 65534, 65535) + tuple(r.getrandbits(16) for _ in range(ctx.n(40, 4000))):
        for ms in (0, 1, 999, 1000, 43_199_999, 86_398_999, 86_399_998, MS - 1, r.randrange(MS)):
            for us in sub + (r.randrange(1, 1000),):
                k_from_datetime(ctx, (d * MS + ms) * 1000 + us)
                ctx.table("from_datetime_sub_ms", ("last_ms_of_day" if ms == MS - 1 else "other_ms") + "/" + ("us<500" if us < 500 else "us>=500"))
    # additions
    edge = [(10, MS - 1000, 0, 1, 0), (10, MS - 1001, 0, 1, 0), (10, MS - 999, 0, 1, 0), (10, MS - 1, 0, 0, 1000), (10, MS - 1, 0, 0, 999), (10, 0, 0, 86399, 999_999),
            (10, 1, 0, 86399, 999_000), (0, 0, 65535, 0, 0), (0, 0, 65536, 0, 0), (65535, MS - 1, 0, 0, 1000), (65535, MS - 1000, 0, 1, 0), (65535, 0, 0, 86399, 999_000),
            (65534, MS - 5, 1, 0, 5000), (65534, MS - 5, 1, 0, 4000), (4382, MS - 1, 0, 0, 1000), (100, 500, 3, 7, 250_000), (0, 0, 0, 0, 0), (5, 5, 0, 0, 0)]
    for e in edge:
        k_add(ctx, *e)
    for _ in range(ctx.n(5_000, 600_000)):
        d, m = r.getrandbits(16), r.randrange(MS)
        c = r.random()
        if c < 0.25:
            rem = MS - m
            k_add(ctx, d, m, r.choice((0, 0, 1, 3)), rem // 1000, (rem % 1000) * 1000 + r.choice((0, 0, 999)))       # lands exactly on midnight
        elif c < 0.4:
            rem = max(0, MS - m - 1)
            k_add(ctx, d, m, 0, rem // 1000, (rem % 1000) * 1000)                                                      # 1 ms short of midnight
        elif c < 0.5:
            k_add(ctx, r.randrange(65500, 65536), m, r.randrange(0, 40), r.randrange(86400), r.randrange(1_000_000))    # overflow edge
        else:
            k_add(ctx, d, m, r.choice((0, 0, 1, 2, 365, r.randrange(0, 70000))), r.randrange(86400), r.randrange(1_000_000))
    for j in range(ctx.n(1500, 150_000)):
        k_stamp_history(ctx, ctx.seed * 1_000_003 + ctx.shard[0] * 100_003 + j)
    for p in range(256):
        k_first_octet(ctx, p, 7)
        k_first_octet(ctx, p, 9)
    for n in range(0, 7):
        k_first_octet(ctx, 0x40, n)
    ctx.exhaustive.append("all 256 first octets; all input lengths 0..6")
    for k in (0, 1, 999, 1000, 1001, MS - 1, MS, MS + 1, 86_400_000 * 4383, -1, -1000, -MS, -MS - 1, 1_700_000_000_000, 1_700_000_000_123):
        k_ms_of_today(ctx, k)
        k_ms_of_today(ctx, k, as_int=True)
    for _ in range(ctx.n(300, 30_000)):
        k_ms_of_today(ctx, r.randrange(-400_000_000_000, 5_000_000_000_000), as_int=bool(r.getrandbits(1)))
    T = _cls()
    # now(): a stamp of the present, between two readings of the clock (whole milliseconds)
    for _ in range(20):
        t0 = dt.datetime.now(tz=UTC)
        ok, n = attempt(T.now)
        t1 = dt.datetime.now(tz=UTC)
        lo, hi = R.from_datetime(t0), R.from_datetime(t1)
        ctx.check("cds.alt_routes", ok and lo <= (n.ccsds_days, n.ms_of_day) <= hi and bytes(n.pack()) == R.encode(n.ccsds_days, n.ms_of_day), "now_is_not_now", "", {"k": "now"},
                  observed=repr(n), between=[lo, hi])
    ok, v = attempt(T.ms_of_today, 86399.9995)
    ctx.note(f"ms_of_today(86399.9995) -> {v!r}")


def conclude(ctx):
    ctx.require(ctx.extra.get("hostile_caller_scribbled_pack_results", 0) > 0, "hostile-caller sanitizer scribbled no pack() result")
    for c in ("stamp/pre1970", "stamp/post1970", "from_datetime/pre1970/whole_ms", "from_datetime/post1970/whole_ms", "from_datetime/pre1970/sub_ms",
              "from_datetime/post1970/sub_ms", "add/overflow", "add/exactly_midnight", "add/carry", "add/no_carry", "monotonic", "first_octet"):
        ctx.require(ctx.classes.get(c, 0) > 0, f"class {c} empty")
    for m in ("cds.pack", "cds.unpack", "cds.as_datetime", "cds.as_unix_seconds", "cds.monotonic", "cds.from_datetime", "cds.add", "cds.refusal", "cds.history"):
        ctx.require(ctx.monitors.get(m, {}).get("evaluations", 0) > 0, f"monitor {m} never evaluated")
