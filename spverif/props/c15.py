"""C15 - request ids and service-1 verification reports identify the telecommand exactly."""
from __future__ import annotations

import json

from spverif.core.util import attempt, exc_sig, rand_bytes, rand_uint, documented_errors, hist_len
from spverif.ref import pus as P
from spverif.ref import ccsds as H
from spverif.props import _views as V

SCRIBBLE = True
THOROUGH_SCALE = 12
ID = "C15"
LEVEL = "exploration"
SHARDS = {"quick": 1, "thorough": 16}
RULE = ("cases = 32-bit request-id values (exhaustive over each 16-bit half with the other half random, walking bits, random) through "
        "every construction route, pairs of request ids for the equality/hash laws, and service-1 reports (8 subservices x step-id "
        "width {1,2,4,8} x error-code width {1,2,4,8} x failure data {0,1,17 octets} x timestamp length {0,7,12} x telecommand "
        "headers incl. version != 0) plus all 8 x 4 (subservice, step?, notice?) parameter combinations; non-trivial = not the "
        "ping TC / 1-octet-width case of tests/ecss/test_srv1.py; distinct = distinct value / parameter tuple")
TRUSTED = ["CPython 3.12", "spverif.ref.pus.request_id / srv1_source_data / tm"]
ASSUMPTIONS = ["oracle = first four octets of the CCSDS primary header (spverif/ref/ccsds.py) and the ECSS service-1 source data layout",
               "request ids are compared with other RequestId objects only (comparison with foreign types is not part of the property)"]


def _imp():
    from spacepackets.ecss.req_id import RequestId
    from spacepackets.ecss import pus_1_verification as s1
    from spacepackets.ecss.fields import PacketFieldEnum
    from spacepackets.ccsds import spacepacket as sp
    from spacepackets.ecss.tc import PusTc
    return RequestId, s1, PacketFieldEnum, sp, PusTc


def _fields(v32):
    return {"version": v32 >> 29, "ptype": (v32 >> 28) & 1, "shf": (v32 >> 27) & 1, "apid": (v32 >> 16) & 0x7FF, "flags": (v32 >> 14) & 3, "count": v32 & 0x3FFF}


def mk_rid(v32, route):
    RequestId, s1, PFE, sp, PusTc = _imp()
    f = _fields(v32)
    if route == "unpack":
        return RequestId.unpack(v32.to_bytes(4, "big"))
    pid = sp.PacketId(sp.PacketType(f["ptype"]), bool(f["shf"]), f["apid"])
    psc = sp.PacketSeqCtrl(sp.SequenceFlags(f["flags"]), f["count"])
    if route == "ctor":
        return RequestId(pid, psc, f["version"])
    if route == "from_raw":
        return RequestId(sp.PacketId.from_raw(v32 >> 16), sp.PacketSeqCtrl.from_raw(v32 & 0xFFFF), f["version"])
    if route == "from_sp_header":
        h = sp.SpacePacketHeader(sp.PacketType(f["ptype"]), f["apid"], f["count"], 5, bool(f["shf"]), sp.SequenceFlags(f["flags"]), f["version"])
        return RequestId.from_sp_header(h)
    if route.startswith("from_pus_tc"):
        # "the request id of a telecommand": the telecommand object reached in the three ways a PusTc can get an arbitrary header
        from spacepackets.ecss.tc import PusTcDataFieldHeader
        h = sp.SpacePacketHeader(sp.PacketType(f["ptype"]), f["apid"], f["count"], 5 + 1 + 2 - 1, bool(f["shf"]), sp.SequenceFlags(f["flags"]), f["version"])
        if f["ptype"] != 1 and route != "from_pus_tc/setters":
            return RequestId.from_sp_header(h)              # a telecommand object is refused a telemetry header (documented ValueError)
        if route == "from_pus_tc/composite":
            tc = PusTc.from_composite_fields(h, PusTcDataFieldHeader(17, 1, 0), b"\x00")
        elif route == "from_pus_tc/unpacked":
            raw = bytes(PusTc.from_composite_fields(h, PusTcDataFieldHeader(17, 1, 0), b"\x00").pack())
            assert raw[:4] == v32.to_bytes(4, "big")
            tc = PusTc.unpack(raw)
        else:
            tc = PusTc(service=17, subservice=1, apid=f["apid"], seq_count=f["count"])
            tc.sp_header.seq_flags, tc.sp_header.sec_header_flag, tc.sp_header.packet_type = sp.SequenceFlags(f["flags"]), bool(f["shf"]), sp.PacketType(f["ptype"])
            if f["version"]:
                return RequestId.from_sp_header(h)          # the constructor route cannot carry a version
        return RequestId.from_pus_tc(tc)
    raise AssertionError(route)


ROUTES = ("unpack", "ctor", "from_raw", "from_sp_header", "from_pus_tc/composite", "from_pus_tc/unpacked", "from_pus_tc/setters")


def k_rid(ctx, v32, route):
    RequestId, *_ = _imp()
    case = {"k": "rid", "v32": v32, "route": route}
    ctx.case(f"rid/{route}", (v32, route), nontrivial=v32 not in (0x1022C011, 0x1801C016, 0), sample=case)
    want = v32.to_bytes(4, "big")
    assert P.request_id(**_fields(v32)) == want
    ok, r = attempt(mk_rid, v32, route)
    if not ctx.check("rid.construct", ok, "raised", f"{route}/" + (exc_sig(r) if not ok else ""), case, error=repr(r)):
        return
    ok, p = attempt(r.pack)
    ctx.check("rid.pack", ok and bytes(p) == want, "octets", route + ("/version_bits" if ok and bytes(p)[0] >> 5 != want[0] >> 5 else ""), case, expected=want,
              observed=bytes(p) if ok else repr(p))
    ok, u = attempt(r.as_u32)
    ctx.check("rid.as_u32", ok and u == v32, "value", route, case, observed=u)
    ok, d = attempt(RequestId.unpack, want + b"\xfe")
    if ctx.check("rid.unpack", ok, "raised", "", case, error=repr(d)):
        got = {"version": d.ccsds_version, "ptype": int(d.tc_packet_id.ptype), "shf": int(bool(d.tc_packet_id.sec_header_flag)), "apid": d.tc_packet_id.apid,
               "flags": int(d.tc_psc.seq_flags), "count": d.tc_psc.seq_count}
        ctx.check("rid.unpack", got == _fields(v32) and d.as_u32() == v32 and bytes(d.pack()) == want, "field", "", case, observed=got)
        ctx.check("rid.eq", d == r and r == d and hash(d) == hash(r), "same_value_different_route_unequal", route, case)


def k_rid_pair(ctx, a, b, ra, rb):
    case = {"k": "rid_pair", "a": a, "b": b, "ra": ra, "rb": rb}
    ctx.case("rid_pair/" + ("equal" if a == b else "onebit" if bin(a ^ b).count("1") == 1 else "different"), (a, b, ra, rb), sample=case)
    x, y = mk_rid(a, ra), mk_rid(b, rb)
    eq = (x == y)
    which = "equal_values_compare_unequal" if a == b else "different_values_compare_equal"
    feat = "" if a == b else f"bit{(a ^ b).bit_length() - 1}" if bin(a ^ b).count("1") == 1 else "multi"
    ctx.check("rid.eq", eq == (a == b) and (y == x) == (a == b), which, feat, case)
    if a == b:
        ctx.check("rid.hash", hash(x) == hash(y), "equal_but_hash_differs", "", case)
        d = {x: 1}
        ctx.check("rid.hash", y in d and d[y] == 1, "dict_lookup_fails", "", case)
    else:
        d = {x: 1, y: 2}
        ctx.check("rid.hash", len(d) == 2 and d[x] == 1 and d[y] == 2, "dict_conflates_different_ids", feat, case)


class _Iso:
    """Decoded reports kept while later ones are decoded: their accessor views and re-packed octets must not change."""
    def __init__(self):
        self.buf = []

    def remember(self, obj, raw, view):
        self.buf.append((obj, bytes(raw), view, repr(view())))
        self.buf = self.buf[-6:]

    def recheck(self, ctx, case):
        for obj, raw, view, seen in self.buf[:-1]:
            ctx.ev("report.decoded_objects_independent")
            try:
                now = repr(view())
            except Exception as e:  # noqa: BLE001
                now = "raised " + repr(e)
            if now != seen:
                ctx.fail("report.decoded_objects_independent", "earlier_decoded_report_changed_by_a_later_decode", "accessors", case, read_then=seen[:200], read_now=now[:200])
                self.buf = self.buf[-1:]
                return


ISO = _Iso()


def _pfe(width, val, style):
    """The three documented ways to build an enumerated packet field of `width` octets."""
    from spacepackets.ecss import fields as F
    if style == "wrapper" and width in (1, 2, 4):
        return {1: F.PacketFieldU8, 2: F.PacketFieldU16, 4: F.PacketFieldU32}[width](val)
    if style == "pfc_ctor":
        return F.PacketFieldEnum(width * 8, val)
    return F.PacketFieldEnum.with_byte_size(width, val)


def _mk_report(p):
    """p: sub, ts(hex), tc_v32, step [w, val]|None, code [w, val]|None, fdata hex, route, apid, count"""
    RequestId, s1, PFE, sp, PusTc = _imp()
    f = _fields(p["tc_v32"])
    ts = bytes.fromhex(p["ts"])
    style = p.get("pfe_style", "with_byte_size")
    step = None if p["step"] is None else _pfe(p["step"][0], p["step"][1], style)
    notice = None if p["code"] is None else s1.FailureNotice(_pfe(p["code"][0], p["code"][1], style), bytes.fromhex(p["fdata"]))
    if p["route"] == "ctor":
        rid = mk_rid(p["tc_v32"], "ctor")
        return s1.Service1Tm(apid=p["apid"], subservice=s1.Subservice(p["sub"]), timestamp=ts, verif_params=s1.VerificationParams(rid, step, notice),
                             seq_count=p["count"])
    # create_* helpers take a PusTc; give it the header we want (version bits through from_composite_fields)
    h = sp.SpacePacketHeader(sp.PacketType.TC, f["apid"], f["count"], 6, True, sp.SequenceFlags(f["flags"]), f["version"])
    from spacepackets.ecss.tc import PusTcDataFieldHeader
    tc = PusTc.from_composite_fields(h, PusTcDataFieldHeader(17, 1), b"")
    fn = {1: lambda: s1.create_acceptance_success_tm(p["apid"], tc, ts), 2: lambda: s1.create_acceptance_failure_tm(p["apid"], tc, notice, ts),
          3: lambda: s1.create_start_success_tm(p["apid"], tc, ts), 4: lambda: s1.create_start_failure_tm(p["apid"], tc, notice, ts),
          5: lambda: s1.create_step_success_tm(p["apid"], tc, step, ts), 6: lambda: s1.create_step_failure_tm(p["apid"], tc, step, notice, ts),
          7: lambda: s1.create_completion_success_tm(p["apid"], tc, ts), 8: lambda: s1.create_completion_failure_tm(p["apid"], tc, notice, ts)}[p["sub"]]
    return fn()


def k_report(ctx, p):
    RequestId, s1, PFE, sp, PusTc = _imp()
    case = {"k": "report", "p": p}
    sub = p["sub"]
    sw = p["step"][0] if p["step"] else 1
    cw = p["code"][0] if p["code"] else 1
    trivial = p["tc_v32"] >> 29 == 0 and sw == 1 and cw == 1 and not p["fdata"]
    ctx.case(f"report/sub={sub}/{p['route']}", json.dumps(p, sort_keys=True), nontrivial=not trivial, sample=case)
    ctx.table("report_field_style", p.get("pfe_style", "with_byte_size"))
    ctx.table("report_grid", f"sub={sub}/step_w={sw if p['step'] else '-'}/code_w={cw if p['code'] else '-'}/fdata={len(p['fdata']) // 2}/ts={len(p['ts']) // 2}")
    tc_v32 = p["tc_v32"] if p["route"] == "ctor" else (p["tc_v32"] | (1 << 28) | (1 << 27))       # helpers build from a TC header: type TC, sec header flag set
    rid4 = tc_v32.to_bytes(4, "big")
    src = P.srv1_source_data(rid4, tuple(p["step"]) if p["step"] else None, tuple(p["code"]) if p["code"] else None, bytes.fromhex(p["fdata"]))
    count = p["count"] if p["route"] == "ctor" else 0
    ts = bytes.fromhex(p["ts"])
    want = P.tm(p["apid"], count, 1, sub, 0, 0, 0, ts, src)
    ok, rep = attempt(_mk_report, p)
    if not ctx.check("report.construct", ok and rep is not None, "raised" if not ok else "helper_returned_no_report", f"sub={sub}/" + (exc_sig(rep) if not ok else p["route"]), case, error=repr(rep)):
        return
    ok, raw = attempt(rep.pack)
    if not ctx.check("report.pack", ok and bytes(raw) == want, "octets", f"sub={sub}/" + ("source_data" if ok and bytes(raw)[:13 + len(ts)] == want[:13 + len(ts)] else "header"), case,
                     expected=want, observed=bytes(raw) if ok else repr(raw)):
        return
    ctx.check("report.source_data", bytes(rep.source_data) == src and rep.tc_req_id.as_u32() == tc_v32, "views", f"sub={sub}", case)
    # "each with its declared width": the length helpers of the parameter objects add up to the source data
    ok, ln = attempt(lambda: (rep._verif_params.len() if hasattr(rep, "_verif_params") else None, None if rep.failure_notice is None else rep.failure_notice.len()))
    if ok and ln[0] is not None:
        ctx.check("report.source_data", ln[0] == len(src) and (ln[1] is None or ln[1] == cw + len(p["fdata"]) // 2), "declared_lengths_do_not_add_up", f"sub={sub}", case, observed=ln, expected=len(src))
    up = s1.UnpackParams(len(ts), sw, cw)
    ok, u = attempt(s1.Service1Tm.unpack, want, up)
    if not ctx.check("report.unpack", ok, "raised", f"sub={sub}/" + (exc_sig(u) if not ok else ""), case, error=repr(u)):
        return
    got = {"rid": u.tc_req_id.as_u32(), "step": None if u.step_id is None else [u.step_id.pfc // 8, u.step_id.val],
           "code": None if u.error_code is None else [u.error_code.pfc // 8, u.error_code.val],
           "fdata": None if u.failure_notice is None else bytes(u.failure_notice.data).hex(), "sub": int(u.subservice), "service": int(u.service),
           "is_step": u.is_step_reply, "has_notice": u.has_failure_notice, "ts": bytes(u.timestamp).hex()}
    exp = {"rid": tc_v32, "step": p["step"], "code": p["code"], "fdata": p["fdata"] if p["code"] else None, "sub": sub, "service": 1, "is_step": sub in (5, 6),
           "has_notice": sub % 2 == 0, "ts": p["ts"]}
    if not ctx.check("report.unpack", got == exp, "field", f"sub={sub}/" + ",".join(k for k in exp if got[k] != exp[k]), case, expected=exp, observed=got):
        return
    ok, rp = attempt(u.pack)
    ctx.check("report.roundtrip", ok and bytes(rp) == want, "repack", f"sub={sub}", case)
    ISO.remember(u, want, lambda u=u: (u.tc_req_id.as_u32(), None if u.step_id is None else (u.step_id.pfc, u.step_id.val),
                                       None if u.error_code is None else (u.error_code.pfc, u.error_code.val),
                                       None if u.failure_notice is None else bytes(u.failure_notice.data).hex(), int(u.subservice), bytes(u.source_data).hex()))
    ISO.recheck(ctx, case)
    ok, e = attempt(lambda: (u == rep) and (rep == u))
    ctx.check("report.roundtrip", ok and e is True, "decoded_report_not_equal_to_original", "failure" if sub % 2 == 0 else "success", case, observed=repr(e))
    ok, ft = attempt(s1.Service1Tm.from_tm, u.pus_tm, up)
    ctx.check("report.roundtrip", ok and ft.tc_req_id.as_u32() == tc_v32 and bytes(ft.pack()) == want, "from_tm", f"sub={sub}", case)
    if ok:
        # the report decoded through the alternate constructor: same fields, equal to the original, and it keeps them while later ones are decoded
        got2 = {"rid": ft.tc_req_id.as_u32(), "step": None if ft.step_id is None else [ft.step_id.pfc // 8, ft.step_id.val],
                "code": None if ft.error_code is None else [ft.error_code.pfc // 8, ft.error_code.val],
                "fdata": None if ft.failure_notice is None else bytes(ft.failure_notice.data).hex(), "sub": int(ft.subservice), "service": int(ft.service),
                "is_step": ft.is_step_reply, "has_notice": ft.has_failure_notice, "ts": bytes(ft.timestamp).hex()}
        ctx.check("report.unpack", got2 == exp, "field_through_from_tm", f"sub={sub}/" + ",".join(k for k in exp if got2[k] != exp[k]), case, expected=exp, observed=got2)
        ok, e = attempt(lambda: (ft == rep) and (rep == ft))
        ctx.check("report.roundtrip", ok and e is True, "report_from_tm_not_equal_to_original", "failure" if sub % 2 == 0 else "success", case, observed=repr(e))
        ISO.remember(ft, want, lambda u=ft: (u.tc_req_id.as_u32(), None if u.step_id is None else (u.step_id.pfc, u.step_id.val),
                                             None if u.error_code is None else (u.error_code.pfc, u.error_code.val),
                                             None if u.failure_notice is None else bytes(u.failure_notice.data).hex(), int(u.subservice), bytes(u.source_data).hex()))
    V.sp_views(ctx, "report.delegated_views", rep, want, case, "Service1Tm/built")
    V.sp_views(ctx, "report.delegated_views", u, want, case, "Service1Tm/unpacked")
    # the report object (built and decoded) re-used for the next packet: header fields changed through the wrapped packet, packed again
    for label, obj in (("built", rep), ("decoded", u)):
        apid2, count2 = (p["apid"] ^ 0x155) & 0x7FF, (count + 0x2001) & 0x3FFF
        ok, raw2 = attempt(lambda: (setattr(obj.pus_tm, "apid", apid2), setattr(obj.pus_tm.sp_header, "seq_count", count2), bytes(obj.pack()))[2])
        want2 = P.tm(apid2, count2, 1, sub, 0, 0, 0, ts, src)
        ctx.check("report.repack_after_change", ok and raw2 == want2, "octets_after_header_change", f"{label}/" + ("crc" if ok and raw2[:-2] == want2[:-2] else "fields"), case,
                  observed=raw2 if ok else repr(raw2), expected=want2)


def k_param_match(ctx, sub, has_step, has_notice, sub_as="enum"):
    """Parameter sets that do not match the subservice are refused; matching ones accepted (subservice given as the enum
    member or as the plain integer a decoded report's .subservice yields)."""
    RequestId, s1, PFE, sp, PusTc = _imp()
    case = {"k": "param_match", "sub": sub, "has_step": has_step, "has_notice": has_notice, "sub_as": sub_as}
    ctx.case("param_match", (sub, has_step, has_notice, sub_as), sample=case)
    ctx.table("param_match_grid", f"{sub}/{int(has_step)}/{int(has_notice)}")
    ctx.table("param_match_subservice_given_as", sub_as)
    vp = s1.VerificationParams(mk_rid(0x1801C016, "ctor"), PFE.with_byte_size(1, 3) if has_step else None,
                               s1.FailureNotice(PFE.with_byte_size(1, 9), b"\x01") if has_notice else None)
    should = (has_step == (sub in (5, 6))) and (has_notice == (sub % 2 == 0))
    subv = s1.Subservice(sub) if sub_as == "enum" else int(sub)
    ok, res = attempt(s1.Service1Tm, apid=1, subservice=subv, timestamp=b"", verif_params=vp)
    if ok and should:
        # an accepted set must also produce the source data of that subservice
        want_src = P.srv1_source_data(bytes.fromhex("1801c016"), (1, 3) if has_step else None, (1, 9) if has_notice else None, b"\x01" if has_notice else b"")
        ctx.check("report.param_match", bytes(res.source_data) == want_src, "accepted_set_packs_other_source_data", f"sub={sub}/{sub_as}", case, observed=bytes(res.source_data))
    ctx.ev("report.param_match")
    if should and not ok:
        ctx.fail("report.param_match", "matching_set_refused", f"sub={sub}/{sub_as}", case, error=repr(res))
    elif not should and ok:
        ctx.fail("report.param_match", "mismatching_set_accepted", f"sub={sub}/step={int(has_step)}/notice={int(has_notice)}/{sub_as}", case)
    elif not should and not isinstance(res, (s1.InvalidVerifParams, ValueError)):
        ctx.fail("report.param_match", "wrong_error", f"{type(res).__name__}", case, error=repr(res))


def k_rid_set(ctx, seed, n=1500):
    """Many request ids at once (a tracker's dictionary): random ones plus structured neighbours of each other - halves exchanged,
    one field up and another down by a fixed ratio, same XOR / same sum of the two 16-bit words - all distinct 32-bit values must be
    distinct dictionary keys and compare unequal, equal values must find each other."""
    import random
    r = random.Random(f"ridset/{seed}")
    case = {"k": "rid_set", "seed": seed, "n": n}
    ctx.case("rid_set", seed, sample=case)
    vals = set()
    while len(vals) < n:
        v = r.getrandbits(32)
        hi, lo = v >> 16, v & 0xFFFF
        fam = [v, (lo << 16) | hi, ((hi ^ 1) << 16) | (lo ^ 1), (((hi + 1) & 0xFFFF) << 16) | ((lo - 31) & 0xFFFF), (((hi + 2) & 0xFFFF) << 16) | ((lo - 62) & 0xFFFF),
               (((hi + 1) & 0xFFFF) << 16) | ((lo - 1) & 0xFFFF), (((hi + 1) & 0xFFFF) << 16) | ((lo - 1000003) & 0xFFFF), v ^ 0x80008000, v ^ 0x00010001, (hi << 16) | hi, (lo << 16) | lo]
        vals.update(fam)
    vals = sorted(vals)
    objs = [mk_rid(v, ROUTES[i % len(ROUTES)]) for i, v in enumerate(vals)]
    d = {}
    for o, v in zip(objs, vals):
        d[o] = v
    if not ctx.check("rid.hash", len(d) == len(vals), "dict_conflates_different_ids", "many_ids", case, distinct_values=len(vals), dict_size=len(d)):
        # name one colliding pair as witness
        seen = {}
        for o, v in zip(objs, vals):
            k = [w for w, p in seen.items() if p == o]
            if k:
                ctx.fail("rid.eq", "different_values_compare_equal", "structured_pair", {"k": "rid_pair", "a": k[0], "b": v, "ra": "ctor", "rb": "ctor"}, a=hex(k[0]), b=hex(v))
                break
            seen[v] = o
        return
    ok = all(d.get(mk_rid(v, "unpack")) == v for v in r.sample(vals, 300))
    ctx.check("rid.hash", ok, "dict_lookup_fails", "many_ids", case)


def k_rid_history(ctx, seed):
    """One request-id object whose public attributes are reassigned between reads: after every step all views agree
    with each other and with a fresh object of the same bits."""
    import random
    RequestId, s1, PFE, sp, PusTc = _imp()
    r = random.Random(f"ridh/{seed}")
    case = {"k": "rid_history", "seed": seed}
    ctx.case("rid_history", seed, sample=case)
    v = r.getrandbits(32)
    obj = mk_rid(v, r.choice(ROUTES))
    trail = []
    for step in range(hist_len(r, 2, 8)):
        op = r.choice(("as_u32", "hash", "eq", "dict", "pack", "set_psc", "set_packet_id", "set_version", "set_psc.seq_count", "set_psc.seq_flags", "set_packet_id.apid",
                       "set_packet_id.ptype", "set_packet_id.sec_header_flag"))
        trail.append(op)
        if op == "as_u32":
            obj.as_u32()
        elif op == "hash":
            hash(obj)
        elif op == "eq":
            obj == mk_rid(r.getrandbits(32), "ctor")
        elif op == "dict":
            {obj: 1}.get(obj)
        elif op == "pack":
            obj.pack()
        elif op == "set_psc":
            w = r.getrandbits(16)
            obj.tc_psc = sp.PacketSeqCtrl.from_raw(w)
            v = (v & 0xFFFF0000) | w
        elif op == "set_packet_id":
            w = r.getrandbits(13)
            obj.tc_packet_id = sp.PacketId.from_raw(w)
            v = (v & 0xE000FFFF) | (w << 16)
        elif op == "set_psc.seq_count":          # nested objects updated in place
            w = r.getrandbits(14)
            obj.tc_psc.seq_count = w
            v = (v & 0xFFFFC000) | w
        elif op == "set_psc.seq_flags":
            w = r.getrandbits(2)
            obj.tc_psc.seq_flags = sp.SequenceFlags(w)
            v = (v & 0xFFFF3FFF) | (w << 14)
        elif op == "set_packet_id.apid":
            w = r.getrandbits(11)
            obj.tc_packet_id.apid = w
            v = (v & 0xF800FFFF) | (w << 16)
        elif op == "set_packet_id.ptype":
            w = r.getrandbits(1)
            obj.tc_packet_id.ptype = sp.PacketType(w)
            v = (v & ~(1 << 28)) | (w << 28)
        elif op == "set_packet_id.sec_header_flag":
            w = r.getrandbits(1)
            obj.tc_packet_id.sec_header_flag = bool(w)
            v = (v & ~(1 << 27)) | (w << 27)
        else:
            w = r.getrandbits(3)
            obj.ccsds_version = w
            v = (v & 0x1FFFFFFF) | (w << 29)
        ctx.table("rid_history_ops", op)
        fresh = mk_rid(v, "unpack")
        want = v.to_bytes(4, "big")
        ok, got = attempt(lambda: (bytes(obj.pack()), obj.as_u32(), obj == fresh, fresh == obj, hash(obj) == hash(fresh), {fresh: 7}.get(obj)))
        mutated = any(t.startswith("set_") for t in trail)
        if not ctx.check("rid.history", ok and got == (want, v, True, True, True, 7), "views_disagree_after_attribute_assignment" if mutated else "views_disagree",
                         "" if not ok else ",".join(n for n, g, w_ in zip(("pack", "as_u32", "eq", "eq_rev", "hash", "dict"), got, (want, v, True, True, True, 7)) if g != w_),
                         case, trail=trail, observed=repr(got), expected=[want.hex(), v]):
            return


def k_pfe(ctx, width, val):
    RequestId, s1, PFE, sp, PusTc = _imp()
    case = {"k": "pfe", "width": width, "val": val}
    ctx.case(f"pfe/w={width}", (width, val))
    want = val.to_bytes(width, "big")
    ok, e = attempt(PFE.with_byte_size, width, val)
    if not ctx.check("pfe", ok and bytes(e.pack()) == want and e.len() == width, "pack", f"w={width}", case, observed=repr(e)):
        return
    ok, u = attempt(PFE.unpack, want + b"\x01", width * 8)
    ctx.check("pfe", ok and u.val == val and u.pfc == width * 8 and u == e, "unpack", f"w={width}", case, observed=repr(u))
    ok, u = attempt(PFE.unpack, want[:-1], width * 8)
    ctx.check("pfe", (not ok) and isinstance(u, ValueError), "short_input_accepted", f"w={width}", case, observed=repr(u))


KINDS = {"rid_set": k_rid_set, "rid_history": k_rid_history, "rid": k_rid, "rid_pair": k_rid_pair, "report": k_report, "param_match": k_param_match, "pfe": k_pfe}


def rand_report(r, sub=None, sw=None, cw=None, fd=None, tsl=None, route=None):
    sub = sub or r.randrange(1, 9)
    sw = sw or r.choice((1, 2, 4, 8))
    cw = cw or r.choice((1, 2, 4, 8))
    fd = r.choice((0, 1, 17)) if fd is None else fd
    tsl = r.choice((0, 7, 12)) if tsl is None else tsl
    return {"sub": sub, "ts": rand_bytes(r, tsl).hex(), "tc_v32": rand_uint(r, 32), "step": [sw, rand_uint(r, 8 * sw)] if sub in (5, 6) else None,
            "code": [cw, rand_uint(r, 8 * cw)] if sub % 2 == 0 else None, "fdata": rand_bytes(r, fd).hex() if sub % 2 == 0 else "",
            "route": route or r.choice(("ctor", "helper")), "apid": rand_uint(r, 11), "count": rand_uint(r, 14),
            "pfe_style": r.choice(("with_byte_size", "wrapper", "pfc_ctor"))}


def selftest(ctx):
    assert P.request_id(0, 1, 0, 0x22, 3, 17).hex() == "1022c011"
    n = 1
    for _ in range(1000):
        v = ctx.rng.getrandbits(32)
        assert P.request_id(**_fields(v)) == v.to_bytes(4, "big") == H.encode_header(length=0, **_fields(v))[:4]
        n += 1
    ctx.selftest["ref.pus.request_id golden + field split"] = n


def run(ctx):
    from spverif.ref import enums as _enums
    if ctx.shard[0] == 0:
        _enums.check(ctx, "code_tables", ['spacepackets.ecss.pus_1_verification'])
    from spverif.san import scribble
    scribble.install()
    r = ctx.rng
    for half in (0, 1):
        for w in range(65536):
            if not ctx.mine(w) or (ctx.quick and w % 4 != ctx.seed % 4 and 64 < w < 65472):
                continue
            other = r.getrandbits(16)
            v = (w << 16 | other) if half == 0 else (other << 16 | w)
            k_rid(ctx, v, ROUTES[w % len(ROUTES)])
    ctx.exhaustive.append("each 16-bit half of the request id" + (" (quick: one residue class mod 4 + both ends)" if ctx.quick else "") + ", routes rotated")
    for b in range(32):
        for v in (1 << b, 0xFFFFFFFF ^ (1 << b)):
            for route in ROUTES:
                k_rid(ctx, v, route)
        base = r.getrandbits(32)
        k_rid_pair(ctx, base, base ^ (1 << b), r.choice(ROUTES), r.choice(ROUTES))
    for _ in range(ctx.n(4000, 600_000)):
        k_rid(ctx, r.getrandbits(32), r.choice(ROUTES))
    for _ in range(ctx.n(3000, 300_000)):
        a = r.getrandbits(32)
        c = r.random()
        b = a if c < 0.4 else a ^ (1 << r.randrange(32)) if c < 0.8 else r.getrandbits(32)
        k_rid_pair(ctx, a, b, r.choice(ROUTES), r.choice(ROUTES))
    for j in range(ctx.n(4, 200)):
        k_rid_set(ctx, ctx.seed * 1_000_003 + ctx.shard[0] * 100_003 + j)
    for j in range(ctx.n(2000, 200_000)):
        k_rid_history(ctx, ctx.seed * 1_000_003 + ctx.shard[0] * 100_003 + j)
    # report grid
    i = 0
    for sub in range(1, 9):
        for sw in (1, 2, 4, 8):
            for cw in (1, 2, 4, 8):
                for fd in (0, 1, 17):
                    for tsl in (0, 7, 12):
                        i += 1
                        if ctx.mine(i):
                            k_report(ctx, rand_report(r, sub, sw, cw, fd, tsl, route=("ctor", "helper")[i & 1]))
    ctx.exhaustive.append("8 subservices x 4 step-id widths x 4 error-code widths x 3 failure-data lengths x 3 timestamp lengths")
    for _ in range(ctx.n(1500, 150_000)):
        k_report(ctx, rand_report(r))
    for sub in range(1, 9):
        for hs in (False, True):
            for hn in (False, True):
                k_param_match(ctx, sub, hs, hn)
                k_param_match(ctx, sub, hs, hn, "int")
    ctx.exhaustive.append("all 8 x 2 x 2 (subservice, step id present, failure notice present) parameter combinations")
    for w in (1, 2, 4, 8):
        for v in {0, 1, (1 << 8 * w) - 1, 1 << (8 * w - 1), r.getrandbits(8 * w), r.getrandbits(8 * w)}:
            k_pfe(ctx, w, v)


def conclude(ctx):
    ctx.require(ctx.extra.get("hostile_caller_scribbled_pack_results", 0) > 0, "hostile-caller sanitizer scribbled no pack() result")
    ctx.require(len(ctx.tables.get("param_match_grid", {})) == 32, "parameter match grid incomplete")
    ctx.require(len(ctx.tables.get("report_grid", {})) >= 100, "report grid too small")
    ctx.require(len(ctx.tables.get("report_field_style", {})) == 3, "not every packet-field construction style was used in reports")
    for route in ROUTES:
        ctx.require(ctx.classes.get(f"rid/{route}", 0) > 0, f"route {route} not exercised")
    for c in ("rid_pair/equal", "rid_pair/onebit", "rid_pair/different"):
        ctx.require(ctx.classes.get(c, 0) > 0, f"class {c} empty")
    for m in ("rid.pack", "rid.as_u32", "rid.unpack", "rid.eq", "rid.hash", "report.pack", "report.unpack", "report.roundtrip", "report.param_match", "report.source_data", "pfe", "rid.history", "report.repack_after_change", "report.decoded_objects_independent"):
        ctx.require(ctx.monitors.get(m, {}).get("evaluations", 0) > 0, f"monitor {m} never evaluated")
