"""Shared CFDP workload helpers: configurations, parameter generators, library builders,
accessor read-back and reference octets for the eight PDU kinds (used by C04-C07, C09-C12)."""
from __future__ import annotations

from spverif.core.util import rand_uint, rand_bytes, rand_name, rand_len
from spverif.ref import cfdp as R

KINDS8 = ("eof", "finished", "ack", "metadata", "nak", "prompt", "keep_alive", "file_data")
DIRECTIVE_KINDS = KINDS8[:7]
WIDTHS = (1, 2, 4, 8)
CONDS = (0, 1, 2, 3, 4, 5, 6, 7, 8, 10, 11, 14, 15)
NO_FAULT_LOC_CONDS = (0, 11)         # no error / unsupported checksum type: no fault location (727.0-B-5 5.2.2/5.2.3)
CKSUMS = (0, 1, 2, 3, 15)
DIRECTION = {"eof": 0, "finished": 1, "metadata": 0, "nak": 1, "prompt": 0, "keep_alive": 1, "file_data": 0}
DIRECTIVE_CODE = {"eof": 4, "finished": 5, "ack": 6, "metadata": 7, "nak": 8, "prompt": 9, "keep_alive": 12}


def L():
    """Library namespace (imported lazily so that the repo import setup runs first)."""
    import types
    ns = types.SimpleNamespace()
    from spacepackets.cfdp import conf, defs
    from spacepackets.cfdp.pdu import (AckPdu, EofPdu, FileDataPdu, FinishedPdu, KeepAlivePdu, MetadataPdu, NakPdu,
                                       PromptPdu, PduHeader, PduFactory, PduHolder, DirectiveType, FinishedParams,
                                       MetadataParams, FileDataParams, TransactionStatus)
    from spacepackets.cfdp.pdu.file_data import SegmentMetadata, RecordContinuationState
    from spacepackets.cfdp.pdu.prompt import ResponseRequired
    from spacepackets.cfdp.tlv import (CfdpTlv, EntityIdTlv, FileStoreResponseTlv, FileStoreRequestTlv, FlowLabelTlv,
                                       FaultHandlerOverrideTlv, MessageToUserTlv, TlvType, FilestoreActionCode,
                                       FilestoreResponseStatusCode, TlvHolder)
    from spacepackets.cfdp.lv import CfdpLv
    from spacepackets.util import ByteFieldGenerator, UnsignedByteField
    ns.__dict__.update(locals())
    ns.CLS = {"eof": EofPdu, "finished": FinishedPdu, "ack": AckPdu, "metadata": MetadataPdu, "nak": NakPdu,
              "prompt": PromptPdu, "keep_alive": KeepAlivePdu, "file_data": FileDataPdu}
    return ns


_L = None


def lib():
    global _L
    if _L is None:
        _L = L()
    return _L


# ------------------------------------------------------------ configurations
def all_cfgs(rng, segctrl=False):
    """All crc x large x 16 width combinations x transmission mode (128), ids/seq random of that width."""
    for crc in (0, 1):
        for large in (0, 1):
            for idw in WIDTHS:
                for seqw in WIDTHS:
                    for mode in (0, 1):
                        yield mk_cfg(rng, crc, large, idw, seqw, mode, rng.getrandbits(1))


def mk_cfg(rng, crc, large, idw, seqw, mode=0, segctrl=0):
    return {"mode": mode, "crc": crc, "large": large, "segctrl": segctrl, "idw": idw, "seqw": seqw,
            "src": rand_uint(rng, 8 * idw), "seq": rand_uint(rng, 8 * seqw), "dst": rand_uint(rng, 8 * idw)}


_LAST_IDS = None


def rand_cfg(rng, segctrl=False, **fixed):
    # the segmentation-control bit is packed for every PDU kind (it means something for File Data PDUs only, but a transaction
    # uses one configuration for all its PDUs), so every kind sees both values; `segctrl` is kept for the callers' readability
    c = mk_cfg(rng, rng.getrandbits(1), rng.getrandbits(1), rng.choice(WIDTHS), rng.choice(WIDTHS), rng.getrandbits(1),
               rng.getrandbits(1))
    if rng.random() < 0.06:
        # coincidences between fields: equal source and destination ids, sequence number equal to an id (where the widths allow)
        c["dst"] = c["src"]
        if rng.random() < 0.5:
            c["seq"] = c["src"] & ((1 << 8 * c["seqw"]) - 1)
    global _LAST_IDS
    if _LAST_IDS is not None and rng.random() < 0.08:
        # numeric twins: the ids and the sequence number of the configuration generated just before, carried in other widths
        # (anything keyed on the numbers alone - a cache, a memo, an equality shortcut - confuses the two)
        src, dst, seq, idw0, seqw0 = _LAST_IDS
        idws = [w for w in WIDTHS if max(src, dst) < 1 << 8 * w and w != idw0] or [w for w in WIDTHS if max(src, dst) < 1 << 8 * w]
        seqws = [w for w in WIDTHS if seq < 1 << 8 * w and w != seqw0] or [w for w in WIDTHS if seq < 1 << 8 * w]
        c.update(src=src, dst=dst, seq=seq, idw=rng.choice(idws), seqw=rng.choice(seqws))
    if fixed:
        c.update(fixed)
        c["src"] &= (1 << 8 * c["idw"]) - 1
        c["dst"] &= (1 << 8 * c["idw"]) - 1
        c["seq"] &= (1 << 8 * c["seqw"]) - 1
    _LAST_IDS = (c["src"], c["dst"], c["seq"], c["idw"], c["seqw"])
    return c


def cfg_class(cfg) -> str:
    return f"crc={cfg['crc']}/large={cfg['large']}"


def lib_cfg(cfg, direction=0):
    X = lib()
    d = X.defs
    return X.conf.PduConfig(
        source_entity_id=X.ByteFieldGenerator.from_int(cfg["idw"], cfg["src"]),
        dest_entity_id=X.ByteFieldGenerator.from_int(cfg["idw"], cfg["dst"]),
        transaction_seq_num=X.ByteFieldGenerator.from_int(cfg["seqw"], cfg["seq"]),
        trans_mode=d.TransmissionMode(cfg["mode"]),
        file_flag=d.LargeFileFlag(cfg["large"]),
        crc_flag=d.CrcFlag(cfg["crc"]),
        direction=d.Direction(direction),
        seg_ctrl=d.SegmentationControl(cfg["segctrl"]),
    )


def hdr_fields(h) -> dict:
    """Read every header field back through the public accessors of a PduHeader."""
    return {"pdu_type": int(h.pdu_type), "direction": int(h.direction), "mode": int(h.transmission_mode),
            "crc": int(h.crc_flag), "large": int(h.file_flag), "data_len": h.pdu_data_field_len,
            "segctrl": int(h.seg_ctrl), "segmeta": int(h.segment_metadata_flag),
            "idw": h.source_entity_id.byte_len, "seqw": h.transaction_seq_num.byte_len,
            "src": h.source_entity_id.value, "seq": h.transaction_seq_num.value, "dst": h.dest_entity_id.value,
            "dst_w": h.dest_entity_id.byte_len, "header_len": h.header_len}


# ---------------------------------------------------------------- parameters
def fss_pool(large):
    bits = 64 if large else 32
    m = (1 << bits) - 1
    return [v for v in (0, 1, 255, 256, 65535, 65536, 2 ** 31, 2 ** 32 - 1, 2 ** 32, 2 ** 63, 2 ** 64 - 1, 0x01020304,
                        0x0102030405060708) if v <= m]


def rand_fss(rng, large):
    return rng.choice(fss_pool(large)) if rng.random() < 0.5 else rand_uint(rng, 64 if large else 32)


def status_codes_for(action: int):
    X = lib()
    return sorted({int(c) for c in X.FilestoreResponseStatusCode if int(c) >= 0 and (int(c) >> 4) == action})


def rand_response(rng, max_total=255):
    X = lib()
    for _ in range(100):
        action = rng.choice([int(a) for a in X.FilestoreActionCode])
        codes = status_codes_for(action)
        if not codes:
            continue
        first = rand_name(rng, 60)
        second = rand_name(rng, 60) if action in R.TWO_NAME_ACTIONS else ""
        msg = rand_bytes(rng, rand_len(rng, 40))
        n = 1 + 1 + len(first.encode()) + (1 + len(second.encode()) if action in R.TWO_NAME_ACTIONS else 0) + 1 + len(msg)
        if n <= max_total:
            return {"action": action, "status": rng.choice(codes), "first": first, "second": second, "msg": msg.hex()}
    raise RuntimeError("no response generated")


METADATA_OPTION_TYPES = (R.TLV_FS_REQUEST, R.TLV_MSG_TO_USER, R.TLV_FAULT_HANDLER, R.TLV_FLOW_LABEL)   # 727.0-B-5 table 5-9


def rand_option(rng):
    t = rng.choice(METADATA_OPTION_TYPES)
    n = rand_len(rng, 40) if rng.random() < 0.9 else rng.choice((254, 255))
    how = rng.choice(("generic", "concrete"))
    if how == "concrete" and t == R.TLV_FAULT_HANDLER:
        # a typed object needs content its class can parse
        return [t, bytes([(rng.choice(CONDS) << 4) | rng.choice((1, 2, 3, 4))]).hex(), "concrete"]
    if how == "concrete" and t == R.TLV_FS_REQUEST:
        a = rng.choice(range(9))
        return [t, R.fs_request_value(a, rand_name(rng, 30).encode(), rand_name(rng, 30).encode() if a in R.TWO_NAME_ACTIONS else b"").hex(), "concrete"]
    return [t, rand_bytes(rng, n).hex(), how]


def rand_params(rng, kind, cfg, rich=True):
    large = cfg["large"]
    if kind == "eof":
        cond = rng.choice(CONDS)
        fid = None
        if cond not in NO_FAULT_LOC_CONDS and rng.random() < 0.6:
            fid = rand_bytes(rng, rng.choice(WIDTHS)).hex()
        return {"cond": cond, "checksum": rand_bytes(rng, 4).hex(), "size": rand_fss(rng, large), "fault_id": fid}
    if kind == "finished":
        cond = rng.choice(CONDS)
        fid = None
        if cond not in NO_FAULT_LOC_CONDS and rng.random() < 0.6:
            fid = rand_bytes(rng, rng.choice(WIDTHS)).hex()
        nresp = rng.choice((0, 0, 1, 2, 3)) if rich else 0
        return {"cond": cond, "delivery": rng.getrandbits(1), "status": rng.getrandbits(2),
                "responses": [rand_response(rng) for _ in range(nresp)], "fault_id": fid}
    if kind == "ack":
        return {"acked": rng.choice((4, 5)), "cond": rng.choice(CONDS), "tstatus": rng.getrandbits(2)}
    if kind == "metadata":
        nopt = rng.choice((0, 0, 1, 2, 3, 4)) if rich else 0
        sname = rng.choice((None, rand_name(rng), rand_name(rng)))
        return {"closure": rng.getrandbits(1), "cksum_type": rng.choice(CKSUMS), "size": rand_fss(rng, large),
                "src_name": sname,
                "dst_name": sname if rng.random() < 0.1 else rng.choice((None, rand_name(rng), rand_name(rng))),
                "options": None if (nopt == 0 and rng.random() < 0.5) else [rand_option(rng) for _ in range(nopt)]}
    if kind == "nak":
        nseg = rng.choice((0, 0, 1, 2, 3, 8, 17, 64)) if rich else rng.choice((0, 1))
        segs = None if (nseg == 0 and rng.random() < 0.5) else [[rand_fss(rng, large), rand_fss(rng, large)] for _ in range(nseg)]
        if segs and len(segs) >= 2 and rng.random() < 0.3:
            # coincidences: contiguous requests (end == next start), duplicated requests, requests sharing a start, empty (0, 0)
            how = rng.choice(("contiguous", "duplicate", "same_start", "zero"))
            for i in range(1, len(segs)):
                if how == "contiguous":
                    segs[i][0] = segs[i - 1][1]
                elif how == "duplicate":
                    segs[i] = list(segs[i - 1])
                elif how == "same_start":
                    segs[i][0] = segs[0][0]
                else:
                    segs[i] = [0, 0]
        start, end = rand_fss(rng, large), rand_fss(rng, large)
        if rng.random() < 0.1:
            end = start
        return {"start": start, "end": end, "segments": segs}
    if kind == "prompt":
        return {"rr": rng.getrandbits(1)}
    if kind == "keep_alive":
        return {"progress": rand_fss(rng, large)}
    if kind == "file_data":
        sm = None
        if rng.random() < 0.5:
            sm = [rng.getrandbits(2), rand_bytes(rng, rng.choice((0, 1, 2, 17, 62, 63, rng.randrange(0, 64)))).hex()]
        return {"offset": rand_fss(rng, large), "data": rand_bytes(rng, rand_len(rng, 300 if rich else 20)).hex(), "seg_meta": sm}
    raise AssertionError(kind)


def norm_params(kind, p):
    """Canonical form used on both sides of a comparison (None == '' for names, None == [] for lists)."""
    q = dict(p)
    if kind == "metadata":
        q["src_name"] = q["src_name"] or None
        q["dst_name"] = q["dst_name"] or None
        q["options"] = [[o[0], o[1]] for o in (q["options"] or [])]
    if kind == "nak":
        q["segments"] = [list(s) for s in (q["segments"] or [])]
    if kind == "finished":
        q["responses"] = [dict(r, second=r["second"] if r["action"] in R.TWO_NAME_ACTIONS else "") for r in q["responses"]]
    if kind == "ack":
        q.setdefault("subtype", 1 if q["acked"] == 5 else 0)
    return q


# ------------------------------------------------------------------ builders
def mk_response(r):
    X = lib()
    return X.FileStoreResponseTlv(action_code=X.FilestoreActionCode(r["action"]),
                                  status_code=X.FilestoreResponseStatusCode(r["status"]),
                                  first_file_name=r["first"], second_file_name=r["second"],
                                  filestore_msg=X.CfdpLv(bytes.fromhex(r["msg"])))


def mk_option(o):
    X = lib()
    t, v = o[0], bytes.fromhex(o[1])
    how = o[2] if len(o) > 2 else "generic"
    if how == "concrete":
        if t == R.TLV_MSG_TO_USER:
            return X.MessageToUserTlv(v)
        if t == R.TLV_FLOW_LABEL:
            return X.FlowLabelTlv(v)
        if t == R.TLV_ENTITY_ID:
            return X.EntityIdTlv(v)
        if t == R.TLV_FAULT_HANDLER and len(v) == 1:
            return X.FaultHandlerOverrideTlv(X.defs.ConditionCode(v[0] >> 4), X.defs.FaultHandlerCode(v[0] & 0xF))
        if t == R.TLV_FS_REQUEST:
            d = R.decode_fs_value(v, response=False)
            return X.FileStoreRequestTlv(X.FilestoreActionCode(d["action"]), d["first"].decode(), d["second"].decode() if d.get("second") is not None else None)
    return X.CfdpTlv(X.TlvType(t), v)


def build(kind, cfg, p):
    """Construct the library PDU object for (kind, cfg, params)."""
    X = lib()
    d = X.defs
    conf = lib_cfg(cfg, direction=1 - DIRECTION.get(kind, 0))     # deliberately the wrong direction: ctor must fix it
    if kind == "eof":
        fl = None if p["fault_id"] is None else X.EntityIdTlv(bytes.fromhex(p["fault_id"]))
        return X.EofPdu(conf, bytes.fromhex(p["checksum"]), p["size"], fl, d.ConditionCode(p["cond"]))
    if kind == "finished":
        fl = None if p["fault_id"] is None else X.EntityIdTlv(bytes.fromhex(p["fault_id"]))
        params = X.FinishedParams(d.ConditionCode(p["cond"]), d.DeliveryCode(p["delivery"]), d.FileStatus(p["status"]),
                                  [mk_response(r) for r in p["responses"]], fl)
        return X.FinishedPdu(conf, params)
    if kind == "ack":
        return X.AckPdu(conf, X.DirectiveType(p["acked"]), d.ConditionCode(p["cond"]), X.TransactionStatus(p["tstatus"]))
    if kind == "metadata":
        params = X.MetadataParams(bool(p["closure"]), d.ChecksumType(p["cksum_type"]), p["size"], p["src_name"], p["dst_name"])
        opts = None if p["options"] is None else [mk_option(o) for o in p["options"]]
        return X.MetadataPdu(conf, params, opts)
    if kind == "nak":
        segs = None if p["segments"] is None else [tuple(s) for s in p["segments"]]
        return X.NakPdu(conf, p["start"], p["end"], segs)
    if kind == "prompt":
        return X.PromptPdu(conf, X.ResponseRequired(p["rr"]))
    if kind == "keep_alive":
        return X.KeepAlivePdu(conf, p["progress"])
    if kind == "file_data":
        sm = None
        if p["seg_meta"] is not None:
            sm = X.SegmentMetadata(X.RecordContinuationState(p["seg_meta"][0]), bytes.fromhex(p["seg_meta"][1]))
        return X.FileDataPdu(conf, X.FileDataParams(bytes.fromhex(p["data"]), p["offset"], sm))
    raise AssertionError(kind)


def ref_octets(kind, cfg, p) -> bytes:
    if kind == "eof":
        return R.eof(cfg, p["cond"], bytes.fromhex(p["checksum"]), p["size"],
                     None if p["fault_id"] is None else bytes.fromhex(p["fault_id"]))
    if kind == "finished":
        resp = [R.tlv(R.TLV_FS_RESPONSE, R.fs_response_value(r["action"], r["status"] & 0xF, r["first"].encode(),
                                                              r["second"].encode(), bytes.fromhex(r["msg"])))
                for r in p["responses"]]
        return R.finished(cfg, p["cond"], p["delivery"], p["status"], resp,
                          None if p["fault_id"] is None else bytes.fromhex(p["fault_id"]))
    if kind == "ack":
        return R.ack(cfg, p["acked"], p["cond"], p["tstatus"])
    if kind == "metadata":
        opts = [R.tlv(o[0], bytes.fromhex(o[1])) for o in (p["options"] or [])]
        return R.metadata(cfg, p["closure"], p["cksum_type"], p["size"], (p["src_name"] or "").encode(),
                          (p["dst_name"] or "").encode(), opts)
    if kind == "nak":
        return R.nak(cfg, p["start"], p["end"], [tuple(s) for s in (p["segments"] or [])])
    if kind == "prompt":
        return R.prompt(cfg, p["rr"])
    if kind == "keep_alive":
        return R.keep_alive(cfg, p["progress"])
    if kind == "file_data":
        sm = None if p["seg_meta"] is None else (p["seg_meta"][0], bytes.fromhex(p["seg_meta"][1]))
        return R.file_data(cfg, p["offset"], bytes.fromhex(p["data"]), sm)
    raise AssertionError(kind)


def _name(lvname):
    return lvname


def get_params(kind, pdu) -> dict:
    """Read the parameters back through the public accessors of a library PDU object."""
    if kind == "eof":
        fl = pdu.fault_location
        return {"cond": int(pdu.condition_code), "checksum": bytes(pdu.file_checksum).hex(), "size": pdu.file_size,
                "fault_id": None if fl is None else bytes(fl.value).hex()}
    if kind == "finished":
        fl = pdu.fault_location
        resp = []
        for r in pdu.file_store_responses or []:
            resp.append({"action": int(r.action_code), "status": int(r.status_code), "first": r.first_file_name,
                         "second": r.second_file_name if int(r.action_code) in R.TWO_NAME_ACTIONS else "",
                         "msg": bytes(r.filestore_msg.value).hex()})
        return {"cond": int(pdu.condition_code), "delivery": int(pdu.delivery_code), "status": int(pdu.file_status),
                "responses": resp, "fault_id": None if fl is None else bytes(fl.value).hex()}
    if kind == "ack":
        return {"acked": int(pdu.directive_code_of_acked_pdu), "subtype": int(pdu.directive_subtype_code),
                "cond": int(pdu.condition_code_of_acked_pdu), "tstatus": int(pdu.transaction_status)}
    if kind == "metadata":
        opts = pdu.options
        return {"closure": int(bool(pdu.closure_requested)), "cksum_type": int(pdu.checksum_type), "size": pdu.file_size,
                "src_name": pdu.source_file_name or None, "dst_name": pdu.dest_file_name or None,
                "options": [[int(o.tlv_type), bytes(o.value).hex()] for o in (opts or [])]}
    if kind == "nak":
        return {"start": pdu.start_of_scope, "end": pdu.end_of_scope, "segments": [list(s) for s in (pdu.segment_requests or [])]}
    if kind == "prompt":
        return {"rr": int(pdu.response_required)}
    if kind == "keep_alive":
        return {"progress": pdu.progress}
    if kind == "file_data":
        sm = pdu.segment_metadata
        return {"offset": pdu.offset, "data": bytes(pdu.file_data).hex(),
                "seg_meta": None if sm is None else [int(sm.record_cont_state), bytes(sm.metadata).hex()]}
    raise AssertionError(kind)


def ref_params(kind, d) -> dict:
    """Model-decoded PDU (ref.cfdp.decode_pdu output) -> the same canonical parameter dict."""
    if kind == "eof":
        return {"cond": d["cond"], "checksum": d["checksum"].hex(), "size": d["size"],
                "fault_id": None if d["fault_id"] is None else d["fault_id"].hex()}
    if kind == "finished":
        resp = []
        for raw in d["responses"]:
            v = R.decode_fs_value(raw[2:], True)
            resp.append({"action": v["action"], "status": (v["action"] << 4) | v["status"], "first": v["first"].decode(),
                         "second": (v["second"] or b"").decode(), "msg": v["msg"].hex()})
        return {"cond": d["cond"], "delivery": d["delivery"], "status": d["status"], "responses": resp,
                "fault_id": None if d["fault_id"] is None else d["fault_id"].hex()}
    if kind == "ack":
        return {"acked": d["acked"], "subtype": d["subtype"], "cond": d["cond"], "tstatus": d["tstatus"]}
    if kind == "metadata":
        return {"closure": d["closure"], "cksum_type": d["cksum_type"], "size": d["size"],
                "src_name": d["src_name"].decode() or None, "dst_name": d["dst_name"].decode() or None,
                "options": [[t, v.hex()] for t, v in d["options"]]}
    if kind == "nak":
        return {"start": d["start"], "end": d["end"], "segments": [list(s) for s in d["segments"]]}
    if kind == "prompt":
        return {"rr": d["response_required"]}
    if kind == "keep_alive":
        return {"progress": d["progress"]}
    if kind == "file_data":
        sm = d["seg_meta"]
        return {"offset": d["offset"], "data": d["data"].hex(), "seg_meta": None if sm is None else [sm[0], sm[1].hex()]}
    raise AssertionError(kind)


def diff_keys(a: dict, b: dict) -> str:
    return ",".join(sorted(k for k in set(a) | set(b) if a.get(k) != b.get(k)))


def region_of(kind, cfg, p, octets: bytes, i: int) -> str:
    """Name of the region of a packed PDU that octet index i falls into."""
    hl = R.header_len(cfg["idw"], cfg["seqw"])
    n = len(octets)
    if i < 4:
        return "hdr_fixed"
    if i < hl:
        return "hdr_ids"
    if cfg["crc"] and i >= n - 2:
        return "crc"
    if kind != "file_data" and i == hl:
        return "directive_code"
    return "params"


# ------------------------------------------------ packets whose running CRC hits a chosen value at a boundary
def craft_crc_boundary(kind, cfg, p, where="header", target=0):
    """Return (cfg', p') equal to (cfg, p) except for 16 bits (low bits of the sequence number, or of the file offset for
    where="offset") chosen so that the CRC-16 over the PDU prefix ending at that boundary equals `target`; None if impossible."""
    from spverif.ref.crc import find16, crc16
    raw = ref_octets(kind, cfg, p)
    idw, seqw = cfg["idw"], cfg["seqw"]
    hl = R.header_len(idw, seqw)
    if where in ("header", "whole"):
        # "whole": the CRC over everything in front of the trailer is `target`, i.e. the trailer itself is 0x0000 / 0xFFFF
        if seqw < 2 or (where == "whole" and not cfg["crc"]):
            return None
        k = 4 + idw + seqw - 2
        end = hl if where == "header" else len(raw) - 2
        x = find16(raw[:k], lambda x: x.to_bytes(2, "big") + raw[k + 2:end], target)
        if x is None:
            return None
        cfg2 = dict(cfg, seq=(cfg["seq"] & ~0xFFFF) | x)
        r2 = ref_octets(kind, cfg2, p)
        assert crc16(r2[:hl] if where == "header" else r2[:-2]) == target
        return cfg2, p
    if where == "offset" and kind == "file_data":
        fss = 8 if cfg["large"] else 4
        start = hl + (0 if p["seg_meta"] is None else 1 + len(p["seg_meta"][1]) // 2)
        k = start + fss - 2
        x = find16(raw[:k], lambda x: x.to_bytes(2, "big"), target)
        if x is None:
            return None
        p2 = dict(p, offset=(p["offset"] & ~0xFFFF) | x)
        assert crc16(ref_octets(kind, cfg, p2)[:k + 2]) == target
        return cfg, p2
    return None


# ------------------------------------------------------------ aliasing monitor
class Isolation:
    """Objects returned by earlier decodes must not change when later, different inputs are decoded
    (shared placeholder objects / cached singletons show up here and nowhere else)."""

    def __init__(self, size=6):
        self.size = size
        self.buf = []

    def remember(self, obj, raw: bytes, label: str, view=None):
        """view: optional zero-argument callable reading the object's public parameters (compared again later)."""
        self.buf.append((obj, bytes(raw), label, view, None if view is None else repr(view())))
        if len(self.buf) > self.size:
            self.buf.pop(0)

    def recheck(self, ctx, monitor, case, rng=None):
        """Re-pack every remembered object and compare with the octets it was decoded from."""
        for obj, raw, label, view, seen in self.buf[:-1]:
            ctx.ev(monitor)
            if view is not None:
                try:
                    now = repr(view())
                except Exception as e:  # noqa: BLE001
                    now = "raised " + repr(e)
                if now != seen:
                    ctx.fail(monitor, "earlier_decoded_object_changed_by_a_later_decode", label + "/accessors", case, decoded_from=raw[:60], read_then=seen[:200], read_now=now[:200])
                    self.buf = self.buf[-1:]
                    return False
            try:
                again = bytes(obj.pack())
            except Exception as e:  # noqa: BLE001
                ctx.fail(monitor, "earlier_decoded_object_no_longer_packs", label, case, error=repr(e), decoded_from=raw[:60])
                self.buf = self.buf[-1:]
                return False
            if again != raw:
                ctx.fail(monitor, "earlier_decoded_object_changed_by_a_later_decode", label, case, decoded_from=raw[:60], now_packs=again[:60])
                self.buf = self.buf[-1:]
                return False
        return True
