"""C20 - unsigned byte fields keep value, width and big-endian octets coherent; conversion helpers."""
from __future__ import annotations

from spverif.core.util import attempt, exc_sig, pool_uint, rand_uint, hist_len

THOROUGH_SCALE = 8
ID = "C20"
LEVEL = "exploration"
SHARDS = {"quick": 1, "thorough": 16}
RULE = ("cases = (width, value) pairs: all values for widths 0, 1 and 2 (exhaustive), boundary pools, walking bits and random values over "
        "the full 32/64-bit range for widths 4 and 8; octet strings for the from-bytes direction (exact, with suffix, too short); pairs for "
        "the equality / hash laws; out-of-range values, unsupported widths; IntByteConversion.to_unsigned / to_signed over everything "
        "they accept (exhaustive for 1 and 2 octets); non-trivial = value not in the literals of tests/test_util.py (0x42, 0x4242, ...); "
        "distinct = distinct (width, value[, route])")
TRUSTED = ["CPython 3.12 int.to_bytes / int.from_bytes"]
ASSUMPTIONS = ["oracle = int.to_bytes(width, 'big') / two's complement via int.to_bytes(signed=True)",
               "building the empty field from zero octets is refused with ValueError by from_bytes and by the generator (documented for the generator): informational",
               "conversion helpers are judged only on the values they accept; which values they refuse is reported, not judged, except that a refusal must be ValueError for the byte field itself"]
_TEST_LITERALS = {0x42, 0x4242, 0x42424242, 0x4242424242424242, 0, 1}
WIDTHS = (1, 2, 4, 8)


def _imp():
    from spacepackets import util
    return util


def _hex_str(v, w):
    return f"{v:#0{2 + 2 * w}x}"


def k_field(ctx, w, v, route="ctor"):
    U = _imp()
    case = {"k": "field", "w": w, "v": v, "route": route}
    ctx.case(f"field/w={w}/{route}", (w, v, route), nontrivial=v not in _TEST_LITERALS, sample=case)
    want = v.to_bytes(w, "big")
    if route == "ctor":
        ok, f = attempt(U.UnsignedByteField, v, w)
    elif route == "gen_int":
        ok, f = attempt(U.ByteFieldGenerator.from_int, w, v)
    elif route == "gen_bytes":
        ok, f = attempt(U.ByteFieldGenerator.from_bytes, w, want + b"\xaa")
    elif route == "from_bytes":
        ok, f = attempt(U.UnsignedByteField.from_bytes, want)
    elif route == "subclass":
        cls = {0: U.ByteFieldEmpty, 1: U.ByteFieldU8, 2: U.ByteFieldU16, 4: U.ByteFieldU32, 8: U.ByteFieldU64}[w]
        ok, f = attempt(cls, v) if w else attempt(cls)
    elif route == "assign_int":
        ok, f = attempt(U.UnsignedByteField, (v + 1) % max(1, 1 << (8 * w)), w)
        if ok:
            ok, e = attempt(setattr, f, "value", v)
            f = f if ok else e
    elif route == "assign_bytes":
        ok, f = attempt(U.UnsignedByteField, 0, w)
        if ok:
            ok, e = attempt(setattr, f, "value", want + b"\x01\x02")
            f = f if ok else e
    else:
        raise AssertionError(route)
    if not ctx.check("field.construct", ok, "raised", f"{route}/w={w}/" + (exc_sig(f) if not ok else ""), case, error=repr(f)):
        return
    views = {"as_bytes": bytes(f.as_bytes), "int": int(f), "len": len(f), "value": f.value, "byte_len": f.byte_len}
    exp = {"as_bytes": want, "int": v, "len": w, "value": v, "byte_len": w}
    if not ctx.check("field.views", views == exp, "differ", f"{route}/w={w}/" + ",".join(k for k in exp if views[k] != exp[k]), case, observed=views, expected=exp):
        return
    if w:
        ctx.check("field.views", f.hex_str == _hex_str(v, w), "hex_str", f"w={w}", case, observed=f.hex_str, expected=_hex_str(v, w))
        ok, g = attempt(U.UnsignedByteField.from_bytes, bytes(f.as_bytes))
        ctx.check("field.roundtrip", ok and g == f and f == g and hash(g) == hash(f) and bytes(g.as_bytes) == want, "from_bytes_of_as_bytes", f"w={w}", case, observed=repr(g))
        ok, g = attempt(U.ByteFieldGenerator.from_bytes, w, bytes(f.as_bytes))
        ctx.check("field.roundtrip", ok and g == f and int(g) == v and len(g) == w, "generator_from_bytes", f"w={w}", case, observed=repr(g))
        ok, g = attempt(U.ByteFieldGenerator.from_int, w, v)
        ctx.check("field.roundtrip", ok and g == f and bytes(g.as_bytes) == want, "generator_from_int", f"w={w}", case, observed=repr(g))
    ctx.check("field.eq", (f == want) is True, "eq_with_own_octets", f"w={w}", case)


def k_pair(ctx, w1, v1, w2, v2):
    U = _imp()
    case = {"k": "pair", "w1": w1, "v1": v1, "w2": w2, "v2": v2}
    same = (w1, v1) == (w2, v2)
    ctx.case("pair/" + ("same" if same else "same_value_other_width" if v1 == v2 else "same_width_other_value" if w1 == w2 else "different"), (w1, v1, w2, v2), sample=case)
    a, b = U.UnsignedByteField(v1, w1), U.UnsignedByteField(v2, w2)
    ctx.check("field.eq", (a == b) == same and (b == a) == same, "eq_not_exactly_value_and_width",
              "same" if same else "same_value_other_width" if v1 == v2 else "other", case)
    if same:
        ctx.check("field.hash", hash(a) == hash(b) and len({a, b}) == 1, "equal_but_hash_differs", "", case)
    else:
        d = {a: 1, b: 2}
        ctx.check("field.hash", len(d) == 2 and d[a] == 1 and d[b] == 2, "dict_conflates_different_fields", "", case)


def k_refuse(ctx, what, w, v):
    U = _imp()
    case = {"k": "refuse", "what": what, "w": w, "v": v if not isinstance(v, bytes) else v.hex()}
    ctx.case(f"refuse/{what}", (what, w, v), sample=case)
    fn = {"ctor": lambda: U.UnsignedByteField(v, w), "assign_int": lambda: setattr(U.UnsignedByteField(0, w), "value", v),
          "gen_int": lambda: U.ByteFieldGenerator.from_int(w, v), "width": lambda: U.UnsignedByteField(0, w),
          "gen_width": lambda: U.ByteFieldGenerator.from_int(w, 0), "gen_bytes_width": lambda: U.ByteFieldGenerator.from_bytes(w, bytes(8)),
          "short_from_bytes": lambda: U.UnsignedByteField.from_bytes(v), "short_gen_bytes": lambda: U.ByteFieldGenerator.from_bytes(w, v),
          "short_assign_bytes": lambda: setattr(U.UnsignedByteField(0, w), "value", v),
          "short_subclass": lambda: {1: U.ByteFieldU8.from_u8_bytes, 2: U.ByteFieldU16.from_u16_bytes, 4: U.ByteFieldU32.from_u32_bytes, 8: U.ByteFieldU64.from_u64_bytes}[w](v)}[what]
    ok, res = attempt(fn)
    ctx.ev("field.refusal")
    if ok:
        ctx.fail("field.refusal", "accepted", f"{what}/w={w}", case, observed=repr(res))
    elif not isinstance(res, ValueError):
        ctx.fail("field.refusal", "wrong_error", f"{what}/w={w}/{type(res).__name__}", case, error=repr(res))


def k_conv(ctx, n, v, signed):
    U = _imp()
    case = {"k": "conv", "n": n, "v": v, "signed": signed}
    ctx.case(f"conv/{'signed' if signed else 'unsigned'}/n={n}", (n, v, signed), sample=case)
    fn = U.IntByteConversion.to_signed if signed else U.IntByteConversion.to_unsigned
    ok, res = attempt(fn, n, v)
    lo, hi = (-(1 << (8 * n - 1)), (1 << (8 * n - 1)) - 1) if signed and n else (0, (1 << (8 * n)) - 1)
    in_range = lo <= v <= hi
    ctx.ev("conv")
    if ok:
        if not in_range and n:
            return ctx.fail("conv", "out_of_range_value_encoded", f"{'signed' if signed else 'unsigned'}/n={n}", case, observed=bytes(res))
        want = v.to_bytes(n, "big", signed=signed) if n else b""
        if bytes(res) != want:
            return ctx.fail("conv", "octets_differ_from_twos_complement_big_endian", f"{'signed' if signed else 'unsigned'}/n={n}", case, observed=bytes(res), expected=want)
        ctx.table("conv_accepted", f"{'s' if signed else 'u'}{n}")
    else:
        ctx.table("conv_refused", f"{'s' if signed else 'u'}{n}:{'in_range' if in_range else 'out_of_range'}:{type(res).__name__}")
        if in_range:
            ctx.note(f"to_{'signed' if signed else 'unsigned'}({n}, {'min' if v == lo else v}) refused with {type(res).__name__}")
        elif not isinstance(res, (ValueError,)):
            ctx.note(f"to_{'signed' if signed else 'unsigned'} out-of-range refusal class {type(res).__name__}")


def k_assign_history(ctx, w, seed):
    """One field object used like a program would: hashed / used as dict key, reassigned by int or by octets, compared and hashed
    again.  After every step all views, equality and hash must be those of a fresh field with the current (value, width)."""
    import random
    U = _imp()
    r = random.Random(f"assign/{w}/{seed}")
    case = {"k": "assign_history", "w": w, "seed": seed}
    ctx.case(f"assign_history/w={w}", (w, seed), sample=case)
    v = rand_uint(r, 8 * w)
    f = U.UnsignedByteField(v, w)
    ops = []
    for step in range(hist_len(r, 2, 8)):
        op = r.choice(("hash", "dict", "assign_int", "assign_bytes", "assign_bytearray_long", "assign_bytearray_exact", "refused_int", "refused_bytes", "eq", "rewidth_then_assign"))
        ops.append(op)
        if op == "rewidth_then_assign":
            # the width changed through its public setter, then a value assigned that only the new width can hold (after the
            # assignment the field is a field of the new width in every view)
            w2 = r.choice([x for x in (1, 2, 4, 8) if x != w] or [w])
            ok, e = attempt(setattr, f, "byte_len", w2)
            if not ok:
                continue
            w = w2
            v = r.choice(((1 << 8 * w) - 1, 1 << (8 * w - 1), rand_uint(r, 8 * w)))
            ok, e = attempt(setattr, f, "value", v if r.random() < 0.5 else v.to_bytes(w, "big"))
            if not ctx.check("field.assign_history", ok, "assignment_after_width_change_refused", f"w={w}", dict(case, ops=ops), error=repr(e), value=v):
                return
        elif op == "hash":
            hash(f)
        elif op == "dict":
            _ = {f: 1}[f]
        elif op == "assign_int":
            v = rand_uint(r, 8 * w)
            f.value = v
        elif op == "assign_bytes":
            v = rand_uint(r, 8 * w)
            f.value = v.to_bytes(w, "big")
        elif op in ("assign_bytearray_long", "assign_bytearray_exact"):
            v = rand_uint(r, 8 * w)
            buf = bytearray(v.to_bytes(w, "big") + (r.randbytes(r.randrange(1, 4)) if op == "assign_bytearray_long" else b""))
            f.value = buf
            for i_ in range(len(buf)):          # the caller's (receive) buffer is re-used afterwards
                buf[i_] ^= 0xFF
        elif op == "refused_int":
            bad = r.choice((-1, 1 << 8 * w, (1 << 8 * w) + r.getrandbits(8 * w + 3), -(1 << 8 * w), (1 << 8 * w + 4) - 1, 1 << 8 * w + 8))
            ok, e = attempt(setattr, f, "value", bad)
            if not ctx.check("field.assign_history", (not ok) and isinstance(e, ValueError), "out_of_range_assignment_not_refused", f"w={w}", dict(case, ops=ops), observed=repr(e), value=bad):
                return
        elif op == "refused_bytes":
            if w == 0:
                continue
            ok, e = attempt(setattr, f, "value", r.randbytes(r.randrange(0, w)))
            if not ctx.check("field.assign_history", (not ok) and isinstance(e, ValueError), "short_octet_assignment_not_refused", f"w={w}", dict(case, ops=ops), observed=repr(e)):
                return
        fresh = U.UnsignedByteField(v, w)
        views = (bytes(f.as_bytes), int(f), len(f), f.value, f.hex_str)
        exp = (v.to_bytes(w, "big"), v, w, v, _hex_str(v, w))
        if not ctx.check("field.assign_history", views == exp, "views_differ_after_assignment", f"w={w}/{op}", dict(case, ops=ops), observed=repr(views), expected=repr(exp)):
            return
        if not ctx.check("field.assign_history", f == fresh and fresh == f and hash(f) == hash(fresh) and ({fresh: 1}.get(f) == 1), "eq_or_hash_differs_from_fresh_field",
                         f"w={w}/after:{'+'.join(sorted(set(o for o in ops if o.startswith('assign')))) or 'none'}", dict(case, ops=ops)):
            return


def k_field_set(ctx, w, seed, n=1500):
    """Many fields of one width as dictionary keys / compared pairwise with structured neighbours: values that differ by a
    multiple of 2^61-1 (CPython's integer hash modulus), by 2^32, 2^31-1, in one bit, octets reversed - equality and dictionary
    identity depend on exactly (value, width)."""
    import random
    U = _imp()
    r = random.Random(f"fieldset/{w}/{seed}")
    case = {"k": "field_set", "w": w, "seed": seed, "n": n}
    ctx.case(f"field_set/w={w}", (w, seed), sample=case)
    m = (1 << 8 * w) - 1
    vals = set()
    while len(vals) < min(n, m + 1):
        v = rand_uint(r, 8 * w)
        fam = [v, v ^ 1, v ^ (1 << (8 * w - 1)), int.from_bytes(v.to_bytes(w, "big")[::-1], "big"), v + (2 ** 61 - 1), v - (2 ** 61 - 1), v + 2 * (2 ** 61 - 1), v + 2 ** 32, v + 2 ** 31 - 1,
               v + 2 ** 61, v % (2 ** 61 - 1), m - v, (v * 31) & m]
        vals.update(x for x in fam if 0 <= x <= m)
    vals = sorted(vals)
    objs = [U.UnsignedByteField(v, w) if i % 2 else U.ByteFieldGenerator.from_int(w, v) for i, v in enumerate(vals)]
    d = {}
    for o, v in zip(objs, vals):
        d[o] = v
    if not ctx.check("field.eq", len(d) == len(vals), "dict_conflates_different_values", f"w={w}", case, distinct_values=len(vals), dict_size=len(d)):
        return
    for v in r.sample(vals, min(200, len(vals))):
        for delta in (2 ** 61 - 1, 2 ** 32, 1):
            u = v + delta
            if u <= m:
                ok, e = attempt(lambda: U.UnsignedByteField(v, w) == U.UnsignedByteField(u, w))
                if not ctx.check("field.eq", ok and e is False, "different_values_compare_equal", f"w={w}/delta={'2^61-1' if delta == 2 ** 61 - 1 else delta}", case, a=v, b=u):
                    return
    ctx.check("field.eq", all(d.get(U.UnsignedByteField.from_bytes(v.to_bytes(w, "big"))) == v for v in r.sample(vals, min(200, len(vals)))) if w else True, "dict_lookup_fails", f"w={w}", case)


def k_fresh_results(ctx, w, v):
    """Factories hand out fresh objects: changing a field obtained from a generator / from_bytes call does not change what the
    same call returns next time."""
    U = _imp()
    case = {"k": "fresh_results", "w": w, "v": v}
    ctx.case(f"fresh_results/w={w}", (w, v), sample=case)
    for name, mk in (("ByteFieldGenerator.from_int", lambda: U.ByteFieldGenerator.from_int(w, v)), ("ByteFieldGenerator.from_bytes", lambda: U.ByteFieldGenerator.from_bytes(w, v.to_bytes(w, "big"))),
                     ("UnsignedByteField.from_bytes", lambda: U.UnsignedByteField.from_bytes(v.to_bytes(w, "big")))):
        a = mk()
        other = (v ^ 1) if w else 0
        attempt(setattr, a, "value", other)
        b = mk()
        ctx.check("field.fresh_results", b is not a and int(b) == v and bytes(b.as_bytes) == v.to_bytes(w, "big") and len(b) == w, "factory_returned_a_shared_object", name.split(".")[1], case,
                  observed=[int(b), bytes(b.as_bytes).hex()], expected=v)
        attempt(setattr, a, "value", v.to_bytes(w, "big") if w else 0)


def k_conversion_order(ctx, w, signed_first):
    """The two conversion helpers and the field classes in either order of first use: each keeps its own range (signed:
    |v| <= 2^(8w-1)-1, unsigned: 0 <= v <= 2^(8w)-1) whatever ran first in the process for that width."""
    U = _imp()
    case = {"k": "conversion_order", "w": w, "signed_first": signed_first}
    ctx.case(f"conversion_order/w={w}", (w, signed_first), sample=case)
    top_s, top_u = (1 << (8 * w - 1)) - 1, (1 << 8 * w) - 1
    steps = [("signed", lambda: bytes(U.IntByteConversion.to_signed(w, -top_s)) == (-top_s).to_bytes(w, "big", signed=True)),
             ("unsigned", lambda: bytes(U.IntByteConversion.to_unsigned(w, top_u)) == top_u.to_bytes(w, "big")),
             ("field", lambda: bytes(U.UnsignedByteField(top_u, w).as_bytes) == top_u.to_bytes(w, "big") and int(U.ByteFieldGenerator.from_int(w, top_s + 1)) == top_s + 1)]
    if not signed_first:
        steps = steps[1:] + steps[:1]
    for name, fn in steps + steps:
        ok, res = attempt(fn)
        ctx.check("conv", ok and res is True, "range_depends_on_what_ran_first", f"w={w}/{name}", case, observed=repr(res))
    for name, fn, exc in (("signed_too_large", lambda: U.IntByteConversion.to_signed(w, top_s + 1), ValueError), ("unsigned_too_large", lambda: U.IntByteConversion.to_unsigned(w, top_u + 1), ValueError)):
        ok, res = attempt(fn)
        ctx.check("conv", (not ok) and isinstance(res, exc), "out_of_range_not_refused_with_ValueError", f"w={w}/{name}", case, observed=repr(res))


def k_handed_over(ctx, w1, v1, w2, v2, seed):
    """Field objects handed to the components that take them (PDU configuration / header, transaction id, reserved messages)
    remain the caller's objects: whatever those components do or refuse, each field still shows its own (value, width) in every view."""
    import random
    U = _imp()
    from spacepackets.cfdp.conf import PduConfig
    from spacepackets.cfdp.defs import TransactionId, CrcFlag, LargeFileFlag, TransmissionMode, PduType, SegmentMetadataFlag
    from spacepackets.cfdp.pdu.header import PduHeader
    from spacepackets.cfdp.tlv import OriginatingTransactionId, EntityIdTlv
    r = random.Random(seed)
    case = {"k": "handed_over", "w1": w1, "v1": v1, "w2": w2, "v2": v2, "seed": seed}
    ctx.case("handed_over/" + ("same_width" if w1 == w2 else "different_widths"), (w1, v1, w2, v2, seed), sample=case)
    a, b, c = U.ByteFieldGenerator.from_int(w1, v1), U.ByteFieldGenerator.from_int(w2, v2), U.ByteFieldGenerator.from_int(w1, v1 ^ 1 if w1 else 0)
    uses = []

    def use(name, fn):
        ok, res = attempt(fn)
        uses.append(name + ("" if ok else f":{type(res).__name__}"))
        return res if ok else None

    conf = use("PduConfig", lambda: PduConfig(source_entity_id=a, dest_entity_id=c, transaction_seq_num=b, trans_mode=TransmissionMode.ACKNOWLEDGED,
                                              file_flag=LargeFileFlag.NORMAL, crc_flag=CrcFlag.NO_CRC))
    if conf is not None:
        h = use("PduHeader", lambda: PduHeader(PduType.FILE_DATA, SegmentMetadataFlag.NOT_PRESENT, 5, conf))
        if h is not None:
            use("PduHeader.pack", h.pack)
            use("set_entity_ids(a,b)", lambda: h.set_entity_ids(a, b))          # refused when the widths differ
            use("set_entity_ids(b,a)", lambda: h.set_entity_ids(b, a))
            use("transaction_seq_num=a", lambda: setattr(h, "transaction_seq_num", a))
            use("PduHeader.pack", h.pack)
    tid = use("TransactionId", lambda: TransactionId(a, b))
    if tid is not None:
        use("OriginatingTransactionId.pack", lambda: OriginatingTransactionId(tid).pack())
        use("hash(TransactionId)", lambda: hash(tid))
    use("EntityIdTlv", lambda: EntityIdTlv(a.as_bytes).pack())
    for name, f, w, v in (("first", a, w1, v1), ("second", b, w2, v2)):
        views = (bytes(f.as_bytes), int(f), len(f), f.byte_len, f.value, f.hex_str)
        exp = (v.to_bytes(w, "big"), v, w, w, v, _hex_str(v, w))
        fresh = U.UnsignedByteField(v, w)
        ok = ctx.check("field.handed_over", views == exp, "views_changed_after_the_field_was_handed_to_another_component", "same_width" if w1 == w2 else "different_widths",
                       dict(case, which=name), uses=uses, observed=repr(views), expected=repr(exp))
        if ok and w:
            ctx.check("field.handed_over", f == fresh and hash(f) == hash(fresh) and U.UnsignedByteField.from_bytes(bytes(f.as_bytes)) == f, "no_longer_equal_to_a_fresh_field",
                      "same_width" if w1 == w2 else "different_widths", dict(case, which=name), uses=uses)


KINDS = {"conversion_order": k_conversion_order, "field_set": k_field_set, "fresh_results": k_fresh_results, "handed_over": k_handed_over, "field": k_field, "pair": k_pair, "refuse": k_refuse, "conv": k_conv, "assign_history": k_assign_history}
ROUTES = ("ctor", "gen_int", "gen_bytes", "from_bytes", "subclass", "assign_int", "assign_bytes")


def run(ctx):
    for w in (8, 4, 2, 1):
        k_conversion_order(ctx, w, w in (8, 2))
    r = ctx.rng
    U = _imp()
    # width 0
    for route in ("ctor", "subclass", "assign_int"):
        k_field(ctx, 0, 0, route)
    # widths 1 and 2 exhaustively (all routes for w=1; rotated routes for w=2)
    for v in range(256):
        for route in ROUTES:
            k_field(ctx, 1, v, route)
    for v in range(65536):
        if ctx.mine(v):
            k_field(ctx, 2, v, ROUTES[v % 7])
            if v % 5 == 0:
                k_field(ctx, 2, v, ROUTES[(v + 3) % 7])
    ctx.exhaustive.append("all (width, value) pairs for widths 0, 1 and 2")
    for w in (4, 8):
        for v in pool_uint(8 * w):
            for route in ROUTES:
                k_field(ctx, w, v, route)
        for _ in range(ctx.n(15_000, 3_000_000)):
            k_field(ctx, w, rand_uint(r, 8 * w), r.choice(ROUTES))
    # equality / hash laws
    for _ in range(ctx.n(4000, 400_000)):
        w1 = r.choice((0,) + WIDTHS)
        v1 = rand_uint(r, 8 * w1) if w1 else 0
        c = r.random()
        if c < 0.3:
            w2, v2 = w1, v1
        elif c < 0.6:
            w2 = r.choice([w for w in WIDTHS if w != w1] or [1])
            v2 = v1 if v1 < (1 << 8 * w2) else rand_uint(r, 8 * w2)
        elif c < 0.8 and w1:
            w2, v2 = w1, v1 ^ (1 << r.randrange(8 * w1))
        else:
            w2 = r.choice(WIDTHS)
            v2 = rand_uint(r, 8 * w2)
        k_pair(ctx, w1, v1, w2, v2)
    for v in range(256):
        k_pair(ctx, 1, v, 2, v)
        k_pair(ctx, 1, v, 1, v)
    for j in range(ctx.n(3000, 300_000)):
        k_assign_history(ctx, r.choice(WIDTHS), ctx.seed * 1_000_003 + ctx.shard[0] * 100_003 + j)
    # refusals
    for w in WIDTHS:
        for v in (-1, -2 ** 31, 1 << (8 * w), (1 << (8 * w)) + 1, 2 ** 70):
            for what in ("ctor", "assign_int", "gen_int"):
                k_refuse(ctx, what, w, v)
        for n in range(w):
            for what in ("short_gen_bytes", "short_assign_bytes", "short_subclass"):
                k_refuse(ctx, what, w, bytes(n))
    for w in (3, 5, 6, 7, 9, 16, -1):
        k_refuse(ctx, "width", w, 0)
        k_refuse(ctx, "gen_width", w, 0)
        k_refuse(ctx, "gen_bytes_width", w, 0)
    # the empty width through the width-dispatching generator: refused, or an empty field - never a field of another width
    for name, fn in (("from_int", lambda: U.ByteFieldGenerator.from_int(0, 0)), ("from_bytes", lambda: U.ByteFieldGenerator.from_bytes(0, bytes(8))),
                     ("from_int_nonzero", lambda: U.ByteFieldGenerator.from_int(0, 5))):
        ok, res = attempt(fn)
        ctx.check("field.refusal", (isinstance(res, ValueError) and not ok) or (ok and len(res) == 0 and bytes(res.as_bytes) == b"" and name != "from_int_nonzero"),
                  "generator_returned_a_field_of_another_width", f"w=0/{name}", {"k": "note"}, observed=repr(res))
    for n in (3, 5, 6, 7, 9):
        k_refuse(ctx, "short_from_bytes", 0, bytes(n))
    ok, res = attempt(U.UnsignedByteField.from_bytes, b"")
    ctx.note("UnsignedByteField.from_bytes(b'') -> " + (repr(res) if ok else type(res).__name__))
    # conversion helpers: exhaustive for 1 and 2 octets, incl. the values just outside
    for v in range(-300, 400):
        k_conv(ctx, 1, v, True)
        k_conv(ctx, 1, v, False)
    for v in range(-33000, 66000):
        if ctx.mine(v):
            k_conv(ctx, 2, v, True)
            k_conv(ctx, 2, v, False)
    ctx.exhaustive.append("IntByteConversion.to_unsigned / to_signed for every 1- and 2-octet value and the values just outside")
    for n in (0, 4, 8):
        bits = 8 * n
        for v in ([0, 1] if n == 0 else pool_uint(bits) + [-(1 << (bits - 1)), -(1 << (bits - 1)) + 1, -1, -2, (1 << (bits - 1)) - 1, 1 << (bits - 1), 1 << bits]):
            k_conv(ctx, n, v, True)
            k_conv(ctx, n, v, False)
        for _ in range(ctx.n(3000, 300_000) if n else 0):
            v = rand_uint(r, bits)
            k_conv(ctx, n, v, False)
            k_conv(ctx, n, v - (1 << (bits - 1)), True)
    for w in (1, 2, 4, 8):
        for j in range(ctx.n(2, 60)):
            k_field_set(ctx, w, ctx.seed * 1_000_003 + ctx.shard[0] * 100_003 + j)
        for v in [0, 1, 2, 7, 17, 42, 127, 128, 200, 254, 255] + ([256, 257, 65535] if w >= 2 else []) + [rand_uint(r, 8 * w) for _ in range(20)]:
            k_fresh_results(ctx, w, v)
    j = 0
    for w1 in (1, 2, 4, 8):
        for w2 in (1, 2, 4, 8):
            for _ in range(ctx.n(12, 1200)):
                j += 1
                k_handed_over(ctx, w1, rand_uint(r, 8 * w1), w2, rand_uint(r, 8 * w2), ctx.seed * 1_000_003 + ctx.shard[0] * 100_003 + j)
    for n in (3, 5, 9, -1):
        for signed in (True, False):
            ok, res = attempt(U.IntByteConversion.to_signed if signed else U.IntByteConversion.to_unsigned, n, 1)
            ctx.check("conv", (not ok) and isinstance(res, ValueError), "unsupported_width_accepted", f"n={n}", {"n": n, "signed": signed}, observed=repr(res))


def conclude(ctx):
    ctx.require(ctx.classes.get("handed_over/different_widths", 0) > 0 and ctx.classes.get("handed_over/same_width", 0) > 0, "handed-over field classes empty")
    for w in (0, 1, 2, 4, 8):
        ctx.require(any(k.startswith(f"field/w={w}/") for k in ctx.classes), f"width {w} not exercised")
    for route in ROUTES:
        ctx.require(ctx.classes.get(f"field/w=8/{route}", 0) > 0, f"route {route} not exercised for width 8")
    for c in ("pair/same", "pair/same_value_other_width", "pair/same_width_other_value"):
        ctx.require(ctx.classes.get(c, 0) > 0, f"class {c} empty")
    for k in ("s1", "u1", "s2", "u2", "s4", "u4", "s8", "u8"):
        ctx.require(ctx.tables.get("conv_accepted", {}).get(k, 0) > 0, f"conversion {k} never accepted a value")
    for m in ("field.views", "field.roundtrip", "field.eq", "field.hash", "field.refusal", "field.assign_history", "conv"):
        ctx.require(ctx.monitors.get(m, {}).get("evaluations", 0) > 0, f"monitor {m} never evaluated")
