"""C12 - the PDU factory returns the right PDU kind; raw inspectors and holder accessors agree."""
from __future__ import annotations

import json

from spverif.core.util import attempt, exc_sig, hist_len
from spverif.ref import cfdp as R
from . import _cfdp as C
from . import _views as V

SCRIBBLE = True
THOROUGH_SCALE = 12
ID = "C12"
LEVEL = "exploration"
SHARDS = {"quick": 1, "thorough": 8}
RULE = ("cases = (PDU kind, header configuration, parameter set) for all 8 kinds x all 128 header configurations (the directive "
        "octet's position depends on the id / sequence widths) and the full 8 x 8 (held kind, requested kind) accessor matrix; "
        "non-trivial = configuration differs from the default 1-octet-id configuration used by tests/cfdp/pdus/test_factory.py; "
        "distinct = distinct (kind, configuration, parameters)")
TRUSTED = ["CPython 3.12", "spverif.ref.cfdp.decode_header for the raw inspectors"]
ASSUMPTIONS = ["the packed octets come from the reference encoder (C06/C07 establish that the library packs the same octets)"]

ISO = C.Isolation()
ACCESSOR = {"eof": "to_eof_pdu", "finished": "to_finished_pdu", "ack": "to_ack_pdu", "metadata": "to_metadata_pdu", "nak": "to_nak_pdu",
            "prompt": "to_prompt_pdu", "keep_alive": "to_keep_alive_pdu", "file_data": "to_file_data_pdu"}


def k_factory(ctx, kind, cfg, p):
    X = C.lib()
    case = {"k": "factory", "kind": kind, "cfg": cfg, "p": p}
    default = cfg["idw"] == 1 and cfg["seqw"] == 1 and not cfg["crc"] and not cfg["large"]
    ctx.case(f"factory/{kind}", (kind, json.dumps(cfg, sort_keys=True), json.dumps(p, sort_keys=True)), nontrivial=not default,
             sample=case if len(json.dumps(case)) < 900 else None)
    ctx.table("kind_x_config", f"{kind}/{cfg['crc']}{cfg['large']}{cfg['mode']}/{cfg['idw']}/{cfg['seqw']}")
    raw = C.ref_octets(kind, cfg, p)
    ok, orig = attempt(C.build, kind, cfg, p)
    if not ctx.check("factory.build", ok and bytes(orig.pack()) == raw, "library_packs_differently", kind, case):
        return
    feat = f"{kind}/idw={cfg['idw']}/seqw={cfg['seqw']}"
    # raw inspectors
    h = R.decode_header(raw)
    ok, t = attempt(X.PduFactory.pdu_type, raw)
    ctx.check("inspect.pdu_type", ok and int(t) == h["pdu_type"], "value", feat, case, observed=repr(t))
    ok, isd = attempt(X.PduFactory.is_file_directive, raw)
    ctx.check("inspect.is_file_directive", ok and isd is (h["pdu_type"] == 0), "value", feat, case, observed=repr(isd))
    ok, dt = attempt(X.PduFactory.pdu_directive_type, raw)
    want_dt = None if kind == "file_data" else raw[h["header_len"]]
    ctx.check("inspect.pdu_directive_type", ok and ((dt is None) if want_dt is None else (dt is not None and int(dt) == want_dt)), "value", feat, case,
              observed=repr(dt), expected=want_dt)
    ctx.check("inspect.header_len_from_raw", X.PduHeader.header_len_from_raw(raw) == h["header_len"], "value", feat, case)
    # the same inspector reached through the PDU classes and through instances (it is inherited by all of them)
    for how, fn in (("class", lambda: X.CLS[kind].header_len_from_raw(raw)), ("instance", lambda: orig.header_len_from_raw(raw)), ("prefix", lambda: X.PduHeader.header_len_from_raw(raw[:4]))):
        ok, v = attempt(fn)
        ctx.check("inspect.header_len_from_raw", ok and v == h["header_len"], "value_through_" + how, feat, case, observed=repr(v), expected=h["header_len"])
    # inspectors on a peeked prefix: everything they need is the fixed part of the header (+ the directive octet)
    hl_ = h["header_len"]
    for n in (hl_ + 1, hl_ + 2, 4, 1):
        pre = raw[:n]
        ok, t2 = attempt(X.PduFactory.pdu_type, pre)
        ctx.check("inspect.pdu_type", ok and int(t2) == h["pdu_type"], "value_on_prefix", f"{kind}/n={'hl+' + str(n - hl_) if n > hl_ else n}", case, observed=repr(t2))
        if n > hl_:
            ok, dt2 = attempt(X.PduFactory.pdu_directive_type, pre)
            ctx.check("inspect.pdu_directive_type", ok and ((dt2 is None) if want_dt is None else (dt2 is not None and int(dt2) == want_dt)), "value_on_prefix", f"{feat}/n=hl+{n - hl_}", case,
                      observed=repr(dt2), expected=want_dt)
    if kind != "file_data":
        ok, dt3 = attempt(X.PduFactory.pdu_directive_type, raw[:hl_])
        ctx.check("inspect.pdu_directive_type", not ok and isinstance(dt3, ValueError), "prefix_without_directive_octet_not_refused", feat, case, observed=repr(dt3))
    # generic decode
    ok, pdu = attempt(X.PduFactory.from_raw, raw)
    if not ctx.check("factory.from_raw", ok and pdu is not None, "raised_or_none", f"{feat}/" + (exc_sig(pdu) if not ok else "None"), case, error=repr(pdu)):
        return
    ctx.check("factory.from_raw", type(pdu) is X.CLS[kind], "wrong_kind", feat, case, observed=type(pdu).__name__)
    ok1, e = attempt(lambda: (pdu == orig) and (orig == pdu))
    ctx.check("factory.from_raw", ok1 and e is True, "not_equal_to_original", feat, case, observed=repr(e))
    ok2, rp = attempt(pdu.pack)
    ctx.check("factory.from_raw", ok2 and bytes(rp) == raw, "repack_differs", feat, case)
    got = C.norm_params(kind, C.get_params(kind, pdu))
    ctx.check("factory.from_raw", got == C.norm_params(kind, p), "params_differ", f"{feat}/{C.diff_keys(got, C.norm_params(kind, p))}", case, observed=got)
    V.pdu_views(ctx, "factory.from_raw", pdu, raw, dict(h, dst_w=cfg["idw"]), case, f"{type(pdu).__name__}/from_raw")
    ISO.remember(pdu, raw, kind, view=lambda pdu=pdu: (C.get_params(kind, pdu), C.hdr_fields(pdu.pdu_header), pdu.packet_len))
    ISO.recheck(ctx, "factory.decoded_objects_independent", case)
    # hostile caller: a scratch decode of the same octets is overwritten (ids, sequence number, flags - the object is the caller's),
    # then the octets are decoded once more: the result is what the octets say, not what was done to an object handed out before
    ok, scratch = attempt(X.PduFactory.from_raw, raw)
    if ok and scratch is not None:
        def scribble():
            h_ = scratch.pdu_header
            for f_ in (h_.source_entity_id, h_.dest_entity_id, h_.transaction_seq_num):
                if f_.byte_len:
                    f_.value = f_.value ^ 1
            h_.pdu_conf.crc_flag = X.defs.CrcFlag(1 - int(h_.pdu_conf.crc_flag))
            h_.pdu_conf.trans_mode = X.defs.TransmissionMode(1 - int(h_.pdu_conf.trans_mode))
        attempt(scribble)
        ok, again = attempt(X.PduFactory.from_raw, raw)
        ctx.check("factory.from_raw", ok and again is not None and again is not scratch and bytes(again.pack()) == raw and C.hdr_fields(again.pdu_header) == dict(h, dst_w=cfg["idw"]),
                  "decode_after_a_handed_out_object_was_overwritten", feat, case, observed=repr(again)[:200])
    # holder
    ok, holder = attempt(X.PduFactory.from_raw_to_holder, raw)
    if not ctx.check("holder", ok, "from_raw_to_holder_raised", feat, case, error=repr(holder)):
        return
    _holder_views(ctx, holder, kind, h["pdu_type"], raw, case, "fresh")


def _holder_views(ctx, holder, kind, pdu_type, raw, case, how):
    """Type views and the full accessor row of a holder that currently holds a PDU of `kind` packed as `raw`."""
    ctx.check("holder", holder.packet_len == len(raw) and bytes(holder.pack()) == raw, "packet_len_or_pack", f"{kind}/{how}", case)
    ctx.check("holder", int(holder.pdu_type) == pdu_type and holder.is_file_directive is (kind != "file_data")
              and ((holder.pdu_directive_type is None) if kind == "file_data" else (holder.pdu_directive_type is not None and int(holder.pdu_directive_type) == C.DIRECTIVE_CODE[kind])),
              "type_views", f"{kind}/{how}", case)
    for req, acc in ACCESSOR.items():
        ok, res = attempt(getattr(holder, acc))
        ctx.ev("holder.accessor_matrix")
        ctx.table("accessor_matrix" if how == "fresh" else "accessor_matrix_reused_holder", f"{kind}->{req}")
        if req == kind:
            if not ok:
                ctx.fail("holder.accessor_matrix", "matching_kind_refused", f"{kind}->{req}/{how}", case, error=repr(res))
            elif res is not holder.pdu:
                ctx.fail("holder.accessor_matrix", "not_the_held_object", f"{kind}->{req}/{how}", case)
        else:
            if ok:
                ctx.fail("holder.accessor_matrix", "foreign_kind_accepted", f"{kind}->{req}/{how}", case, observed=type(res).__name__)
            elif not isinstance(res, TypeError):
                ctx.fail("holder.accessor_matrix", "wrong_error", f"{kind}->{req}/{how}/{type(res).__name__}", case, error=repr(res))


def k_holder_reuse(ctx, seed):
    """One holder object that is handed a sequence of PDUs of different kinds (as a receive loop would do)."""
    import random
    X = C.lib()
    r = random.Random(f"holder/{seed}")
    case = {"k": "holder_reuse", "seed": seed}
    ctx.case("holder_reuse", seed, sample=case)
    holder = X.PduHolder(None)
    prev = None
    for step in range(hist_len(r, 2, 7)):
        kind = r.choice(C.KINDS8)
        cfg = C.rand_cfg(r, segctrl=(kind == "file_data"))
        p = C.rand_params(r, kind, cfg, rich=False)
        raw = C.ref_octets(kind, cfg, p)
        obj = C.build(kind, cfg, p) if r.random() < 0.5 else X.PduFactory.from_raw(raw)
        if r.random() < 0.5:
            holder.pdu = obj
        else:
            holder.base = obj
        ctx.table("holder_reuse_transitions", f"{prev}->{kind}")
        prev = kind
        _holder_views(ctx, holder, kind, 1 if kind == "file_data" else 0, raw, dict(case, step=step, kind=kind), "reused")

def k_holder_before_factory(ctx, seed):
    """A holder around a locally built PDU answers its typed accessor first; afterwards the factory still decodes every kind.
    (In the main run the factory has long been used; the cold-start stage runs this case first in a fresh interpreter.)"""
    import random
    X = C.lib()
    r = random.Random(f"hbf/{seed}")
    case = {"k": "holder_before_factory", "seed": seed}
    ctx.case("holder_before_factory", seed, sample=case)
    kind0 = r.choice(C.DIRECTIVE_KINDS)
    cfg0 = C.rand_cfg(r)
    obj = C.build(kind0, cfg0, C.rand_params(r, kind0, cfg0, rich=False))
    holder = X.PduHolder(obj)
    ok, res = attempt(getattr(holder, ACCESSOR[kind0]))
    ctx.check("holder.accessor_matrix", ok and res is obj, "matching_kind_refused", f"{kind0}->{kind0}/local_first", case, error=repr(res))
    for kind in C.KINDS8:
        cfg = C.rand_cfg(r, segctrl=(kind == "file_data"))
        p = C.rand_params(r, kind, cfg, rich=False)
        raw = C.ref_octets(kind, cfg, p)
        ok, pdu = attempt(X.PduFactory.from_raw, raw)
        ctx.check("factory.from_raw", ok and pdu is not None and type(pdu) is X.CLS[kind], "raised_or_none", f"{kind}/after_a_holder_accessor_was_used_first", dict(case, kind=kind),
                  observed=repr(pdu)[:120])


def k_empty_holder(ctx):
    X = C.lib()
    h = X.PduHolder(None)
    ctx.case("empty_holder", "e")
    ctx.check("holder", h.packet_len == 0, "empty_packet_len", "", {"k": "empty_holder"})
    for acc in ACCESSOR.values():
        ok, res = attempt(getattr(h, acc))
        ctx.check("holder.accessor_matrix", (not ok) and isinstance(res, TypeError), "empty_holder_cast", acc, {"k": "empty_holder"}, observed=repr(res))


KINDS = {"holder_before_factory": k_holder_before_factory, "factory": k_factory, "empty_holder": lambda ctx: k_empty_holder(ctx), "holder_reuse": k_holder_reuse}


def run(ctx):
    from spverif.ref import enums as _enums
    if ctx.shard[0] == 0:
        _enums.check(ctx, "code_tables", ['spacepackets.cfdp.pdu.file_directive', 'spacepackets.cfdp.defs.PduType'])
    from spverif.san import scribble
    scribble.install()
    r = ctx.rng
    i = 0
    reps = 2 if ctx.quick else 10
    if ctx.shard[0] == 0:
        _all_status_codes(ctx, r)
    for kind in C.KINDS8:
        for cfg in C.all_cfgs(r, segctrl=True):
            i += 1
            if not ctx.mine(i):
                continue
            for _ in range(reps):
                k_factory(ctx, kind, cfg, C.rand_params(r, kind, cfg))
    ctx.exhaustive.append("8 PDU kinds x all 128 header configurations; full 8 x 8 accessor matrix on every case")
    for _ in range(ctx.n(1000, 100_000)):
        kind = r.choice(C.KINDS8)
        cfg = C.rand_cfg(r, segctrl=(kind == "file_data"))
        k_factory(ctx, kind, cfg, C.rand_params(r, kind, cfg))
    # PDUs whose CRC trailer is exactly 0x0000 / 0xFFFF, and whose running CRC is 0x0000 / 0xFFFF at the end of the header
    for target in (0x0000, 0xFFFF):
        for kind in C.KINDS8:
            for where in ("whole", "header"):
                cfg = C.rand_cfg(r, crc=1, segctrl=(kind == "file_data"), seqw=r.choice((2, 4, 8)))
                got = C.craft_crc_boundary(kind, cfg, C.rand_params(r, kind, cfg, rich=False), where, target)
                if got is not None:
                    ctx.table("crc_register_at_boundary", f"{kind}/{where}/{target:04x}")
                    k_factory(ctx, kind, got[0], got[1])
    for j in range(ctx.n(600, 60_000)):
        k_holder_reuse(ctx, ctx.seed * 1_000_003 + ctx.shard[0] * 100_003 + j)
    for j in range(ctx.n(20, 2000)):
        k_holder_before_factory(ctx, ctx.seed * 1_000_003 + ctx.shard[0] * 100_003 + j)
    if ctx.shard[0] == 0:
        k_empty_holder(ctx)


def _all_status_codes(ctx, r):
    X = C.lib()
    from spverif.ref import enums as _enums
    std = sorted(v for v in _enums.TABLES["spacepackets.cfdp.tlv.defs.FilestoreResponseStatusCode"].values() if v >= 0)     # table 5-18 of the standard, not the library's own list
    for st in std:
        a = st >> 4
        for _ in (0,):
            cfg = C.rand_cfg(r)
            two = a in R.TWO_NAME_ACTIONS
            p = {"cond": 4, "delivery": 1, "status": 1, "fault_id": None,
                 "responses": [{"action": a, "status": st, "first": "f1", "second": "f2" if two else "", "msg": "aa"}]}
            ctx.table("filestore_status_through_factory", f"{a}/{st & 0xF}")
            k_factory(ctx, "finished", cfg, p)
            opt = [[0, R.fs_request_value(a, b"n1", b"n2" if two else b"").hex(), "generic"]]
            k_factory(ctx, "metadata", cfg, {"closure": 0, "cksum_type": 0, "size": 3, "src_name": "a", "dst_name": "b", "options": opt})


def conclude(ctx):
    ctx.require(ctx.extra.get("hostile_caller_scribbled_pack_results", 0) > 0, "hostile-caller sanitizer scribbled no pack() result")
    ctx.require(len(ctx.tables.get("kind_x_config", {})) >= 8 * 128, "kind x configuration table incomplete")
    ctx.require(len(ctx.tables.get("accessor_matrix", {})) == 64, "accessor matrix incomplete")
    ctx.require(len(ctx.tables.get("accessor_matrix_reused_holder", {})) == 64, "accessor matrix on a reused holder incomplete")
    ctx.require(len(ctx.tables.get("holder_reuse_transitions", {})) >= 64, "holder reuse: not every (previous kind, new kind) transition observed")
    for m in ("factory.from_raw", "factory.decoded_objects_independent", "inspect.pdu_type", "inspect.is_file_directive", "inspect.pdu_directive_type", "holder", "holder.accessor_matrix"):
        ctx.require(ctx.monitors.get(m, {}).get("evaluations", 0) > 0, f"monitor {m} never evaluated")
