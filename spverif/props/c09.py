"""C09 - decoders never read past the declared packet: suffix non-interference by differential execution."""
from __future__ import annotations

import json

from spverif.core.util import attempt, exc_sig, documented_errors, rand_uint, rand_bytes
from spverif.ref import cfdp as R
from spverif.ref import pus as P
from spverif.ref import ccsds as H
from spverif.ref import cds as T
from spverif.ref import uslp as U
from spverif.ref.crc import crc16
from . import _cfdp as C
from . import c08

SCRIBBLE = True
THOROUGH_SCALE = 16
ID = "C09"
LEVEL = "exploration"
SHARDS = {"quick": 1, "thorough": 16}
RULE = ("cases = (unit kind, packed unit, suffix) for 20 self-delimiting unit kinds and the 8 PDU kinds with CRC off/on; suffix "
        "classes: 1,2,7,8,15,16,17,64 random octets, all-zero, all-0xFF, another valid unit of the same / of a different kind, octets "
        "shaped like a TLV, an LV, 8- and 16-octet segment requests, file data, and a suffix that makes the CRC of the whole "
        "buffer valid; each decode of unit+suffix is compared (every field, reported length, re-packed octets) with the decode of "
        "the unit alone, and k units back to back are split purely by reported lengths; non-trivial = every (unit, non-empty "
        "suffix) pair; distinct = distinct (unit octets, suffix)")
TRUSTED = ["CPython 3.12", "spverif.ref.* for building units (shared with C02-C08)"]
ASSUMPTIONS = [
    "differential oracle: decode(u) is the reference for decode(u+s); absolute correctness of decode(u) is C01-C08/C14/C15/C17's job",
    "for complete CFDP PDUs a documented refusal of u+s is allowed (the property grants it); for all other units refusal of u+s is a violation",
]

SUFFIX_CLASSES = ("r1", "r2", "r7", "r8", "r15", "r16", "r17", "r64", "zeros", "ones", "same_unit", "other_unit", "tlv_like", "lv_like",
                  "seg8", "seg16", "file_data_like", "crc_of_whole", "constants",
                  "tlv_fs_request", "tlv_fs_response", "tlv_msg_to_user", "tlv_fault_handler", "tlv_flow_label", "tlv_entity_id")


def make_suffix(r, cls, unit: bytes, other: bytes) -> bytes:
    if cls[0] == "r":
        return r.randbytes(int(cls[1:]))
    if cls == "zeros":
        return bytes(r.choice((1, 4, 9)))
    if cls == "ones":
        return b"\xff" * r.choice((1, 4, 9))
    if cls == "same_unit":
        return unit
    if cls == "other_unit":
        return other
    if cls == "tlv_like":
        return R.tlv(r.choice(R.TLV_TYPES), r.randbytes(r.randrange(0, 6))) + R.tlv(6, b"\x01\x02")
    if cls == "lv_like":
        return R.lv(r.randbytes(r.randrange(0, 6))) + R.lv(b"name.txt")
    if cls == "seg8":
        return r.randbytes(8 * r.randrange(1, 4))
    if cls == "seg16":
        return r.randbytes(16 * r.randrange(1, 3))
    if cls == "file_data_like":
        return bytes(range(33, 33 + r.randrange(5, 40)))
    if cls.startswith("tlv_") and cls != "tlv_like":
        # a well-formed TLV of one particular type first (what an EOF / Finished / Metadata PDU would accept as its own next item)
        t = {"tlv_fs_request": 0, "tlv_fs_response": 1, "tlv_msg_to_user": 2, "tlv_fault_handler": 4, "tlv_flow_label": 5, "tlv_entity_id": 6}[cls]
        val = {0: R.fs_request_value(1, b"a.txt"), 1: R.fs_response_value(1, 0, b"a.txt", b"", b""), 2: b"hello", 4: bytes([0x41]), 5: b"lbl", 6: r.randbytes(r.choice((1, 2, 4, 8)))}[t]
        return R.tlv(t, val) + r.randbytes(r.choice((0, 0, 3)))
    if cls == "constants":
        from spverif.core.util import harvested_constants
        cs = harvested_constants()
        return b"".join(r.choice(cs) for _ in range(r.randrange(1, 4)))
    if cls == "crc_of_whole":
        body = r.randbytes(r.randrange(0, 5))
        return body + crc16(unit + body).to_bytes(2, "big")
    raise AssertionError(cls)


# ------------------------------------------------------------------- units
def _obs_sp_header(h):
    return {"f": [h.ccsds_version, int(h.packet_type), bool(h.sec_header_flag), h.apid, int(h.seq_flags), h.seq_count, h.data_len],
            "len": h.header_len, "pack": bytes(h.pack()).hex()}


def _obs_tc(t):
    return {"f": [t.apid, t.seq_count, t.service, t.subservice, t.source_id, t.pus_tc_sec_header.ack_flags, bytes(t.app_data).hex(),
                  bytes(t.crc16).hex()], "len": t.packet_len, "pack": bytes(t.pack()).hex()}


def _obs_tm(t):
    sh = t.pus_tm_sec_header
    return {"f": [t.apid, t.seq_count, t.service, t.subservice, sh.message_counter, sh.dest_id, sh.spacecraft_time_ref,
                  bytes(t.timestamp).hex(), bytes(t.tm_data).hex(), bytes(t.crc16).hex()], "len": t.packet_len, "pack": bytes(t.pack()).hex()}


def _obs_srv1(s):
    fn = s.failure_notice
    return {"f": [s.tc_req_id.as_u32(), None if s.step_id is None else [s.step_id.pfc, s.step_id.val],
                  None if fn is None else [fn.code.pfc, fn.code.val, bytes(fn.data).hex()], bytes(s.source_data).hex(), s.subservice],
            "len": s.pus_tm.packet_len, "pack": bytes(s.pack()).hex()}


def unit_registry():
    """name -> (builder(rng) -> (octets, decode fn, observe fn), is_pdu)"""
    X = C.lib()
    from spacepackets.ccsds.spacepacket import SpacePacketHeader
    from spacepackets.ccsds.time import CdsShortTimestamp
    from spacepackets.ecss.tc import PusTc
    from spacepackets.ecss.tm import PusTm
    from spacepackets.ecss.pus_17_test import Service17Tm
    from spacepackets.ecss.pus_1_verification import Service1Tm, UnpackParams
    from spacepackets.ecss.req_id import RequestId
    from spacepackets.uslp.header import PrimaryHeader, TruncatedPrimaryHeader
    reg = {}

    def sp_header(r):
        u = H.encode_header(r.getrandbits(3), r.getrandbits(1), r.getrandbits(1), r.getrandbits(11), r.getrandbits(2), r.getrandbits(14), r.getrandbits(16))
        return u, SpacePacketHeader.unpack, _obs_sp_header
    reg["sp_header"] = sp_header

    def tc(r):
        u = P.tc(r.getrandbits(11), r.getrandbits(14), r.getrandbits(8), r.getrandbits(8), r.getrandbits(16), r.getrandbits(4), rand_bytes(r, r.randrange(0, 30)))
        return u, PusTc.unpack, _obs_tc
    reg["pus_tc"] = tc

    def tm(r):
        ts = rand_bytes(r, r.choice((0, 7, 7, 12)))
        u = P.tm(r.getrandbits(11), r.getrandbits(14), r.getrandbits(8), r.getrandbits(8), r.getrandbits(16), r.getrandbits(16), r.getrandbits(4), ts,
                 rand_bytes(r, r.randrange(0, 30)), version=r.getrandbits(3))
        n = len(ts)
        return u, (lambda b: PusTm.unpack(b, n)), _obs_tm
    reg["pus_tm"] = tm

    def srv17(r):
        ts = rand_bytes(r, r.choice((0, 7)))
        u = P.tm(r.getrandbits(11), r.getrandbits(14), 17, 2, 0, r.getrandbits(16), r.getrandbits(4), ts, rand_bytes(r, r.randrange(0, 10)))
        n = len(ts)
        return u, (lambda b: Service17Tm.unpack(b, n)), (lambda w: _obs_tm(w.pus_tm))
    reg["srv17_tm"] = srv17

    def srv1(r):
        sub = r.randrange(1, 9)
        sw, cw = r.choice((1, 2, 4, 8)), r.choice((1, 2, 4, 8))
        step = (sw, r.getrandbits(8 * sw)) if sub in (5, 6) else None
        code = (cw, r.getrandbits(8 * cw)) if sub % 2 == 0 else None
        fdata = rand_bytes(r, r.choice((0, 1, 9))) if code else b""
        ts = rand_bytes(r, r.choice((0, 7)))
        rid = P.request_id(r.getrandbits(3), 1, r.getrandbits(1), r.getrandbits(11), 3, r.getrandbits(14))
        u = P.tm(r.getrandbits(11), r.getrandbits(14), 1, sub, 0, 0, 0, ts, P.srv1_source_data(rid, step, code, fdata))
        params = UnpackParams(len(ts), sw, cw)
        return u, (lambda b: Service1Tm.unpack(b, params)), _obs_srv1
    reg["srv1_tm"] = srv1

    def cds(r):
        u = T.encode(r.getrandbits(16), r.randrange(86_400_000))
        return u, CdsShortTimestamp.unpack, (lambda t: {"f": [t.ccsds_days, t.ms_of_day, t.as_unix_seconds()], "len": t.len_packed, "pack": bytes(t.pack()).hex()})
    reg["cds_timestamp"] = cds

    def cds_raw(r):
        u = T.encode(r.getrandbits(16), r.randrange(86_400_000))
        return u, CdsShortTimestamp.unpack_from_raw, (lambda t: {"f": list(t), "len": 7, "pack": T.encode(*t).hex()})
    reg["cds_from_raw"] = cds_raw

    def reqid(r):
        u = P.request_id(r.getrandbits(3), r.getrandbits(1), r.getrandbits(1), r.getrandbits(11), r.getrandbits(2), r.getrandbits(14))
        return u, RequestId.unpack, (lambda q: {"f": [q.as_u32(), q.ccsds_version], "len": 4, "pack": bytes(q.pack()).hex()})
    reg["request_id"] = reqid

    def pdu_header(r):
        idw, seqw = r.choice(C.WIDTHS), r.choice(C.WIDTHS)
        u = R.header(r.getrandbits(1), r.getrandbits(1), r.getrandbits(1), r.getrandbits(1), r.getrandbits(1), r.getrandbits(16), r.getrandbits(1), r.getrandbits(1),
                     idw, seqw, r.getrandbits(8 * idw), r.getrandbits(8 * seqw), r.getrandbits(8 * idw))
        return u, X.PduHeader.unpack, (lambda h: {"f": C.hdr_fields(h), "len": h.header_len, "pack": bytes(h.pack()).hex()})
    reg["pdu_header"] = pdu_header

    def tlv(r):
        u = R.tlv(r.choice(R.TLV_TYPES), rand_bytes(r, r.choice((0, 1, 2, 5, 40))))
        return u, X.CfdpTlv.unpack, (lambda t: {"f": [int(t.tlv_type), bytes(t.value).hex()], "len": t.packet_len, "pack": bytes(t.pack()).hex()})
    reg["cfdp_tlv"] = tlv

    def lv(r):
        u = R.lv(rand_bytes(r, r.choice((0, 1, 2, 5, 40))))
        return u, X.CfdpLv.unpack, (lambda t: {"f": [bytes(t.value).hex()], "len": t.packet_len, "pack": bytes(t.pack()).hex()})
    reg["cfdp_lv"] = lv

    def concrete(name):
        def b(r):
            if name == "entity_id":
                p = {"id": rand_bytes(r, r.choice(C.WIDTHS)).hex()}
            elif name == "flow_label":
                p = {"label": rand_bytes(r, r.randrange(0, 20)).hex()}
            elif name == "msg_to_user":
                # half of them reserved CFDP messages ('cfdp', message type, fields), the rest arbitrary content
                p = {"msg": (b"cfdp" + bytes([r.choice((0x00, 0x04, 0x07, 0x0A, 0x0B, 0x10, 0x11, 0x15, r.getrandbits(8)))]) + rand_bytes(r, r.randrange(0, 16))).hex()
                     if r.random() < 0.5 else rand_bytes(r, r.randrange(0, 20)).hex()}
            elif name == "fault_handler":
                p = {"cond": r.choice(C.CONDS), "handler": r.choice((1, 2, 3, 4))}
            elif name == "fs_request":
                a = r.choice(range(9))
                p = {"action": a, "first": r.choice(c08.NAME_POOL[:5]), "second": r.choice(c08.NAME_POOL[:5]) if a in R.TWO_NAME_ACTIONS else ""}
            else:
                p = C.rand_response(r)
            u = c08.make(name, p)[1]
            cls = c08.cls_of(name)
            return u, cls.unpack, (lambda o: {"f": c08.read(name, o), "len": o.packet_len, "pack": bytes(o.pack()).hex()})
        return b
    for name in c08.CONCRETE:
        reg["tlv_" + name] = concrete(name)

    def uslp_primary(r):
        n = r.randrange(0, 8)
        u = U.primary_header(r.getrandbits(16), r.getrandbits(1), r.getrandbits(6), r.getrandbits(4), r.getrandbits(16), r.getrandbits(1), r.getrandbits(1),
                             r.getrandbits(1), n, r.getrandbits(8 * n) if n else 0)
        return u, PrimaryHeader.unpack, (lambda h: {"f": [h.scid, int(h.src_dest), h.vcid, h.map_id, h.frame_len, int(h.bypass_seq_ctrl_flag),
                                                          int(h.prot_ctrl_cmd_flag), int(h.op_ctrl_flag), h.vcf_count_len, h.vcf_count],
                                                    "len": h.len(), "pack": bytes(h.pack()).hex()})
    reg["uslp_primary_header"] = uslp_primary

    def uslp_trunc(r):
        u = U.truncated_header(r.getrandbits(16), r.getrandbits(1), r.getrandbits(6), r.getrandbits(4))
        return u, TruncatedPrimaryHeader.unpack, (lambda h: {"f": [h.scid, int(h.src_dest), h.vcid, h.map_id], "len": h.len(), "pack": bytes(h.pack()).hex()})
    reg["uslp_truncated_header"] = uslp_trunc
    return reg


_REG = None


def reg():
    global _REG
    if _REG is None:
        _REG = unit_registry()
    return _REG


def k_unit(ctx, name, seed, suffix_cls):
    """Deterministic from (name, seed, suffix class): build unit, decode alone, decode with suffix, compare."""
    import random
    r = random.Random(f"{name}/{seed}")
    u, dec, obs = reg()[name](r)
    other_name = r.choice([n for n in reg() if n != name])
    other = reg()[other_name](r)[0]
    s = make_suffix(r, suffix_cls, u, other)
    case = {"k": "unit", "name": name, "seed": seed, "suffix_cls": suffix_cls}
    ctx.case(f"{name}/{suffix_cls}", (u, s), sample=dict(case, unit=u.hex()[:120], suffix=s.hex()[:60]))
    ok, base = attempt(lambda: obs(dec(u)))
    if not ctx.check("unit_alone_decodes", ok, "raised", f"{name}/" + (exc_sig(base) if not ok else ""), case, unit=u, error=repr(base)):
        return
    ctx.check("reported_length", base["len"] == len(u), "differs_from_declared", name, case, unit=u, observed=base["len"], expected=len(u))
    ok, got = attempt(lambda: obs(dec(u + s)))
    if not ok:
        return ctx.check("suffix_non_interference", False, "refused_with_suffix", f"{name}/{exc_sig(got)}", case, unit=u, suffix=s, error=repr(got))
    if not ctx.check("suffix_non_interference", got == base, "decode_differs", f"{name}/{_which(base, got)}", case, unit=u, suffix=s,
                     expected=base, observed=got):
        return
    # a mutable buffer handed in must not alias what is later changed
    ok, got2 = attempt(lambda: obs(dec(bytearray(u + s))))
    ctx.check("suffix_non_interference", ok and got2 == base, "decode_differs_bytearray", name, case, unit=u, suffix=s)
    redzone_probe(ctx, name, dec, obs, u, s)


def redzone_probe(ctx, name, dec, obs, u, s):
    """Localising only: which offsets does the decoder dereference when octets follow the unit?"""
    from spverif.san.redzone import RedZone, Log
    from spverif.core import repo as repo_mod
    import os
    log = Log(len(u), os.path.abspath(repo_mod.REPO).rstrip("/") + "/")
    try:
        obs(dec(RedZone(u + s, log)))
        outcome = "beyond_declared_length" if log.max_end > len(u) else "within_declared_length"
    except Exception as e:  # noqa: BLE001 - the red-zone object is not a real bytes object
        outcome = f"probe_not_applicable:{type(e).__name__}"
    ctx.table(f"redzone/{name}", outcome)
    if log.beyond:
        for a, b, site in log.beyond[:2]:
            ctx.note(f"redzone: {name} dereferenced offsets >= declared length at {site}")


def _which(a, b):
    if a.get("len") != b.get("len"):
        return "len"
    if a.get("f") != b.get("f"):
        return "fields"
    return "repack"


def k_back_to_back(ctx, names, seed):
    """k units packed back to back are split purely by the reported lengths."""
    import random
    r = random.Random(f"b2b/{seed}")
    parts = [reg()[n](r) for n in names]
    stream = b"".join(p[0] for p in parts)
    case = {"k": "back_to_back", "names": names, "seed": seed}
    ctx.case("back_to_back/" + ("same" if len(set(names)) == 1 else "mixed"), stream, sample=dict(case, stream=stream.hex()[:160]))
    i = 0
    kept = []
    for n, (u, dec, obs) in zip(names, parts):
        ok, o = attempt(dec, stream[i:])
        ok, got = attempt(obs, o) if ok else (False, o)
        ok2, base = attempt(lambda: obs(dec(u)))
        if not ctx.check("back_to_back_split", ok and ok2 and got == base, "unit_differs_in_stream", n, case, offset=i,
                         observed=got if ok else repr(got), expected=base if ok2 else repr(base)):
            return
        kept.append((n, o, obs, got))
        i += got["len"]
    ctx.check("back_to_back_split", i == len(stream), "lengths_do_not_add_up", "", case, observed=i, expected=len(stream))
    # the objects decoded from the earlier parts of the stream are still what they were once the later parts have been decoded
    for n, o, obs, got in kept[:-1]:
        ok, again = attempt(obs, o)
        if not ctx.check("back_to_back_split", ok and again == got, "earlier_decoded_unit_changed_by_a_later_decode", n, case, observed=again if ok else repr(again), expected=got):
            return


def k_pdu(ctx, kind, cfg, p, suffix_cls, seed):
    import random
    r = random.Random(f"pdu/{seed}")
    X = C.lib()
    u = C.ref_octets(kind, cfg, p)
    other = C.ref_octets("ack", C.rand_cfg(r), {"acked": 4, "cond": 0, "tstatus": 1})
    s = make_suffix(r, suffix_cls, u, other)
    case = {"k": "pdu", "kind": kind, "cfg": cfg, "p": p, "suffix_cls": suffix_cls, "seed": seed}
    feat = f"{kind}/crc={cfg['crc']}"
    ctx.case(f"pdu_{kind}/crc={cfg['crc']}/{suffix_cls}", (u, s), sample=dict(case, suffix=s.hex()[:60]) if len(u) < 120 else None)
    exp = C.norm_params(kind, p)
    doc = documented_errors()
    class _Held:
        """The holder route: parameters from the held PDU, the length the *holder* reports."""
        def __init__(self, raw):
            self.h = X.PduFactory.from_raw_to_holder(raw)
            self.pdu = self.h.pdu
        def __getattr__(self, name):
            return getattr(self.h if name in ("packet_len", "pack") else self.pdu, name)
    for dname, dec in (("class", X.CLS[kind].unpack), ("factory", X.PduFactory.from_raw), ("holder", _Held)):
        ok, b = attempt(dec, u)
        if not ctx.check("unit_alone_decodes", ok and b is not None, "raised", f"{feat}/{dname}/" + (exc_sig(b) if not ok else ""), case, error=repr(b)):
            continue
        base = C.norm_params(kind, C.get_params(kind, b.pdu if dname == "holder" else b))
        if not ctx.check("pdu_params_are_constructor_args", base == exp, "differs", f"{feat}/{C.diff_keys(base, exp)}", case, expected=exp, observed=base):
            continue
        ctx.check("reported_length", b.packet_len == len(u), "differs_from_declared", feat, case, observed=b.packet_len, expected=len(u))
        ok, g = attempt(dec, u + s)
        ctx.ev("suffix_non_interference")
        if not ok:
            if isinstance(g, doc):
                ctx.table("pdu_with_suffix_outcome", f"{kind}:refused:{type(g).__name__}")
            else:
                ctx.fail("suffix_non_interference", "undocumented_error_with_suffix", f"{feat}/{dname}/{exc_sig(g)}", case, suffix=s, error=repr(g))
            continue
        ctx.table("pdu_with_suffix_outcome", f"{kind}:decoded")
        got = C.norm_params(kind, C.get_params(kind, g.pdu if dname == "holder" else g))
        if got != exp:
            ctx.fail("suffix_non_interference", "trailing_octets_in_params", f"{feat}/{dname}/{C.diff_keys(got, exp)}", case, suffix=s, expected=exp, observed=got)
            continue
        ok2, rp = attempt(g.pack)
        if not (ok2 and bytes(rp) == u and g.packet_len == len(u)):
            ctx.fail("suffix_non_interference", "decode_differs", f"{feat}/{dname}/repack_or_len", case, suffix=s, observed=bytes(rp).hex()[:120] if ok2 else repr(rp))


def k_pdu_stream(ctx, seed):
    """Several complete PDUs of different kinds and header configurations received one after the other (each in its own
    buffer, some followed by further octets): every decoded PDU still reports its own parameters, lengths and octets after the
    later ones have been decoded."""
    import random
    r = random.Random(f"pdustream/{seed}")
    X = C.lib()
    case = {"k": "pdu_stream", "seed": seed}
    ctx.case("pdu_stream", seed, sample=case)
    kept = []
    for _ in range(r.randrange(2, 6)):
        kind = r.choice(C.KINDS8)
        cfg = C.rand_cfg(r, segctrl=(kind == "file_data"))
        p = C.rand_params(r, kind, cfg, rich=False)
        u = C.ref_octets(kind, cfg, p)
        dec = X.CLS[kind].unpack if r.random() < 0.5 else X.PduFactory.from_raw
        ok, o = attempt(dec, u)
        if not ok or o is None:
            continue
        view = lambda o=o, kind=kind: (C.norm_params(kind, C.get_params(kind, o)), C.hdr_fields(o.pdu_header), o.packet_len, bytes(o.pack()).hex())  # noqa: E731
        kept.append((kind, o, view, view(), u))
    for kind, o, view, seen, u in kept[:-1]:
        ok, now = attempt(view)
        ctx.check("pdu_stream_objects_independent", ok and now == seen and now[3] == u.hex(), "earlier_decoded_pdu_changed_by_a_later_decode", kind, case,
                  observed=repr(now)[:300], expected=repr(seen)[:300])


PDU_MINIMAL = {"eof": 10, "finished": 2, "ack": 3, "metadata": 8, "nak": 9, "prompt": 2, "keep_alive": 5}


def pdu_minimal(kind, large):
    """Octets a directive's data field needs for its fixed fields (directive code included, CRC not)."""
    return PDU_MINIMAL[kind] + (4 if large and kind in ("eof", "metadata", "keep_alive") else 0) + (8 if large and kind == "nak" else 0)


def srv1_need(sub, sw, cw):
    return 4 + (sw if sub in (5, 6) else 0) + (cw if sub % 2 == 0 else 0)


def refused_unit_grid():
    """(what, spec) for every too-short unit of the small families: the deciding unit of a bound that is off by one or two is a
    single cell (one kind, CRC on, exactly one octet short), which sampling reaches only now and then (found by the second
    mechanical campaign, DESIGN 10)."""
    for kind in PDU_MINIMAL:
        for crc in (0, 1):
            for large in (0, 1):
                for extra in range(0, pdu_minimal(kind, large) - 1):
                    yield "pdu_short_for_directive", {"kind": kind, "crc": crc, "large": large, "extra": extra}
    for crc in (0, 1):
        for large in (0, 1):
            fss = 8 if large else 4
            for have in range(0, fss):
                yield "fd_short_for_offset", {"crc": crc, "large": large, "segmeta": 0, "have": have}
            for ml in (0, 1, 2, 7, 63):
                for have in sorted({0, 1, max(0, ml - 1), ml, ml + 1, ml + 2, ml + fss - 2, ml + fss - 1}):
                    if have < ml + fss:
                        yield "fd_short_for_offset", {"crc": crc, "large": large, "segmeta": 1, "ml": ml, "have": have}
    for what in ("tm_short_for_timestamp", "srv17_short_for_timestamp"):
        for tsl in (7, 12, 16):
            for have in range(0, tsl):
                yield what, {"tsl": tsl, "have": have}
    for sub in (2, 4, 5, 6, 8):
        for sw in (1, 2, 4):
            for cw in (1, 2, 4):
                for have in range(0, srv1_need(sub, sw, cw)):
                    yield "srv1_short_for_fields", {"sub": sub, "sw": sw, "cw": cw, "have": have}
    for n in range(0, 6):
        yield "tc_short_length_field", {"n": n}
    for resp in (0, 1):
        for two in (0, 1):
            for cut in range(1, 22):
                yield "tlv_short_for_inner_fields", {"resp": resp, "two": two, "cut": cut}


def k_refused_unit(ctx, what, seed, spec=None):
    """Units that declare less than their reader needs (self-consistent, valid CRC, but too short for the timestamp / step id /
    directive fields the reader was told to expect): whether such a unit is refused must not depend on what follows it in the
    buffer - octets behind the declared end are not there to be borrowed."""
    import random
    from spacepackets.ecss.tm import PusTm
    from spacepackets.ecss.tc import PusTc
    from spacepackets.ecss.pus_17_test import Service17Tm
    from spacepackets.ecss.pus_1_verification import Service1Tm, UnpackParams
    X = C.lib()
    r = random.Random(f"refused/{what}/{seed}")
    case = {"k": "refused_unit", "what": what, "seed": seed, "spec": spec}
    ctx.case(f"refused_unit/{what}", (seed, json.dumps(spec, sort_keys=True)), sample=case)
    forced = []                                                  # suffixes every case of a family sees besides the sampled classes
    if what in ("tm_short_for_timestamp", "srv17_short_for_timestamp"):
        tsl = spec["tsl"] if spec else r.choice((7, 12, 16))
        have = spec["have"] if spec else r.randrange(0, tsl)                               # timestamp + source data octets really present: fewer than the reader's timestamp
        u = P.tm(r.getrandbits(11), r.getrandbits(14), 17, 2, 0, 0, 0, b"", rand_bytes(r, have))
        dec = (lambda b: PusTm.unpack(b, tsl)) if what.startswith("tm") else (lambda b: Service17Tm.unpack(b, tsl))
    elif what == "srv1_short_for_fields":
        sw, cw = (spec["sw"], spec["cw"]) if spec else (r.choice((1, 2, 4)), r.choice((1, 2, 4)))
        sub = spec["sub"] if spec else r.choice((2, 4, 5, 6, 8))
        need = srv1_need(sub, sw, cw)
        u = P.tm(r.getrandbits(11), r.getrandbits(14), 1, sub, 0, 0, 0, b"", rand_bytes(r, spec["have"] if spec else r.randrange(0, need)))
        dec = lambda b: Service1Tm.unpack(b, UnpackParams(0, sw, cw))  # noqa: E731
    elif what == "tc_short_length_field":
        full = P.tc(r.getrandbits(11), r.getrandbits(14), 17, 1, 0, 0xF, b"")
        n = spec["n"] if spec else r.randrange(0, 6)                                    # declared data length too small for secondary header + CRC
        u = full[:4] + n.to_bytes(2, "big") + full[6:7 + n]
        dec = PusTc.unpack
    elif what == "fd_short_for_offset":
        cfg = C.rand_cfg(r, crc=spec["crc"], large=spec["large"]) if spec else C.rand_cfg(r, crc=r.getrandbits(1))
        fss = 8 if cfg["large"] else 4
        segmeta = spec["segmeta"] if spec else r.getrandbits(1)
        if segmeta:
            ml = spec["ml"] if spec else r.randrange(0, 10)
            body = bytes([(r.getrandbits(2) << 6) | ml]) + rand_bytes(r, spec["have"] if spec else r.randrange(0, ml + fss))      # metadata and / or offset incomplete
        else:
            body = rand_bytes(r, spec["have"] if spec else r.randrange(0, fss))
        u = R.assemble(cfg, 1, 0, body, segmeta=segmeta)
        dec = X.FileDataPdu.unpack if r.random() < 0.5 else X.PduFactory.from_raw
    elif what == "tlv_short_for_inner_fields":
        # a filestore request / response TLV whose length octet stops inside its own file-name / message LVs (the octets that were
        # cut off follow in the buffer, as they would in a PDU whose option list was damaged)
        from spacepackets.cfdp.tlv import FileStoreRequestTlv, FileStoreResponseTlv
        two = spec["two"] if spec else r.getrandbits(1)
        resp = spec["resp"] if spec else r.getrandbits(1)
        n1, n2, msg = (bytes(r.choice(b"abcxyz./_0") for _ in range(r.randrange(1, 6))) for _ in range(3))
        value = bytes([((2 if two else 0) << 4) | (0 if not resp else r.choice((0, 1, 2) if two else (0, 1)))]) + bytes([len(n1)]) + n1
        if two:
            value += bytes([len(n2)]) + n2
        if resp:
            value += bytes([len(msg)]) + msg
        cut = min(spec["cut"], len(value)) if spec else r.randrange(1, len(value) + 1)
        u = bytes([1 if resp else 0, len(value) - cut]) + value[:len(value) - cut]
        forced = [value[len(value) - cut:], value[len(value) - cut:] + b"\x06\x02\x01\x02"]
        dec = (FileStoreResponseTlv if resp else FileStoreRequestTlv).unpack
    else:                                                        # directive PDUs whose data field is shorter than the directive's fixed fields
        if spec:                                                 # enumerated: kind x CRC x file-size class x every too-short length
            kind = spec["kind"]
            cfg = C.rand_cfg(r, crc=spec["crc"], large=spec["large"])
            extra = spec["extra"]
        else:
            kind = r.choice(("eof", "finished", "ack", "metadata", "nak", "prompt", "keep_alive"))
            cfg = C.rand_cfg(r, crc=r.getrandbits(1))
            extra = r.randrange(0, pdu_minimal(kind, cfg["large"]) - 1)
        body = bytes([C.DIRECTIVE_CODE[kind]]) + rand_bytes(r, extra)
        u = R.assemble(cfg, 0, 0, body)
        dec = X.CLS[kind].unpack if r.random() < 0.5 else X.PduFactory.from_raw
        what = f"pdu_short_for_directive/{kind}"
    ok, base = attempt(dec, u)
    ctx.table("refused_unit_alone", f"{what.split('/')[0]}:{'accepted' if ok else type(base).__name__}")
    if ok and what.startswith(("pdu_short_for_directive", "fd_short_for_offset")) and cfg["crc"]:
        # the data field cannot hold the directive's fixed fields (the segment metadata and offset) without its last two octets,
        # which are the CRC trailer
        ctx.ev("refusal_independent_of_what_follows")
        return ctx.fail("refusal_independent_of_what_follows", "crc_trailer_read_as_parameter_octets", what, case, unit=u, observed=repr(base)[:200])
    if ok:
        return                                                   # accepted on its own: nothing to compare (the other monitors cover accepted units)
    if not isinstance(base, documented_errors()):
        ctx.ev("refusal_independent_of_what_follows")
        return ctx.fail("refusal_independent_of_what_follows", "undocumented_error_for_a_unit_too_short_for_its_fields", f"{what}/{exc_sig(base)}", case, unit=u, error=repr(base))
    other = reg()[r.choice(list(reg()))](r)[0]
    for sfx in forced + [make_suffix(r, cls, u, other) for cls in r.sample(SUFFIX_CLASSES, 6)]:
        ok2, got = attempt(dec, u + sfx)
        ctx.ev("refusal_independent_of_what_follows")
        if ok2:
            return ctx.fail("refusal_independent_of_what_follows", "unit_refused_alone_is_accepted_with_octets_behind_it", what, case, unit=u, suffix=sfx, observed=repr(got)[:200])
        if not isinstance(got, documented_errors()):
            return ctx.fail("refusal_independent_of_what_follows", "undocumented_error_when_octets_follow", f"{what}/{exc_sig(got)}", case, unit=u, suffix=sfx, error=repr(got))


KINDS = {"refused_unit": k_refused_unit, "unit": k_unit, "back_to_back": k_back_to_back, "pdu": k_pdu, "pdu_stream": k_pdu_stream}


def run(ctx):
    from spverif.san import scribble
    scribble.install()
    r = ctx.rng
    names = list(reg())
    i = 0
    reps = 20 if ctx.quick else 500
    for name in names:
        for sc in SUFFIX_CLASSES:
            for rep in range(reps):
                i += 1
                if ctx.mine(i):
                    k_unit(ctx, name, ctx.seed * 1_000_003 + i, sc)
    ctx.exhaustive.append(f"{len(names)} unit kinds x {len(SUFFIX_CLASSES)} suffix classes")
    for j in range(ctx.n(2000, 60_000)):
        k = r.randrange(2, 6)
        ns = [r.choice(names)] * k if r.random() < 0.4 else [r.choice(names) for _ in range(k)]
        k_back_to_back(ctx, ns, ctx.seed * 1_000_003 + ctx.shard[0] * 50_021 + j)
    for j in range(ctx.n(300, 20_000)):
        for what in ("tm_short_for_timestamp", "srv17_short_for_timestamp", "srv1_short_for_fields", "tc_short_length_field", "pdu_short_for_directive", "fd_short_for_offset", "tlv_short_for_inner_fields"):
            k_refused_unit(ctx, what, ctx.seed * 1_000_003 + ctx.shard[0] * 50_021 + j)
    for gi, (what, spec) in enumerate(refused_unit_grid()):
        i += 1
        if ctx.mine(i):
            k_refused_unit(ctx, what, ctx.seed * 1_000_003 + gi, spec=spec)
    ctx.exhaustive.append("units too short for their reader: 7 directive kinds x CRC x file-size class x every length below the minimum; File Data x CRC x "
                          "file-size class x segment metadata lengths x lengths short of the offset; PUS TM / service 17 x timestamp length x every shorter "
                          "length; service 1 x subservice x step / code widths x every shorter length; TC length field 0..5; filestore request / "
                          "response TLVs x one / two names x every length octet that stops inside the value, followed by the octets cut off")
    preps = 8 if ctx.quick else 300
    for kind in C.KINDS8:
        for crc in (0, 1):
            for sc in SUFFIX_CLASSES:
                for rep in range(preps):
                    i += 1
                    if not ctx.mine(i):
                        continue
                    cfg = C.rand_cfg(r, segctrl=(kind == "file_data"), crc=crc)
                    p = C.rand_params(r, kind, cfg, rich=bool(rep & 1) or ctx.quick)
                    k_pdu(ctx, kind, cfg, p, sc, ctx.seed * 1_000_003 + i)
    ctx.exhaustive.append(f"8 PDU kinds x CRC off/on x {len(SUFFIX_CLASSES)} suffix classes")
    # PDUs whose CRC trailer is exactly 0x0000 / 0xFFFF (a trailer that is "falsy", or looks like padding, must still be a trailer)
    for kind in C.KINDS8:
        for target in (0x0000, 0xFFFF):
            for rep in range(2 if ctx.quick else 12):
                i += 1
                if not ctx.mine(i):
                    continue
                cfg = C.rand_cfg(r, segctrl=(kind == "file_data"), crc=1, seqw=r.choice((2, 4, 8)))
                got = C.craft_crc_boundary(kind, cfg, C.rand_params(r, kind, cfg, rich=False), "whole", target)
                if got is None:
                    continue
                ctx.table("crafted_crc_trailer", f"{kind}/{target:04x}")
                k_pdu(ctx, kind, got[0], got[1], r.choice(SUFFIX_CLASSES), ctx.seed * 1_000_003 + i)
    for j in range(ctx.n(600, 40_000)):
        k_pdu_stream(ctx, ctx.seed * 1_000_003 + ctx.shard[0] * 100_003 + j)


def conclude(ctx):
    ctx.require(ctx.extra.get("hostile_caller_scribbled_pack_results", 0) > 0, "hostile-caller sanitizer scribbled no pack() result")
    for name in reg():
        for sc in SUFFIX_CLASSES:
            ctx.require(ctx.classes.get(f"{name}/{sc}", 0) > 0, f"cell {name}/{sc} empty")
    for kind in C.KINDS8:
        for crc in (0, 1):
            for sc in SUFFIX_CLASSES:
                ctx.require(ctx.classes.get(f"pdu_{kind}/crc={crc}/{sc}", 0) > 0, f"cell pdu_{kind}/crc={crc}/{sc} empty")
    for m in ("suffix_non_interference", "reported_length", "back_to_back_split", "unit_alone_decodes", "pdu_params_are_constructor_args", "pdu_stream_objects_independent"):
        ctx.require(ctx.monitors.get(m, {}).get("evaluations", 0) > 0, f"monitor {m} never evaluated")
