"""C16 - PUS verification tracker: lock-step comparison with the documented state machine over histories."""
from __future__ import annotations

import itertools
import random

from spverif.core.util import attempt, exc_sig
from spverif.ref.models import VerifModel, UNSET, FAILURE, SUCCESS

THOROUGH_SCALE = 8
ID = "C16"
LEVEL = "exploration"
SHARDS = {"quick": 1, "thorough": 16}
RULE = ("cases = finite histories over a 43-letter alphabet for 3 telecommands: add_tc(t) x3, add_tm(report(t, subservice 1..8, step "
        "value in {1, 2 with the top bit of the field set, 0} for step reports)) x30, remove_entry(t) x3, remove_completed_entries(); exhaustive to depth 3 (quick) / 4 "
        "(thorough), plus random histories of length 20..200; after every call the return value and the entire verif_dict are "
        "compared with the reference state machine and the model-independent invariants are checked; non-trivial = history contains "
        "an add_tm for a registered telecommand; distinct = distinct letter sequences")
TRUSTED = ["CPython 3.12", "spverif.ref.models.VerifModel (DESIGN appendix A: my reading of the class documentation and code)"]
ASSUMPTIONS = ["single-threaded use; reports are well-formed Service1Tm objects with subservice 1..8"]

N_TC = 3
_ENVS = {}
# telecommand sets (apid, sequence count): set 0 = unrelated ids; the others differ in a single high bit of one field,
# so that a key that loses that bit (mask / shift slip in the request id) makes two telecommands collide
TC_SETS = {0: [(0x11, 100), (0x16, 101), (0x1B, 102)],
           1: [(0x2A, 21), (0x2A, 21 + 1024), (0x2A, 21 + 8192)],
           2: [(0x12A, 7), (0x52A, 7), (0x12A, 7 + 256)],
           3: [(0x7FF, 0x3FFF), (0x3FF, 0x3FFF), (0x7FF, 0x1FFF)],
           # same APID and sequence count, different segmentation flags (third element; headers built through from_composite_fields)
           4: [(0x2A, 21, 0), (0x2A, 21, 1), (0x2A, 21, 3)]}
CUR_SET = 0
CUR_ROUTE = "ctor"
REPORT_ROUTES = ("ctor", "unpacked", "from_tm")      # how the report objects handed to add_tm came into being


def env(set_id=None, route=None):
    """Pre-built telecommands, request ids and report objects (add_tm does not modify the report).  With the routes
    'unpacked' / 'from_tm' every report of the alphabet is parsed from its packed octets, all of them before any is fed to
    the tracker (a receiver that parses a batch of telemetry first), so all parsed reports are alive at the same time."""
    set_id = CUR_SET if set_id is None else set_id
    route = CUR_ROUTE if route is None else route
    if (set_id, route) in _ENVS:
        return _ENVS[(set_id, route)]
    from spacepackets.ecss.tc import PusTc
    from spacepackets.ecss.pus_verificator import PusVerificator, StatusField
    from spacepackets.ecss.pus_1_verification import Service1Tm, Subservice, VerificationParams, FailureNotice
    from spacepackets.ecss.req_id import RequestId
    from spacepackets.ecss.fields import PacketFieldEnum
    def mk_tc(spec):
        if len(spec) == 2:
            return PusTc(service=17, subservice=1, apid=spec[0], seq_count=spec[1])
        from spacepackets.ccsds.spacepacket import SpacePacketHeader, PacketType, SequenceFlags
        from spacepackets.ecss.tc import PusTcDataFieldHeader
        h = SpacePacketHeader(PacketType.TC, spec[0], spec[1], 6, True, SequenceFlags(spec[2]))
        return PusTc.from_composite_fields(h, PusTcDataFieldHeader(17, 1), b"")
    tcs = [mk_tc(spec) for spec in TC_SETS[set_id]]
    rids = [RequestId.from_pus_tc(t) for t in tcs]
    keys = [r.as_u32() for r in rids]
    letters = []
    for t in range(N_TC):
        letters.append(("add_tc", t))
    # declared widths of the step id and the failure code: one octet for the plain constructor route of set 0, wider elsewhere
    # (a report decoded with 2-, 4- or 8-octet fields must bring the same step numbers to the tracker)
    sw = (1, 2, 4, 8)[(set_id + (0 if route == "ctor" else 1)) % 4]
    cw = (1, 2, 4, 8)[(set_id + (0 if route == "ctor" else 2)) % 4]
    for t in range(N_TC):
        for sub in range(1, 9):
            steps = (1, (1 << (8 * sw - 1)) | 2, 0) if sub in (5, 6) else (None,)       # the second step number has the top bit of its field set, the third is the smallest one
            for st in steps:
                step = None if st is None else PacketFieldEnum.with_byte_size(sw, st)
                notice = FailureNotice(PacketFieldEnum.with_byte_size(cw, 7), b"") if sub % 2 == 0 else None
                tm = Service1Tm(apid=0x30, subservice=Subservice(sub), timestamp=b"", verif_params=VerificationParams(RequestId.from_pus_tc(tcs[t]), step, notice))
                if route != "ctor":
                    from spacepackets.ecss.pus_1_verification import UnpackParams
                    from spacepackets.ecss.tm import PusTm
                    raw = bytes(tm.pack())
                    up = UnpackParams(0, sw, cw)
                    tm = Service1Tm.unpack(raw, up) if route == "unpacked" else Service1Tm.from_tm(PusTm.unpack(raw, 0), up)
                letters.append(("add_tm", t, sub, st, tm))
    for t in range(N_TC):
        letters.append(("remove_entry", t))
    letters.append(("remove_completed",))
    from spverif.ref import pus as _P
    keys_model = [int.from_bytes(_P.request_id(0, 1, 1, spec[0], spec[2] if len(spec) > 2 else 3, spec[1]), "big") for spec in TC_SETS[set_id]]
    assert len(set(keys_model)) == N_TC
    _ENVS[(set_id, route)] = dict(PusVerificator=PusVerificator, tcs=tcs, rids=rids, keys=keys_model, letters=letters, StatusField=StatusField)
    return _ENVS[(set_id, route)]


def letter_name(L):
    if L[0] == "add_tm":
        return f"tm(t{L[1]},{L[2]}" + (f",step={L[3]})" if L[3] is not None else ")")
    if L[0] == "remove_completed":
        return "remove_completed"
    return f"{L[0]}(t{L[1]})"


def snap(v):
    """Whole verif_dict as plain data keyed by the 32-bit request id."""
    out = {}
    for k, s in v.verif_dict.items():
        out[int.from_bytes(bytes(k.pack()), "big")] = {"accepted": int(s.accepted), "started": int(s.started), "step": int(s.step), "completed": int(s.completed),
                           "step_list": list(s.step_list), "all": bool(s.all_verifs_recvd)}
    return out


def abstract(s):
    return (s["accepted"], s["started"], s["step"], s["completed"], s["all"])


def run_history(ctx, idxs, case, cover=None):
    E = env()
    v = E["PusVerificator"]()
    m = VerifModel()
    keys = E["keys"]
    prev = {}
    for pos, li in enumerate(idxs):
        L = E["letters"][li]
        op = L[0]
        before = snap(v) if op == "add_tm" else None
        if op == "add_tc":
            ok, got = attempt(v.add_tc, E["tcs"][L[1]])
            want = m.add_tc(keys[L[1]])
            mon, rel = "tracker.add_tc", "duplicate_or_new_answer"
        elif op == "add_tm":
            tm = L[4]
            pre_state = abstract(m.d[keys[L[1]]]) if keys[L[1]] in m.d else None
            ok, res = attempt(v.add_tm, tm)
            w = m.add_tm(keys[L[1]], L[2], L[3])
            mon, rel = "tracker.add_tm", "result"
            if ok:
                if res is None:
                    got = None
                else:
                    s = res.status
                    got = (bool(res.completed), {"accepted": int(s.accepted), "started": int(s.started), "step": int(s.step), "completed": int(s.completed),
                                                 "step_list": list(s.step_list), "all": bool(s.all_verifs_recvd)})
            else:
                got = res
            want = w
            if cover is not None and pre_state is not None:
                cover["transitions"].add((pre_state, L[2]))
        elif op == "remove_entry":
            ok, got = attempt(v.remove_entry, E["rids"][L[1]])
            want = m.remove_entry(keys[L[1]])
            mon, rel = "tracker.remove_entry", "answer"
        else:
            ok, got = attempt(v.remove_completed_entries)
            m.remove_completed()
            want = None
            mon, rel = "tracker.remove_completed", "answer"
        ctx.ev(mon)
        name = letter_name(L)
        if not ok:
            ctx.fail(mon, "raised", f"{op}/{exc_sig(got)}", dict(case, failing_step=pos), error=repr(got), letter=name)
            return
        if got != want:
            feat = op
            if op == "add_tm":
                if (got is None) != (want is None):
                    feat = f"sub={L[2]}/unknown_vs_known"
                elif got[0] != want[0]:
                    feat = f"sub={L[2]}/completed_flag"
                else:
                    feat = f"sub={L[2]}/status:" + ",".join(k for k in want[1] if got[1][k] != want[1][k])
            ctx.fail(mon, rel, feat, dict(case, failing_step=pos), letter=name, observed=got, expected=want)
            return
        now = snap(v)
        ctx.ev("tracker.state")
        if now != m.d:
            diff = []
            for k in set(now) | set(m.d):
                if now.get(k) != m.d.get(k):
                    who = "own" if op in ("add_tm", "add_tc", "remove_entry") and k == keys[L[1]] else "other"
                    if k not in now or k not in m.d:
                        diff.append(f"{who}:presence")
                    else:
                        diff.append(f"{who}:" + ",".join(f for f in now[k] if now[k][f] != m.d[k][f]))
            ctx.fail("tracker.state", "verif_dict_differs_from_model", f"{op}" + (f"/sub={L[2]}" if op == "add_tm" else "") + "/" + ";".join(sorted(set(diff))),
                     dict(case, failing_step=pos), letter=name, observed=now, expected=m.d)
            return
        # model-independent invariants
        if op == "add_tm":
            own = keys[L[1]]
            for k in before:
                if k != own:
                    ctx.ev("tracker.isolation")
                    if before[k] != now.get(k):
                        ctx.fail("tracker.isolation", "report_changed_other_telecommand", f"sub={L[2]}", dict(case, failing_step=pos), letter=name)
                        return
            if own in before and own in now:
                ctx.ev("tracker.monotone")
                if before[own]["all"] and not now[own]["all"]:
                    ctx.fail("tracker.monotone", "all_verifs_recvd_reverted", f"sub={L[2]}", dict(case, failing_step=pos), letter=name)
                    return
                if before[own]["step"] == FAILURE and now[own]["step"] != FAILURE:
                    ctx.fail("tracker.monotone", "failed_step_overwritten", f"sub={L[2]}", dict(case, failing_step=pos), letter=name)
                    return
            if got is not None:
                ctx.ev("tracker.completed_flag")
                if got[0] != (L[2] in (2, 4, 6, 7, 8)):
                    ctx.fail("tracker.completed_flag", "wrong_for_subservice", f"sub={L[2]}", dict(case, failing_step=pos), letter=name)
                    return
        elif op == "remove_completed":
            ctx.ev("tracker.remove_exact")
            # exactly the finished entries are gone
            if set(now) != {k for k, s in prev.items() if not s["all"]}:
                ctx.fail("tracker.remove_exact", "removed_set_differs", "", dict(case, failing_step=pos), before=prev, after=now)
                return
        prev = now
        if cover is not None:
            for s in now.values():
                cover["states"].add(abstract(s))


def k_many(ctx, seed):
    """A tracker with several hundred telecommands whose request ids are close neighbours (dense APID x sequence-count x version
    grid): every one registers as new, a report built for one - and one decoded from octets built by the reference model from the
    telecommand's own packed header - updates exactly that one, removal removes exactly that one."""
    import random
    from spacepackets.ecss.tc import PusTc, PusTcDataFieldHeader
    from spacepackets.ccsds.spacepacket import SpacePacketHeader, PacketType, SequenceFlags
    from spacepackets.ecss.pus_verificator import PusVerificator
    from spacepackets.ecss.pus_1_verification import Service1Tm, UnpackParams, create_acceptance_success_tm
    from spverif.ref import pus as _P
    r = random.Random(f"many/{seed}")
    case = {"k": "many", "seed": seed}
    ctx.case("many_telecommands", seed, sample=case)
    a0, c0 = r.getrandbits(11) & 0x7F8, r.getrandbits(14) & 0x3F00
    specs = [(a0 + da, c0 + dc, ver, fl) for da in range(4) for dc in range(0, 96) for ver in (0, r.choice((1, 5, 7))) for fl in (3,)]
    no_shf = set(r.sample(range(len(specs)), len(specs) // 4))          # a quarter of them without the secondary-header flag (type and flag bits differ)
    r.shuffle(specs)
    specs = specs[:400]
    no_shf = {i for i in no_shf if i < 400}
    v = PusVerificator()
    tcs = {}
    finished_keys = []
    from spacepackets.ecss.pus_1_verification import create_acceptance_failure_tm, FailureNotice
    from spacepackets.ecss.fields import PacketFieldEnum
    for n_reg, (a, c, ver, fl) in enumerate(specs):
        if n_reg in (40, 250, 255, 256, 257, 300) and tcs:
            # some telecommands finish (acceptance failure) while the tracker keeps growing: nothing but the explicit removal
            # calls may take them out again
            for key in r.sample(list(tcs), 3):
                attempt(v.add_tm, create_acceptance_failure_tm(0x33, tcs[key], FailureNotice(PacketFieldEnum.with_byte_size(1, 5), b""), b""))
                finished_keys.append(key)
        shf = n_reg not in no_shf
        h = SpacePacketHeader(PacketType.TC, a, c, 6, shf, SequenceFlags(fl), ver)
        tc = PusTc.from_composite_fields(h, PusTcDataFieldHeader(17, 1), b"")
        key = int.from_bytes(bytes(tc.pack())[:4], "big")
        assert key == int.from_bytes(_P.request_id(ver, 1, int(shf), a, fl, c), "big")
        ok, res = attempt(v.add_tc, tc)
        if not ctx.check("tracker.add_tc", ok and res is True, "distinct_telecommand_refused_as_duplicate", "many", dict(case, spec=[a, c, ver, fl]), observed=repr(res)):
            return
        tcs[key] = tc
        if finished_keys and not ctx.check("tracker.state", len(v.verif_dict) == len(tcs), "verif_dict_differs_from_model", "many/entry_vanished_without_removal", dict(case, registered=len(tcs)),
                                           entries=len(v.verif_dict), expected=len(tcs)):
            return
    ctx.check("tracker.state", len(v.verif_dict) == len(tcs) and {int.from_bytes(bytes(k.pack()), "big") for k in v.verif_dict} == set(tcs), "verif_dict_differs_from_model", "many/presence", case,
              entries=len(v.verif_dict), expected=len(tcs))
    keys = list(tcs)
    for key in r.sample(keys, 60):
        tc = tcs[key]
        if r.random() < 0.5:
            tm, route = create_acceptance_success_tm(0x33, tc, b""), "helper"
        else:
            raw = _P.tm(0x33, 0, 1, 1, 0, 0, 0, b"", _P.srv1_source_data(bytes(tc.pack())[:4], None, None, b""))
            tm, route = Service1Tm.unpack(raw, UnpackParams(0, 1, 1)), "model_octets"
        before = snap(v)
        ok, res = attempt(v.add_tm, tm)
        ctx.table("many_report_route", route)
        if not ctx.check("tracker.add_tm", ok and res is not None and res.completed is False, "result", f"sub=1/unknown_vs_known/{route}", dict(case, key=hex(key)), observed=repr(res)):
            return
        now = snap(v)
        changed = [k for k in now if now[k] != before.get(k)]
        if not ctx.check("tracker.isolation", changed == [key] and now[key]["accepted"] == SUCCESS, "report_changed_other_telecommand", f"sub=1/{route}", dict(case, key=hex(key)),
                         changed=[hex(k) for k in changed][:5]):
            return
    for key in r.sample(keys, 40):
        rid = [k for k in v.verif_dict if int.from_bytes(bytes(k.pack()), "big") == key][0]
        n0 = len(v.verif_dict)
        ok, res = attempt(v.remove_entry, rid)
        left = {int.from_bytes(bytes(k.pack()), "big") for k in v.verif_dict}
        if not ctx.check("tracker.remove_entry", ok and res is True and len(left) == n0 - 1 and key not in left, "answer", "many", dict(case, key=hex(key))):
            return


COVER = {"states": set(), "transitions": set()}


def k_history(ctx, idxs, tc_set=0, route="ctor", letters=None):
    global CUR_SET, CUR_ROUTE
    CUR_SET = tc_set
    CUR_ROUTE = route
    E = env()
    case = {"k": "history", "idxs": list(idxs), "tc_set": tc_set, "route": route, "letters": [letter_name(E["letters"][i]) for i in idxs][:40]}
    ctx.table("report_route", route)
    ctx.case(f"history/set={tc_set}/len={'<=4' if len(idxs) <= 4 else '5+'}" + ("" if route == "ctor" else f"/{route}"), (tc_set,) + tuple(idxs), nontrivial=any(E["letters"][i][0] == "add_tm" for i in idxs),
             sample=case if len(idxs) <= 12 else None)
    run_history(ctx, idxs, case, COVER)


KINDS = {"history": k_history, "many": k_many}


def selftest(ctx):
    m = VerifModel()
    assert m.add_tc(1) and not m.add_tc(1) and m.add_tm(2, 1) is None
    assert m.add_tm(1, 1)[0] is False and m.add_tm(1, 3)[0] is False and m.add_tm(1, 5, 1)[0] is False
    c, s = m.add_tm(1, 7)
    assert c and s["all"] and s["completed"] == SUCCESS and s["step_list"] == [1]
    m.remove_completed()
    assert m.d == {}
    ctx.selftest["ref.models.VerifModel nominal chain"] = 8


def run(ctx):
    r = ctx.rng
    E = env()
    n = len(E["letters"])
    assert n == 43
    depth = 3 if ctx.quick else 4
    for d in range(1, depth + 1):
        i = 0
        for hist in itertools.product(range(n), repeat=d):
            i += 1
            if ctx.mine(i):
                k_history(ctx, hist)
    ctx.exhaustive.append(f"all histories of length 1..{depth} over the 43-letter alphabet ({sum(43 ** d for d in range(1, depth + 1))} histories)")
    # the sets of nearly identical request ids: all histories to depth 2 (thorough: 3), then random ones
    for ts in (1, 2, 3, 4):
        for d in range(1, (2 if ctx.quick else 3) + 1):
            i = 0
            for hist in itertools.product(range(n), repeat=d):
                i += 1
                if ctx.mine(i):
                    k_history(ctx, hist, ts)
    ctx.exhaustive.append("all histories of length 1..2 (thorough: 3) for three further telecommand sets whose request ids differ in one high bit only")
    # reports that were parsed from octets (all parsed before any is fed): all histories to depth 2 (thorough: 3) per route
    for route in REPORT_ROUTES[1:]:
        for d in range(1, (2 if ctx.quick else 3) + 1):
            i = 0
            for hist in itertools.product(range(n), repeat=d):
                i += 1
                if ctx.mine(i):
                    k_history(ctx, hist, 0, route)
    ctx.exhaustive.append("all histories of length 1..2 (thorough: 3) with report objects parsed from packed octets (Service1Tm.unpack and Service1Tm.from_tm), parsed as a batch")
    # random long histories, biased towards registering first
    weights = [4 if L[0] == "add_tc" else 1 for L in E["letters"]]
    for j in range(ctx.n(800, 80_000)):
        ln = r.randrange(20, 201)
        k_history(ctx, r.choices(range(n), weights=weights, k=ln), j % 5, REPORT_ROUTES[(j // 5) % 3])
    for j in range(ctx.n(6, 300)):
        k_many(ctx, ctx.seed * 1_000_003 + ctx.shard[0] * 100_003 + j)
    ctx.extra["transitions_list"] = sorted([list(a), b] for a, b in COVER["transitions"])
    ctx.extra["abstract_state_space"] = {"states": 162, "transitions": 162 * 8}
    ctx.extra["states_list"] = sorted(list(s) for s in COVER["states"])


def conclude(ctx):
    # a nominal-chain-only run reaches 5 abstract states and 4 transitions
    states = ctx.extra.get("states_list", [])
    ctx.extra["abstract_states_visited"] = len(states)
    ctx.extra["state_input_transitions_exercised"] = len(ctx.extra.pop("transitions_list", []))
    ctx.require(len(states) > 30, f"only {len(states)} abstract states visited")
    ctx.require(len(ctx.tables.get("report_route", {})) == 3, "not every report construction route was exercised")
    for m in ("tracker.add_tc", "tracker.add_tm", "tracker.remove_entry", "tracker.remove_completed", "tracker.state", "tracker.isolation", "tracker.monotone",
              "tracker.completed_flag", "tracker.remove_exact"):
        ctx.require(ctx.monitors.get(m, {}).get("evaluations", 0) > 0, f"monitor {m} never evaluated")
