"""C13 - space-packet stream parser under arbitrary fragmentation (history checker vs a 12-line model)."""
from __future__ import annotations

import collections
import itertools
import random

from spverif.core.util import attempt, exc_sig
from spverif.ref import ccsds as H
from spverif.ref.models import split_stream

THOROUGH_SCALE = 8
ID = "C13"
LEVEL = "exploration"
SHARDS = {"quick": 1, "thorough": 16}
RULE = ("cases = histories (packet sequence with registered ids, set of cut positions, schedule of append/parse calls); exhaustive: "
        "every subset of cut positions of a 14-octet (quick) / 20-octet (thorough) stream x 4 schedules (parse after every "
        "append / after every 2nd / only at the end / twice after every append); random: streams up to 2 kB, 1-3 registered ids, "
        "packets of 7..40 octets incl. payloads containing registered ids, random cuts and schedules; garbage between packets is "
        "built so that no 16-bit window (incl. windows straddling its borders) masks to a registered id; after every parser call "
        "conservation (returned ++ queue == appended), exactly-once/order and idempotence are checked; non-trivial = at least one "
        "cut strictly inside a packet; distinct = distinct (stream, cut set, schedule)")
TRUSTED = ["CPython 3.12", "spverif.ref.models.split_stream (12 lines)"]
ASSUMPTIONS = ["single-threaded use of the caller-owned deque (append on the right, as documented)",
               "streams in the conservation check are garbage-free; with garbage only the returned packet list is checked"]
SCHEDULES = ("every", "every2", "end", "twice")
# total packet lengths whose length field (total - 7) or total sits on / next to a multiple of 256 ... 32768
BLOCK_SIZES = tuple(sorted({k * b + d for b in (256, 512, 1024, 4096, 16384, 32768) for k in (1, 2, 3) for d in (-1, 0, 1, 6, 7, 8) if 7 <= k * b + d <= 65542}))


def _sp():
    from spacepackets.ccsds import spacepacket as sp
    return sp


def run_history(ctx, stream: bytes, ids13, cuts, schedule, garbage_free, case, expected=None):
    sp = _sp()
    ids = [sp.PacketId.from_raw(i) for i in ids13]
    q = collections.deque()
    chunks = []
    prev = 0
    for c in list(cuts) + [len(stream)]:
        if c > prev:
            chunks.append(stream[prev:c])
            prev = c
    returned = []
    returned_objs = []          # the very objects the parser handed out (the caller keeps them while it goes on receiving)
    chunk_objs = []             # the caller's chunk buffers; once the parser has consumed one the caller re-uses it for the next read
    appended = bytearray()
    want_all = expected if expected is not None else split_stream(stream, set(ids13))[0]
    nparse = 0

    def parse(label):
        nonlocal nparse
        nparse += 1
        ok, res = attempt(sp.parse_space_packets, q, ids)
        ctx.ev("parser.call")
        if not ok:
            ctx.fail("parser.call", "raised", exc_sig(res), case, error=repr(res), at=label)
            return False
        returned.extend(bytes(p) for p in res)
        returned_objs.extend(res)
        # receive-buffer re-use: every chunk object the parser has taken out of the queue is overwritten by the caller
        in_queue = {id(x) for x in q}
        for cobj in chunk_objs:
            if id(cobj) not in in_queue and isinstance(cobj, bytearray) and len(cobj):
                for i_ in range(len(cobj)):
                    cobj[i_] ^= 0xFF
                ctx.table("receive_buffers_overwritten_after_consumption", "count")
        chunk_objs[:] = [c for c in chunk_objs if id(c) in in_queue]
        tail = b"".join(bytes(x) for x in q)
        if garbage_free:
            want_now, consumed = split_stream(bytes(appended), set(ids13))
            ctx.ev("parser.conservation")
            if b"".join(returned) + tail != bytes(appended):
                got_len = len(b"".join(returned)) + len(tail)
                lost = len(appended) - got_len
                rest = len(appended) - consumed
                tl = "0" if rest == 0 else "1-5" if rest < 6 else "6" if rest == 6 else "7+"
                kind = "lost_octets" if lost > 0 else "duplicated_octets" if lost < 0 else "reordered_octets"
                ctx.fail("parser.conservation", kind, f"incomplete_tail_len={tl}", case, at=label, appended=len(appended), returned=len(b"".join(returned)),
                         queue=len(tail), expected_tail=bytes(appended[consumed:]).hex()[:80], queue_content=tail.hex()[:80])
                return False
            ctx.ev("parser.exactly_once")
            if returned != want_now:
                how = "missing" if len(returned) < len(want_now) else "extra" if len(returned) > len(want_now) else "different"
                ctx.fail("parser.exactly_once", "returned_list_differs", how, case, at=label,
                         observed=[p.hex()[:40] for p in returned][:6], expected=[p.hex()[:40] for p in want_now][:6])
                return False
        else:
            # with filler between packets: the queue holds exactly the not-yet-complete tail - the filler in front of an incomplete
            # packet has been skipped, what stays is the start of that packet (or fewer than 6 octets that may still become one)
            want_now, consumed = split_stream(bytes(appended), set(ids13))
            ctx.ev("parser.queue_is_the_tail")
            if returned == want_now and tail != bytes(appended[consumed:]):
                ctx.fail("parser.queue_is_the_tail", "queue_differs_from_unconsumed_tail", "filler_retained" if len(tail) > len(appended) - consumed else "octets_missing", case, at=label,
                         queue=tail.hex()[:80], expected=bytes(appended[consumed:]).hex()[:80])
                return False
        return True

    variant = case.get("chunk_variant", 0)
    for i, ch in enumerate(chunks):
        # chunk objects as a receiver would produce them: bytearray (documented), bytes, and occasional empty reads
        if variant == 1 and i % 3 == 1:
            q.append(bytearray())
        cobj = bytes(ch) if variant == 2 and i % 2 else bytearray(ch)
        chunk_objs.append(cobj)
        q.append(cobj)
        if variant == 1 and i % 4 == 3:
            q.append(bytearray())
        appended.extend(ch)
        if schedule == "every" or (schedule == "every2" and i % 2 == 1) or schedule == "twice":
            if not parse(f"after_chunk_{i}"):
                return
            if schedule == "twice":
                before = (list(returned), b"".join(bytes(x) for x in q))
                if not parse(f"second_parse_after_chunk_{i}"):
                    return
                after = (list(returned), b"".join(bytes(x) for x in q))
                ctx.check("parser.idempotent", before == after, "second_parse_without_append_changed_state", "", case, at=i)
    if not parse("final"):
        return
    if not parse("final_again"):
        return
    ctx.check("parser.returned_objects_stable", [bytes(o) for o in returned_objs] == returned, "returned_packet_changed_after_the_caller_reused_its_buffer", "", case)
    ctx.ev("parser.final")
    if returned != want_all:
        how = "missing" if len(returned) < len(want_all) else "extra" if len(returned) > len(want_all) else "different"
        ctx.fail("parser.final", "final_packet_list_differs", f"garbage={'n' if garbage_free else 'y'}/{how}", case,
                 observed=[p.hex()[:40] for p in returned][:6], expected=[p.hex()[:40] for p in want_all][:6])
        return
    if garbage_free:
        tail = b"".join(bytes(x) for x in q)
        ctx.check("parser.final", b"".join(returned) + tail == stream, "final_conservation", "", case)


def cut_classes(stream, pkts, cuts):
    """Classes of cut positions relative to packet boundaries (for the evidence)."""
    out = set()
    bounds = []
    off = 0
    for p in pkts:
        bounds.append((off, off + len(p)))
        off += len(p)
    for c in cuts:
        for a, b in bounds:
            if a < c < b:
                rel = c - a
                out.add(f"in_header@{rel}" if rel < 6 else "after_header" if rel == 6 else "one_before_end" if c == b - 1 else "mid_payload")
            elif c == b and c != len(stream):
                out.add("packet_boundary")
    return out


def k_frag(ctx, packets, ids13, cuts, schedule, chunk_variant=0):
    pk = [bytes.fromhex(p) for p in packets]
    stream = b"".join(pk)
    case = {"k": "frag", "packets": packets, "ids13": ids13, "cuts": cuts, "schedule": schedule, "chunk_variant": chunk_variant}
    ctx.table("chunk_variant", ("bytearray", "with_empty_chunks", "bytes_and_bytearray")[chunk_variant])
    mx = max(map(len, pk))
    ctx.table("longest_packet", "7-40" if mx <= 40 else "41-519" if mx <= 519 else "520-65540" if mx < 65541 else "65541-65542")
    cc = cut_classes(stream, pk, cuts)
    for c in cc:
        ctx.table("cut_classes", c)
    inside = any(not c.startswith("packet_boundary") for c in cc)
    ctx.case(f"frag/{schedule}", (stream, tuple(cuts), schedule), nontrivial=inside, sample=case if len(stream) < 80 else None)
    run_history(ctx, stream, ids13, cuts, schedule, True, case, expected=pk)


def k_garbage(ctx, seed, schedule):
    r = random.Random(f"garbage/{seed}")
    ids13 = sorted({r.getrandbits(13) for _ in range(r.randrange(1, 4))})
    parts, pk = [], []
    for _ in range(r.randrange(1, 6)):
        g = make_garbage(r, ids13, r.choice((0, 1, 2, 3, 5, 9, 30)), parts[-1] if parts else b"")
        p = make_packet(r, ids13)
        # the garbage must not create a straddling window with the packet start either
        while g and ((g[-1] << 8 | p[0]) & 0x1FFF) in ids13:
            g = g[:-1] + bytes([r.getrandbits(8)])
            if len(g) >= 2 and ((g[-2] << 8 | g[-1]) & 0x1FFF) in ids13:
                g = g[:-1]
        parts += [g, p]
        pk.append(p)
    stream = b"".join(parts)
    cuts = sorted(r.sample(range(1, len(stream)), min(len(stream) - 1, r.randrange(0, 8)))) if len(stream) > 1 else []
    case = {"k": "garbage", "seed": seed, "schedule": schedule}
    model = split_stream(stream, set(ids13))[0]
    ctx.case(f"garbage/{schedule}", (stream, tuple(cuts)), sample=dict(case, stream=stream.hex()[:200], cuts=cuts))
    if model != pk:
        ctx.note("garbage generator produced an ambiguous stream (skipped)")
        return
    run_history(ctx, stream, ids13, cuts, schedule, False, case, expected=pk)


def make_packet(r, ids13, n=None):
    pid = r.choice(ids13)
    n = n if n is not None else r.choice((7, 7, 8, 9, 12, 13, 20, 40, r.randrange(7, 41)))
    data = bytearray(r.randbytes(n - 6))
    if len(data) >= 4 and r.random() < 0.15:
        from spverif.core.util import harvested_constants
        c = r.choice(harvested_constants())[:len(data)]
        k = r.randrange(0, len(data) - len(c) + 1)
        data[k:k + len(c)] = c          # payload carrying a marker / constant the code under test knows
    if len(data) >= 2 and r.random() < 0.3:
        k = r.randrange(0, len(data) - 1)
        data[k:k + 2] = (r.choice(ids13) | (r.getrandbits(3) << 13)).to_bytes(2, "big")   # payload that looks like a packet start
    w0 = pid | (r.getrandbits(3) << 13)
    return w0.to_bytes(2, "big") + r.getrandbits(16).to_bytes(2, "big") + (n - 7).to_bytes(2, "big") + bytes(data)


def make_garbage(r, ids13, n, prev: bytes):
    out = bytearray()
    last = prev[-1] if prev else None
    if n >= 2 and len(ids13) >= 2 and r.random() < 0.5:
        # octet pairs made of parts of two different registered ids (low octet of one, high octet of another, and the crossed
        # combination high(a) low(b)) - no registered id, but close to two of them
        a, b = r.sample(ids13, 2)
        for pair in ((a & 0xFF, (b >> 8) | (r.getrandbits(3) << 5)), ((a >> 8) | (r.getrandbits(3) << 5), b & 0xFF)):
            cand = bytes(pair)
            ok_ = (int.from_bytes(cand, "big") & 0x1FFF) not in ids13 and (last is None or ((last << 8 | cand[0]) & 0x1FFF) not in ids13)
            if ok_ and len(out) + 2 <= n:
                out += cand
                last = cand[1]
    for _ in range(n - len(out)):
        for _ in range(1000):
            b = r.getrandbits(8)
            if last is None or ((last << 8 | b) & 0x1FFF) not in ids13:
                break
        out.append(b)
        last = b
    return bytes(out)


def k_random(ctx, seed):
    r = random.Random(f"random/{seed}")
    ids13 = sorted({r.getrandbits(13) for _ in range(r.randrange(1, 4))})
    pk = []
    total = 0
    limit = r.choice((20, 60, 200, 2000))
    while total < limit and len(pk) < 80:
        p = make_packet(r, ids13)
        pk.append(p)
        total += len(p)
    if r.random() < 0.12:
        # one long packet (length field above one octet / at the 16-bit maximum) somewhere in the stream
        big = make_packet(r, ids13, r.choice((262, 263, 519, 4103, 65541, 65542) + BLOCK_SIZES))
        pk.insert(r.randrange(len(pk) + 1), big)
    stream = b"".join(pk)
    ncuts = r.choice((0, 1, 2, 3, 8, 30))
    cuts = sorted(r.sample(range(1, len(stream)), min(len(stream) - 1, ncuts)))
    if r.random() < 0.5 and len(pk) > 1:
        # aim cuts at the interesting places of a random packet
        i = r.randrange(len(pk))
        start = sum(len(p) for p in pk[:i])
        cuts = sorted(set(cuts) | {start + r.choice((1, 2, 3, 4, 5, 6, len(pk[i]) - 1))})
        cuts = [c for c in cuts if 0 < c < len(stream)]
    k_frag(ctx, [p.hex() for p in pk], ids13, cuts, r.choice(SCHEDULES), r.choice((0, 0, 1, 2)))


def k_objects(ctx, seed, schedule):
    """Streams made of packets packed by the library's own packet classes (PusTc, PusTm through every construction route, also with
    unusual primary headers, generic SpacePacket), with the parser given the packet ids *those objects report*."""
    from spacepackets.ecss.tc import PusTc, PusTcDataFieldHeader
    from spacepackets.ecss.tm import PusTm, PusTmSecondaryHeader
    sp = _sp()
    r = random.Random(f"objects/{seed}")
    case = {"k": "objects", "seed": seed, "schedule": schedule}
    objs = []
    for _ in range(r.randrange(1, 4)):
        kind = r.choice(("tc_ctor", "tc_composite", "tm_ctor", "tm_composite", "tm_unpacked", "space_packet"))
        apid, cnt, data = r.getrandbits(11), r.getrandbits(14), r.randbytes(r.randrange(1, 12))
        shf = bool(r.getrandbits(1))
        if kind == "tc_ctor":
            o = PusTc(service=r.getrandbits(8), subservice=r.getrandbits(8), apid=apid, seq_count=cnt, app_data=data)
        elif kind == "tc_composite":
            h = sp.SpacePacketHeader(sp.PacketType.TC, apid, cnt, len(data) + 6, shf, sp.SequenceFlags(r.getrandbits(2)), r.getrandbits(3))
            o = PusTc.from_composite_fields(h, PusTcDataFieldHeader(3, 4, 5, 6), data)
        elif kind == "tm_ctor":
            o = PusTm(service=17, subservice=2, timestamp=r.randbytes(r.choice((0, 7))), source_data=data, apid=apid, seq_count=cnt)
        elif kind in ("tm_composite", "tm_unpacked"):
            ts = r.randbytes(r.choice((0, 7)))
            h = sp.SpacePacketHeader(sp.PacketType.TM, apid, cnt, 7 + len(ts) + len(data) + 1, shf, sp.SequenceFlags(r.getrandbits(2)), r.getrandbits(3))
            o = PusTm.from_composite_fields(h, PusTmSecondaryHeader(5, 6, ts, 7, 8, 9), data)
            if kind == "tm_unpacked":
                o = PusTm.unpack(bytes(o.pack()), len(ts))
        else:
            h = sp.SpacePacketHeader(sp.PacketType(r.getrandbits(1)), apid, cnt, len(data) - 1, False, sp.SequenceFlags(r.getrandbits(2)))
            o = sp.SpacePacket(h, None, data)
        ctx.table("object_kinds", kind + ("" if kind in ("tc_ctor", "tm_ctor", "space_packet") else f"/shf={int(shf)}"))
        objs.append(o)
    pk = [bytes(o.pack()) for o in objs]
    ids = []
    for o in objs:
        pid = o.sp_header.packet_id if isinstance(o, sp.SpacePacket) else o.packet_id
        ids.append(pid)
    stream = b"".join(pk * r.choice((1, 2)))
    pk = pk * (len(stream) // max(1, len(b"".join(pk))))
    ids13 = sorted({int.from_bytes(p[:2], "big") & 0x1FFF for p in pk})
    ctx.case(f"objects/{schedule}", (stream, schedule), sample=dict(case, stream=stream.hex()[:160]))
    ctx.check("parser.ids_from_objects", sorted({i.raw() for i in ids}) == ids13, "reported_packet_id_differs_from_the_packed_header", "", case,
              observed=[hex(i.raw()) for i in ids], expected=[hex(i) for i in ids13])
    if split_stream(stream, set(ids13))[0] != pk:
        ctx.note("object stream ambiguous for the model (payload looks like a registered id): skipped")
        return
    cuts = sorted(r.sample(range(1, len(stream)), min(len(stream) - 1, r.randrange(0, 6))))
    # the parser gets the PacketId objects reported by the packets themselves
    q = collections.deque()
    returned, prev = [], 0
    for c in cuts + [len(stream)]:
        q.append(bytearray(stream[prev:c]))
        prev = c
        if schedule != "end":
            returned.extend(bytes(x) for x in sp.parse_space_packets(q, ids))
    returned.extend(bytes(x) for x in sp.parse_space_packets(q, ids))
    ctx.check("parser.ids_from_objects", returned == pk and not q, "packets_of_registered_objects_not_returned", "missing" if len(returned) < len(pk) else "different", case,
              observed=[x.hex()[:40] for x in returned][:6], expected=[x.hex()[:40] for x in pk][:6], cuts=cuts)


def k_two_queues(ctx, seed):
    """Two independent streams, each with its own analysis queue, handled alternately in one process: what the parser did
    for one queue (a split packet left behind, an abandoned stream) has no influence on the other."""
    sp = _sp()
    r = random.Random(f"twoq/{seed}")
    case = {"k": "two_queues", "seed": seed}
    ctx.case("two_queues", seed, sample=case)
    S = []
    for _ in range(2):
        ids13 = sorted({r.getrandbits(13) for _ in range(r.randrange(1, 3))})
        pk = [make_packet(r, ids13, r.choice((7, 9, 20, 40, 300))) for _ in range(r.randrange(1, 6))]
        stream = b"".join(pk)
        cuts = sorted(r.sample(range(1, len(stream)), min(len(stream) - 1, r.randrange(1, 8))))
        chunks, prev = [], 0
        for c in cuts + [len(stream)]:
            chunks.append(stream[prev:c])
            prev = c
        S.append({"ids13": ids13, "ids": [sp.PacketId.from_raw(i) for i in ids13], "pk": pk, "chunks": chunks, "q": collections.deque(), "got": [], "appended": bytearray()})
    abandon = r.random() < 0.3            # the first stream is sometimes given up half-way (its queue keeps a split packet for ever)
    while any(s_["chunks"] for s_ in S):
        i = r.randrange(2)
        s_ = S[i]
        if not s_["chunks"] or (abandon and i == 0 and len(s_["chunks"]) == 1):
            if abandon and i == 0 and len(s_["chunks"]) == 1:
                s_["chunks"] = []
            continue
        ch = s_["chunks"].pop(0)
        s_["q"].append(bytearray(ch))
        s_["appended"] += ch
        ok, res = attempt(sp.parse_space_packets, s_["q"], s_["ids"])
        ctx.ev("parser.queues_independent")
        if not ok:
            return ctx.fail("parser.queues_independent", "raised", exc_sig(res), case, error=repr(res))
        s_["got"].extend(bytes(x) for x in res)
        want, consumed = split_stream(bytes(s_["appended"]), set(s_["ids13"]))
        tail = b"".join(bytes(x) for x in s_["q"])
        if s_["got"] != want or tail != bytes(s_["appended"][consumed:]):
            return ctx.fail("parser.queues_independent", "stream_disturbed_by_the_other_queue", "missing" if len(s_["got"]) < len(want) else "different", case, stream=i,
                            observed=[x.hex()[:30] for x in s_["got"]][:5], expected=[x.hex()[:30] for x in want][:5])


def k_ids_reuse(ctx, seed):
    """The caller keeps ONE list of registered packet ids for the life of the process and edits it between calls (an id object
    changed in place, an entry replaced, ids added / removed): every call parses with the ids registered at that moment."""
    sp = _sp()
    r = random.Random(f"idsreuse/{seed}")
    case = {"k": "ids_reuse", "seed": seed}
    ctx.case("ids_reuse", seed, sample=case)
    ids13 = sorted({r.getrandbits(13) for _ in range(r.randrange(1, 4))})
    ids = [sp.PacketId.from_raw(i) for i in ids13]
    trail = []
    for rnd in range(r.randrange(2, 6)):
        if rnd:
            op = r.choice(("attr", "attr", "replace", "append", "pop", "none"))
            i = r.randrange(len(ids))
            if op == "attr":
                new = r.getrandbits(13)
                which = r.choice(("all", "apid", "ptype", "sec_header_flag", "sec_header_flag"))      # one attribute at a time: each must be honoured on its own
                if which in ("all", "apid"):
                    ids[i].apid = new & 0x7FF
                if which in ("all", "ptype"):
                    ids[i].ptype = sp.PacketType(new >> 12)
                if which in ("all", "sec_header_flag"):
                    ids[i].sec_header_flag = not ids[i].sec_header_flag if which != "all" else bool(new >> 11 & 1)
                op = f"attr:{which}"
            elif op == "replace":
                ids[i] = sp.PacketId.from_raw(r.getrandbits(13))
            elif op == "append":
                ids.append(sp.PacketId.from_raw(r.getrandbits(13)))
            elif op == "pop" and len(ids) > 1:
                ids.pop(i)
            trail.append(op)
            ctx.table("ids_list_edits", op)
        cur = sorted({(int(x.ptype) << 12) | (int(bool(x.sec_header_flag)) << 11) | x.apid for x in ids})       # from the attributes, not from the library's own raw()
        pk = [make_packet(r, cur, r.choice((7, 9, 20, 40))) for _ in range(r.randrange(1, 5))]
        stream = b"".join(pk)
        q = collections.deque([bytearray(stream)])
        ok, res = attempt(sp.parse_space_packets, q, ids)
        ctx.ev("parser.registered_ids_are_read_at_every_call")
        if not ok:
            return ctx.fail("parser.registered_ids_are_read_at_every_call", "raised", exc_sig(res), dict(case, trail=trail), error=repr(res))
        want, consumed = split_stream(stream, set(cur))
        got = [bytes(x) for x in res]
        if got != want:
            return ctx.fail("parser.registered_ids_are_read_at_every_call", "packets_of_currently_registered_ids_not_returned", "after_" + (trail[-1] if trail else "first_call"), dict(case, trail=trail),
                            observed=[x.hex()[:30] for x in got][:5], expected=[x.hex()[:30] for x in want][:5], ids=cur)


KINDS = {"ids_reuse": k_ids_reuse, "two_queues": k_two_queues, "objects": k_objects, "frag": k_frag, "garbage": k_garbage, "random": k_random}


def selftest(ctx):
    r = ctx.rng
    n = 0
    for _ in range(300):
        ids = sorted({r.getrandbits(13) for _ in range(2)})
        pk = [make_packet(r, ids) for _ in range(r.randrange(1, 6))]
        s = b"".join(pk)
        assert split_stream(s, set(ids)) == (pk, len(s))
        cut = r.randrange(0, len(s))
        got, used = split_stream(s[:cut], set(ids))
        assert b"".join(got) == s[:used] and got == pk[:len(got)]
        n += 2
    ctx.selftest["ref.models.split_stream on whole and truncated garbage-free streams"] = n


def run(ctx):
    r = ctx.rng
    # exhaustive: all cut subsets of a small stream
    n = 14 if ctx.quick else 20
    ids13 = [0x1801 & 0x1FFF, 0x0922 & 0x1FFF]
    if n == 14:
        pk = [make_packet(r, ids13, 7), make_packet(r, ids13, 7)]
    else:
        pk = [make_packet(r, ids13, 7), make_packet(r, ids13, 13)]
    stream_len = sum(map(len, pk))
    hexes = [p.hex() for p in pk]
    for mask in range(1 << (stream_len - 1)):
        if not ctx.mine(mask):
            continue
        cuts = [i + 1 for i in range(stream_len - 1) if mask >> i & 1]
        for sched in SCHEDULES:
            k_frag(ctx, hexes, ids13, cuts, sched)
    ctx.exhaustive.append(f"all 2^{stream_len - 1} cut-position subsets of a {stream_len}-octet two-packet stream x {len(SCHEDULES)} schedules")
    # every single cut and every pair of cuts of a three-packet stream with a 40-octet packet
    pk3 = [make_packet(r, ids13, 9), make_packet(r, ids13, 40), make_packet(r, ids13, 7)]
    L = sum(map(len, pk3))
    h3 = [p.hex() for p in pk3]
    i = 0
    for a in range(1, L):
        for sched in SCHEDULES:
            i += 1
            if ctx.mine(i):
                k_frag(ctx, h3, ids13, [a], sched)
    if not ctx.quick:
        for a, b in itertools.combinations(range(1, L), 2):
            i += 1
            if ctx.mine(i):
                k_frag(ctx, h3, ids13, [a, b], SCHEDULES[i % 4])
    for j in range(ctx.n(1500, 200_000)):
        k_random(ctx, ctx.seed * 1_000_003 + ctx.shard[0] * 100_003 + j)
    for j in range(ctx.n(600, 60_000)):
        k_two_queues(ctx, ctx.seed * 1_000_003 + ctx.shard[0] * 100_003 + j)
        k_ids_reuse(ctx, ctx.seed * 1_000_003 + ctx.shard[0] * 100_003 + j)
    for j in range(ctx.n(600, 60_000)):
        k_objects(ctx, ctx.seed * 1_000_003 + ctx.shard[0] * 100_003 + j, SCHEDULES[j % 4])
    for j in range(ctx.n(600, 60_000)):
        k_garbage(ctx, ctx.seed * 1_000_003 + ctx.shard[0] * 100_003 + j, SCHEDULES[j % 4])


def conclude(ctx):
    cc = ctx.tables.get("cut_classes", {})
    for c in ["in_header@1", "in_header@2", "in_header@3", "in_header@4", "in_header@5", "after_header", "mid_payload", "one_before_end", "packet_boundary"]:
        ctx.require(cc.get(c, 0) > 0, f"cut class {c} never observed")
    for m in ("parser.queues_independent", "parser.queue_is_the_tail", "parser.returned_objects_stable", "parser.ids_from_objects", "parser.call", "parser.conservation", "parser.exactly_once", "parser.final", "parser.idempotent"):
        ctx.require(ctx.monitors.get(m, {}).get("evaluations", 0) > 0, f"monitor {m} never evaluated")
    for s in SCHEDULES:
        ctx.require(ctx.classes.get(f"frag/{s}", 0) > 0 and ctx.classes.get(f"garbage/{s}", 0) > 0, f"schedule {s} not exercised")
