"""Helpers shared by the property modules."""
from __future__ import annotations

import traceback
from typing import Any, Callable, Tuple

_DOC = None


def documented_errors() -> tuple:
    """Exception classes a decoder may legitimately raise (DESIGN 4.5)."""
    global _DOC
    if _DOC is None:
        from spacepackets.ecss.tc import InvalidTcCrc16
        from spacepackets.ecss.tm import InvalidTmCrc16
        from spacepackets.cfdp.exceptions import InvalidCrc, TlvTypeMissmatch
        from spacepackets.cfdp.defs import UnsupportedCfdpVersion
        import spacepackets.uslp.defs as ud
        uslp = tuple(getattr(ud, n) for n in dir(ud) if n.startswith("Uslp") and isinstance(getattr(ud, n), type))
        _DOC = (ValueError, InvalidTcCrc16, InvalidTmCrc16, InvalidCrc, TlvTypeMissmatch, UnsupportedCfdpVersion) + uslp
    return _DOC


def attempt(fn: Callable, *a, **kw) -> Tuple[bool, Any]:
    """-> (True, result) or (False, exception)."""
    try:
        return True, fn(*a, **kw)
    except RecursionError:
        raise
    except Exception as e:  # noqa: BLE001 - the monitor classifies it
        return False, e


def raise_site(e: BaseException) -> str:
    """Name of the innermost spacepackets function on the traceback of e."""
    tb = e.__traceback__
    site = "?"
    while tb is not None:
        code = tb.tb_frame.f_code
        fn = code.co_filename
        if "spacepackets" in fn and "spverif" not in fn:
            q = getattr(code, "co_qualname", code.co_name)
            site = q
        tb = tb.tb_next
    return site


def exc_sig(e: BaseException) -> str:
    return f"{type(e).__name__}@{raise_site(e)}"


def tb_tail(e: BaseException, n=6) -> str:
    return "".join(traceback.format_exception(type(e), e, e.__traceback__)[-n:])[-1200:]


def pool_uint(bits: int, rng=None, extra=0):
    """Boundary pool for an unsigned field of `bits` bits."""
    m = (1 << bits) - 1
    s = {0, 1, m, m - 1 if m > 1 else 0, 1 << (bits - 1), (1 << (bits - 1)) - 1 if bits > 1 else 0}
    for k in range(bits):
        s.add(1 << k)
        s.add(m ^ (1 << k))
    if bits >= 16:
        s.update({0xFF, 0x100, 0xFFFF & m, 0x0102030405060708 & m, 0xA5A5A5A5A5A5A5A5 & m})
    if rng is not None:
        for _ in range(extra):
            s.add(rng.getrandbits(bits))
    return sorted(v for v in s if 0 <= v <= m)


def rand_uint(rng, bits: int) -> int:
    """Boundary-biased random unsigned value."""
    r = rng.random()
    m = (1 << bits) - 1
    if r < 0.08:
        return 0
    if r < 0.16:
        return m
    if r < 0.24:
        return 1 << rng.randrange(bits)
    if r < 0.30:
        return m ^ (1 << rng.randrange(bits))
    if r < 0.40:
        return rng.getrandbits(rng.randrange(1, bits + 1))
    return rng.getrandbits(bits)


def rand_bytes(rng, n: int) -> bytes:
    """Octet strings with data hazards mixed in: content that a strip / split / run-length / marker search / text decode /
    sign extension treats specially (about one string in four), uniform random octets otherwise."""
    r = rng.random()
    if r < 0.04:
        return bytes(n)
    if r < 0.08:
        return b"\xff" * n
    if n == 0 or r >= 0.26:
        return rng.randbytes(n)
    b = bytearray(rng.randbytes(n))
    k = rng.randrange(1, min(n, 4) + 1)
    h = int((r - 0.08) / 0.18 * 12)
    if h == 0:
        b[-k:] = bytes(k)                                   # trailing zeros
    elif h == 1:
        b[:k] = bytes(k)                                    # leading zeros
    elif h == 2:
        b[-k:] = rng.choice((b" ", b"\n", b"\r\n", b"\t"))[:1] * k  # trailing white space
    elif h == 3:
        b[:k] = b"\xff" * k                                 # high bit set in front (sign extension)
    elif h == 4:
        b[:] = bytes([rng.getrandbits(8)]) * n              # one octet repeated
    elif h == 5:
        m = b"cfdp"                                         # a marker the code under test knows, somewhere inside
        i = rng.randrange(0, max(1, n - len(m) + 1))
        b[i:i + len(m)] = m[:n - i]
    elif h == 6:
        b[:] = (b"printable ASCII text 0123456789 " * (n // 32 + 1))[:n]
    elif h == 7:
        mark = rng.choice((b"\xef\xbb\xbf", b"\xfe\xff", b"\x1a\xcf\xfc\x1d"))[:k]          # byte-order marks / sync marker in front
        b[:len(mark)] = mark
    elif h == 8:
        b[-1] = rng.choice((0x00, 0x80, 0x7F, 0xFF))        # a particular last octet
    elif h == 9:
        b[0] = rng.choice((0x00, 0x80, 0x7F, 0xFF, 0x20, 0x40))
    elif h == 10 and n >= 2:
        from spverif.ref.crc import crc16                   # data that end with the CRC-16 of what precedes them
        b[-2:] = crc16(bytes(b[:-2])).to_bytes(2, "big")
    else:
        b[:] = bytes((i * 17 + 3) & 0xFF for i in range(n))  # arithmetic pattern
    assert len(b) == n
    return bytes(b)


def rand_len(rng, maxlen: int) -> int:
    r = rng.random()
    if r < 0.15:
        return 0
    if r < 0.30:
        return rng.randrange(0, min(4, maxlen) + 1)
    if r < 0.40:
        return maxlen
    if r < 0.50:
        return max(0, maxlen - rng.randrange(0, 3))
    return rng.randrange(0, maxlen + 1)


NAMES = ["", "a", "/tmp/test.txt", "dir/子/ファイル.bin", "ü", "x" * 64, "é" * 100, "\U0001F680rocket", "a b\tc"]
# text hazards: strings that a codec option, a normalisation, a strip()/lower()/split() or a marker search treats specially
HAZARD_NAMES = ["\ufefffile.txt", "a\ufeffb", "\ufeff", " lead.txt", "trail.txt ", "\ttab", "nl\n", "a\x00b", "\x00", "e\u0301.txt", "\u00e9.txt", "\u2028sep", "\x85nel",
                "UPPER/Case.TXT", "back\\slash", "/home/cfdp/x.bin", "cfdp", "xcfdpcfdp", "./a/../b", "trailing/", "//double", "%41%00", "a;b|c&d", "\u00a0nbsp", "\U0010ffff",
                "\u0130I\u0131", "\ufb01ligature", "'quote\"", "name.", ".hidden", "~", "-", "0", "None", "\\x00"]


def rand_name(rng, maxbytes=255) -> str:
    r = rng.random()
    if r < 0.2:
        s = rng.choice(HAZARD_NAMES)
    elif r < 0.5:
        s = rng.choice(NAMES)
    elif r < 0.7:
        s = "".join(rng.choice("abc/._-xyzXYZ0189") for _ in range(rng.randrange(0, 40)))
    elif r < 0.9:
        s = "".join(chr(rng.choice([0x61, 0xE9, 0x4E2D, 0x1F600, 0x7F, 0x20AC])) for _ in range(rng.randrange(0, 30)))
    else:
        s = "n" * rng.randrange(0, maxbytes + 1)
    while len(s.encode()) > maxbytes:
        s = s[:-1]
    return s


def block_boundary_sizes(overheads, limit, quick=True):
    """Payload sizes n for which n + overhead (for each overhead in `overheads`) is just below / exactly / just above a
    multiple of a power-of-two block size (256 ... 32768).  Chunked or buffered processing slips show up only there."""
    out = set()
    ks = (1, 2, 3) if quick else (1, 2, 3, 4, 5, 7, 8, 15, 16)
    for b in (256, 512, 1024, 2048, 4096, 8192, 16384, 32768):
        for k in ks:
            for ov in overheads:
                for d in (-1, 0, 1):
                    n = k * b - ov + d
                    if 0 <= n <= limit:
                        out.add(n)
    return sorted(out)


def harvested_constants(prefix="spacepackets"):
    """Octet strings found at run time in the module globals and class attributes of the tree under test (markers, magic
    numbers, tables): bytes / bytearray values of 2..16 octets, integers >= 256 in their 2-, 4- and 8-octet big-endian forms,
    short str values encoded as UTF-8.  Decoders are fed inputs that start with / contain them - a value the code itself compares
    against is where a special case hides (the dictionary idea of fuzzers, taken from the live objects instead of the source)."""
    import sys
    out = set()

    def add(v):
        if isinstance(v, (bytes, bytearray)) and 2 <= len(v) <= 16:
            out.add(bytes(v))
        elif isinstance(v, bool):
            return
        elif isinstance(v, int) and 256 <= v < 1 << 64:
            for w in (2, 4, 8):
                if v < 1 << 8 * w:
                    out.add(v.to_bytes(w, "big"))
                    break
        elif isinstance(v, str) and 2 <= len(v) <= 8 and v.isascii():
            out.add(v.encode())
        elif isinstance(v, (tuple, list, frozenset, set)) and len(v) <= 64:
            for x in v:
                if not isinstance(x, (tuple, list, set, frozenset, dict)):
                    add(x)
        elif isinstance(v, dict) and len(v) <= 64:
            for k, x in v.items():
                add(k)
                if not isinstance(x, (tuple, list, set, frozenset, dict)):
                    add(x)

    for name, mod in list(sys.modules.items()):
        if not name.startswith(prefix) or mod is None:
            continue
        for k, v in list(vars(mod).items()):
            if k.startswith("__"):
                continue
            add(v)
            if isinstance(v, type) and getattr(v, "__module__", "") == name:
                for kk, vv in list(vars(v).items()):
                    if not kk.startswith("__"):
                        add(vv)
    # link-layer markers every CCSDS implementer knows (attached sync markers of 131.0-B), kept as a fixed supplement
    out.update({bytes.fromhex("1acffc1d"), bytes.fromhex("352ef853"), bytes.fromhex("eb90"), bytes.fromhex("034776c7272895b0"), b"cfdp"})
    return sorted(out)


def hist_len(rng, lo, hi):
    """Length of a history: usually lo..hi-1, but every 25th history or so is long (20 ... 400 steps) - counters, growing
    lists, caches that fill up and thresholds that switch an algorithm only show in long ones."""
    if rng.random() < 0.04:
        return rng.choice((20, 33, 65, 130, 257, 400))
    return rng.randrange(lo, hi)
