"""Run context: counters, verdicts, evidence, replay files, known findings.

One Ctx per process.  A check either runs in one process (quick tiers) or as a
parent that starts shard processes and merges their partial results (thorough
tiers).  Everything a monitor observes goes through this object so that the
evidence file reports measured numbers only.
"""
from __future__ import annotations

import hashlib
import json
import os
import random
import re
import sys
import time
import traceback
from collections import Counter
from typing import Any, Callable, Dict, List, Optional

VERIF_ROOT = os.path.dirname(os.path.dirname(os.path.dirname(os.path.abspath(__file__))))
KNOWN_FINDINGS = os.path.join(VERIF_ROOT, "KNOWN_FINDINGS.txt")
DISTINCT_CAP = 400_000          # digests kept per process (counted conservatively beyond)
MAX_WITNESS_PER_SIG = 3


class Inconclusive(Exception):
    pass


def hx(b) -> str:
    return bytes(b).hex()


def unhx(s: str) -> bytes:
    return bytes.fromhex(s)


def jsonable(x):
    if isinstance(x, (bytes, bytearray, memoryview)):
        return {"hex": bytes(x).hex()}
    if isinstance(x, dict):
        return {str(k): jsonable(v) for k, v in x.items()}
    if isinstance(x, (list, tuple, set, frozenset)):
        return [jsonable(v) for v in x]
    if isinstance(x, (int, float, str, bool)) or x is None:
        return x
    return repr(x)


class Ctx:
    def __init__(self, prop: str, tier: str, seed: int, shard=(0, 1), replaying=False, scale: float = 1.0):
        self.scale = float(os.environ.get("SPV_THOROUGH_SCALE") or scale)       # multiplies the random-case budgets of the thorough tier
        self.prop = prop
        self.tier = tier
        self.seed = seed
        self.shard = shard
        self.replaying = replaying
        self.rng = random.Random((seed * 1_000_003 + shard[0] * 7919 + 17) & 0xFFFFFFFFFFFF)
        self.t0 = time.time()
        self.evaluations = 0
        self.monitors: Dict[str, Dict[str, int]] = {}
        self.classes: Counter = Counter()
        self.info: Counter = Counter()
        self.tables: Dict[str, Counter] = {}
        self.distinct: set = set()
        self.distinct_overflow = 0
        self.samples: List[Any] = []
        self._samples_per_class: Counter = Counter()
        self.violations: Dict[str, Dict[str, Any]] = {}
        self.inconclusive: List[str] = []
        self.selftest: Dict[str, int] = {}
        self.exhaustive: List[str] = []
        self.extra: Dict[str, Any] = {}

    # ------------------------------------------------------------------ tiers
    @property
    def quick(self) -> bool:
        return self.tier == "quick"

    def n(self, quick: int, thorough: int) -> int:
        """Case budget for this process (thorough budgets are divided over shards)."""
        if self.quick:
            qs = os.environ.get("SPV_QUICK_SCALE")           # the environment pass runs the quick workload with smaller random parts
            return max(1, int(quick * float(qs))) if qs else quick
        return max(1, int(thorough * self.scale) // self.shard[1])

    def mine(self, i: int) -> bool:
        """True if item i of an enumerated space belongs to this shard."""
        return i % self.shard[1] == self.shard[0]

    # --------------------------------------------------------------- counting
    def ev(self, monitor: str, n: int = 1):
        m = self.monitors.get(monitor)
        if m is None:
            m = self.monitors[monitor] = {"evaluations": 0, "violations": 0}
        m["evaluations"] += n
        self.evaluations += n

    def case(self, cls: str, key=None, nontrivial: bool = True, sample=None):
        self.classes[cls] += 1
        if nontrivial and key is not None:
            if len(self.distinct) < DISTINCT_CAP:
                try:
                    hv = hash((cls, key))
                except TypeError:
                    hv = hash((cls, repr(key)))
                self.distinct.add(hv & 0xFFFFFFFFFFFFFFFF)
            else:
                self.distinct_overflow += 1
        if sample is not None and self._samples_per_class[cls] < 2 and len(self.samples) < 60:
            self._samples_per_class[cls] += 1
            self.samples.append({"class": cls, "case": jsonable(sample)})

    def table(self, name: str, key, n: int = 1):
        t = self.tables.get(name)
        if t is None:
            t = self.tables[name] = Counter()
        t[str(key)] += n

    def note(self, key: str, n: int = 1):
        """Informational observation: reported, never a violation."""
        self.info[key] += n

    # ------------------------------------------------------------- violations
    def fail(self, monitor: str, relation: str, features: str, case: Optional[dict], **witness):
        sig = f"{self.prop}/{monitor}/{relation}/{features}"
        m = self.monitors.setdefault(monitor, {"evaluations": 0, "violations": 0})
        m["violations"] += 1
        v = self.violations.get(sig)
        if v is None:
            v = self.violations[sig] = {"signature": sig, "count": 0, "witnesses": []}
        v["count"] += 1
        if len(v["witnesses"]) < MAX_WITNESS_PER_SIG:
            if os.environ.get("SPV_ENVPASS"):
                witness = dict(witness, observed_in_environment=os.environ["SPV_ENVPASS"])
            v["witnesses"].append({"case": jsonable(case), **{k: jsonable(x) for k, x in witness.items()}})
        return False

    def check(self, monitor: str, ok: bool, relation: str, features: str, case, **witness) -> bool:
        self.ev(monitor)
        if not ok:
            self.fail(monitor, relation, features, case, **witness)
        return ok

    def inconc(self, reason: str):
        if reason not in self.inconclusive:
            self.inconclusive.append(reason)

    def require(self, cond: bool, reason: str):
        if not cond:
            self.inconc(reason)

    # ---------------------------------------------------------------- partial
    def partial(self) -> dict:
        return {
            "evaluations": self.evaluations,
            "monitors": self.monitors,
            "classes": dict(self.classes),
            "info": dict(self.info),
            "tables": {k: dict(v) for k, v in self.tables.items()},
            "distinct": sorted(self.distinct),
            "distinct_overflow": self.distinct_overflow,
            "samples": self.samples,
            "violations": self.violations,
            "inconclusive": self.inconclusive,
            "selftest": self.selftest,
            "exhaustive": self.exhaustive,
            "extra": self.extra,
        }

    def merge(self, p: dict):
        self.evaluations += p["evaluations"]
        for k, m in p["monitors"].items():
            d = self.monitors.setdefault(k, {"evaluations": 0, "violations": 0})
            d["evaluations"] += m["evaluations"]
            d["violations"] += m["violations"]
        self.classes.update(p["classes"])
        self.info.update(p["info"])
        for k, t in p["tables"].items():
            self.tables.setdefault(k, Counter()).update(t)
        self.distinct.update(p["distinct"])
        self.distinct_overflow += p["distinct_overflow"]
        for s in p["samples"]:
            if len(self.samples) < 60:
                self.samples.append(s)
        for sig, v in p["violations"].items():
            d = self.violations.setdefault(sig, {"signature": sig, "count": 0, "witnesses": []})
            d["count"] += v["count"]
            for w in v["witnesses"]:
                if len(d["witnesses"]) < MAX_WITNESS_PER_SIG:
                    d["witnesses"].append(w)
        for r in p["inconclusive"]:
            self.inconc(r)
        for k, n in p["selftest"].items():
            self.selftest[k] = self.selftest.get(k, 0) + n
        for e in p["exhaustive"]:
            if e not in self.exhaustive:
                self.exhaustive.append(e)
        for k, v in p["extra"].items():
            if isinstance(v, (int, float)) and isinstance(self.extra.get(k), (int, float)):
                self.extra[k] = self.extra[k] + v
            elif isinstance(v, list) and isinstance(self.extra.get(k), list):
                self.extra[k] = sorted(set(map(json.dumps, self.extra[k])) | set(map(json.dumps, v)))
                self.extra[k] = [json.loads(x) for x in self.extra[k]]
            elif isinstance(v, dict) and isinstance(self.extra.get(k), dict):
                for kk, vv in v.items():
                    if isinstance(vv, (int, float)):
                        self.extra[k][kk] = self.extra[k].get(kk, 0) + vv
                    else:
                        self.extra[k][kk] = vv
            else:
                self.extra[k] = v


# ---------------------------------------------------------------- known findings
def load_known_findings() -> Dict[str, dict]:
    out: Dict[str, dict] = {}
    if not os.path.exists(KNOWN_FINDINGS):
        return out
    with open(KNOWN_FINDINGS) as f:
        for line in f:
            line = line.strip()
            if not line.startswith("{"):
                continue        # comments and "fixed: ..." records suppress nothing
            rec = json.loads(line)
            if rec.get("status") == "finding":
                out[rec["signature"]] = rec
    return out


def repo_state(repo: str) -> dict:
    import subprocess
    try:
        head = subprocess.run(["git", "-C", repo, "rev-parse", "HEAD"], capture_output=True, text=True, timeout=20).stdout.strip()
        diff = subprocess.run(["git", "-C", repo, "diff", "HEAD", "--", "spacepackets"], capture_output=True, timeout=20).stdout
        return {"head": head, "diff_sha256": hashlib.sha256(diff).hexdigest(), "dirty": bool(diff)}
    except Exception as e:  # pragma: no cover
        return {"head": "unknown", "error": repr(e)}


def finish(ctx: Ctx, mod, repo: str) -> int:
    """Print verdict lines, write evidence and replay files, return exit code."""
    known = load_known_findings()
    matched = []
    unlisted = []
    for sig, v in sorted(ctx.violations.items()):
        if sig in known:
            matched.append(sig)
            print(f"KNOWN-FINDING: property={ctx.prop} {known[sig].get('what', sig)} [{sig}] (observed {v['count']}x)")
        else:
            unlisted.append(sig)
    state = repo_state(repo)
    for sig in unlisted:
        v = ctx.violations[sig]
        slug = re.sub(r"[^A-Za-z0-9_.=-]+", "_", sig)[:120]
        h = hashlib.sha256(json.dumps(v["witnesses"][0], sort_keys=True).encode()).hexdigest()[:10]
        d = os.path.join(os.environ.get("SPV_OUT") or VERIF_ROOT, "replays", ctx.prop)
        os.makedirs(d, exist_ok=True)
        path = os.path.join(d, f"{slug}-{h}.json")
        with open(path, "w") as f:
            json.dump({"property": ctx.prop, "signature": sig, "count": v["count"], "tier": ctx.tier,
                       "seed": ctx.seed, "repo": state, "witnesses": v["witnesses"]}, f, indent=1)
        w = v["witnesses"][0]
        brief = {k: w[k] for k in w if k != "case"}
        print(f"VIOLATION property={ctx.prop} replay={path}")
        print(f"  signature={sig} count={v['count']} witness={json.dumps(brief)[:400]}")
    if not ctx.replaying:
        write_evidence(ctx, mod, matched, unlisted, state)
    if unlisted:
        return 1
    if ctx.inconclusive:
        for r in ctx.inconclusive:
            print(f"INCONCLUSIVE property={ctx.prop} reason={r}")
        return 2
    nd = len(ctx.distinct)
    print(f"HELD property={ctx.prop} tier={ctx.tier} seed={ctx.seed} evaluations={ctx.evaluations} "
          f"distinct_nontrivial={nd} monitors={len(ctx.monitors)} known_findings={len(matched)} "
          f"wall_s={time.time() - ctx.t0:.1f}")
    return 0


def write_evidence(ctx: Ctx, mod, matched, unlisted, state):
    cov = {
        "evaluations": ctx.evaluations,
        "distinct_nontrivial": len(ctx.distinct),
        "rule": getattr(mod, "RULE", ""),
        "samples": ctx.samples[:40] if ctx.samples else [],
        "exhaustive": False,
        "exhaustive_subspaces": ctx.exhaustive,
        "monitors": ctx.monitors,
        "classes": dict(sorted(ctx.classes.items())),
        "tables": {k: dict(sorted(v.items())) for k, v in sorted(ctx.tables.items())},
        "informational": dict(sorted(ctx.info.items())),
        "oracle_selftest": ctx.selftest,
        "inconclusive_reasons": ctx.inconclusive,
        "known_findings_matched": matched,
        "unlisted_violation_signatures": unlisted,
        "distinct_counted_conservatively_beyond_cap": ctx.distinct_overflow,
        "trusted_base": getattr(mod, "TRUSTED", []),
        "repo": state,
        "shards": ctx.shard[1],
    }
    cov.update(ctx.extra)
    ev = {
        "property_id": ctx.prop,
        "tier": ctx.tier,
        "seed": ctx.seed,
        "level": getattr(mod, "LEVEL", "exploration"),
        "coverage": cov,
        "assumptions": getattr(mod, "ASSUMPTIONS", []),
        "wall_s": round(time.time() - ctx.t0, 2),
        "violations": len(unlisted),
    }
    d = os.path.join(os.environ.get("SPV_OUT") or VERIF_ROOT, "evidence")
    os.makedirs(d, exist_ok=True)
    tmp = os.path.join(d, f".{ctx.prop}.json.tmp")
    with open(tmp, "w") as f:
        json.dump(ev, f, indent=1, sort_keys=False)
        f.write("\n")
    os.replace(tmp, os.path.join(d, f"{ctx.prop}.json"))
