"""Run the repository's test-suite (tests + doctests) under the online contracts and merge what they observed."""
from __future__ import annotations

import json
import os
import subprocess
import sys
import tempfile

from spverif.core import repo as repo_mod
from spverif.core.ctx import VERIF_ROOT


def run_suite_under_contracts(ctx, timeout=900):
    """Merge the contract monitors that belong to ctx.prop; returns the raw result dict (or None)."""
    repo = os.path.abspath(repo_mod.REPO)
    fd, out = tempfile.mkstemp(prefix="spv-suite-", suffix=".json")
    os.close(fd)
    env = dict(os.environ, PYTHONPATH=VERIF_ROOT, SPACEPACKETS_VERIF="1", SPV_PLUGIN_OUT=out, PYTHONDONTWRITEBYTECODE="1", PYTHONHASHSEED="0")
    try:
        try:
            p = subprocess.run([sys.executable, "-m", "pytest", "-q", "-p", "no:cacheprovider", "-p", "spverif.pytest_plugin", "--timeout=900"],
                               cwd=repo, env=env, capture_output=True, text=True, timeout=timeout)
        except subprocess.TimeoutExpired:
            ctx.inconc("test-suite under contracts timed out")
            return None
        try:
            with open(out) as f:
                d = json.load(f)
        except Exception:
            ctx.inconc("test-suite under contracts produced no recorder file: " + (p.stdout + p.stderr)[-300:])
            return None
    finally:
        try:
            os.unlink(out)
        except OSError:
            pass
    if not d.get("tree", "").startswith(repo):
        ctx.inconc(f"test-suite under contracts imported spacepackets from {d.get('tree')}")
        return d
    prefix = ctx.prop + ":"
    mine = {k: v for k, v in d["monitors"].items() if k.startswith(prefix)}
    for k, v in mine.items():
        name = "suite:" + k.split(":", 1)[1]
        m = ctx.monitors.setdefault(name, {"evaluations": 0, "violations": 0})
        m["evaluations"] += v["evaluations"]
        ctx.evaluations += v["evaluations"]
    for sig, v in d["violations"].items():
        if sig.startswith(ctx.prop + "/"):
            sig2 = sig.replace(ctx.prop + "/", ctx.prop + "/suite:", 1)
            dst = ctx.violations.setdefault(sig2, {"signature": sig2, "count": 0, "witnesses": []})
            dst["count"] += v["count"]
            for w in v["witnesses"]:
                if len(dst["witnesses"]) < 3:
                    dst["witnesses"].append({"case": None, **w})
            name = "suite:" + sig.split("/")[1]
            ctx.monitors.setdefault(name, {"evaluations": 0, "violations": 0})["violations"] += v["count"]
    ctx.extra["suite_under_contracts"] = {"tests_collected": d.get("testscollected"), "tests_failed": d.get("testsfailed"), "exitstatus": d.get("exitstatus"),
                                          "callables_wrapped": d.get("wrapped"), "contract_evaluations_for_this_property": sum(v["evaluations"] for v in mine.values()),
                                          "skipped_precondition_false": {k: v for k, v in d.get("skipped", {}).items() if k.startswith(prefix)}}
    if d.get("testsfailed"):
        ctx.note(f"{d['testsfailed']} test(s) of the repository suite failed while running under contracts")
    return d
