"""Import the package under test from the working tree (never from a build)."""
from __future__ import annotations

import os
import sys

REPO = os.environ.get("SPV_REPO", "/repo")


def setup_repo_import() -> str:
    repo = os.path.abspath(REPO)
    # /venv holds an editable install whose meta-path finder maps `spacepackets`
    # to /repo; drop it so that SPV_REPO (scratch copies for mutants) is honoured
    # and the sources are always read from the tree we name.
    sys.meta_path[:] = [f for f in sys.meta_path if "editable" not in getattr(f, "__module__", "") and "Editable" not in type(f).__name__ and "Editable" not in getattr(f, "__name__", "")]
    if repo in sys.path:
        sys.path.remove(repo)
    sys.path.insert(0, repo)
    for name in list(sys.modules):
        if name == "spacepackets" or name.startswith("spacepackets."):
            del sys.modules[name]
    import spacepackets  # noqa

    f = os.path.abspath(spacepackets.__file__)
    if not f.startswith(repo + os.sep):
        raise RuntimeError(f"spacepackets imported from {f}, expected under {repo}")
    return repo
