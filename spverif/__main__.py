"""python -m spverif <ID> <quick|thorough> [--replay path] [--shard i/n --out file]"""
from __future__ import annotations

import argparse
import importlib
import json
import os
import signal
import subprocess
import sys
import tempfile
import shutil
import time

from spverif.core.ctx import Ctx, finish, VERIF_ROOT
from spverif.core import repo as repo_mod

SUITE_PROPS = {"C01", "C02", "C03", "C04", "C05", "C06", "C07", "C08", "C10", "C11", "C12", "C13", "C14", "C15", "C16", "C17", "C19", "C20"}   # properties with online contracts
SHARD_TIMEOUT_S = 3000       # generous wall-clock watchdog: firing => inconclusive
QUICK_TIMEOUT_S = 900


def _watchdog(prop, secs):
    def handler(signum, frame):
        print(f"INCONCLUSIVE property={prop} reason=wall-clock watchdog fired after {secs}s")
        sys.stdout.flush()
        os._exit(2)
    signal.signal(signal.SIGALRM, handler)
    signal.alarm(secs)


def _enc(x):
    if isinstance(x, (bytes, bytearray)):
        return {"__b": bytes(x).hex()}
    if isinstance(x, (list, tuple)):
        return [_enc(v) for v in x]
    if isinstance(x, dict):
        return {"__d": [[_enc(k), _enc(v)] for k, v in x.items()]}
    if isinstance(x, (int, float, str, bool)) or x is None:
        return x
    raise TypeError(type(x).__name__)


def _dec(x):
    if isinstance(x, dict):
        if "__b" in x:
            return bytes.fromhex(x["__b"])
        return {_dec(k): _dec(v) for k, v in x["__d"]}
    if isinstance(x, list):
        return [_dec(v) for v in x]
    return x


def classify_exception(ctx, e, where="workload"):
    """A step the workload expected to succeed raised.  If the exception was raised by the code under test it is a violation
    witness (the workload only performs operations the property says are valid); if it comes from the harness itself the run is
    inconclusive, never "held"."""
    import traceback
    from spverif.core.util import raise_site, tb_tail
    tb = traceback.extract_tb(e.__traceback__)
    root = os.path.abspath(repo_mod.REPO).rstrip("/") + "/"
    # the innermost frame that belongs either to the tree under test or to the harness decides (an exception raised inside the
    # standard library - struct, os.fsencode, codecs - is attributed to whoever called it)
    inner = ""
    for fr in reversed(tb):
        if fr.filename.startswith(root) or fr.filename.startswith(VERIF_ROOT.rstrip("/") + "/"):
            inner = fr.filename
            break
    none_from_library = isinstance(e, (AttributeError, TypeError)) and "NoneType" in str(e)
    if none_from_library and not inner.startswith(root):
        # the workload used a result of the code under test that turned out to be None where the API documents an object
        # (a helper that lost its return statement): witness of a violation, not a defect of the harness
        ctx.fail(where, "library_result_is_none_where_an_object_is_documented", f"{type(e).__name__}@{tb[-1].name if tb else '?'}", None, error=repr(e), traceback=tb_tail(e, 8))
    elif inner.startswith(root):
        ctx.fail(where, "valid_operation_raised", f"{type(e).__name__}@{raise_site(e)}", None, error=repr(e), traceback=tb_tail(e, 8))
    else:
        ctx.inconc(f"harness error {type(e).__name__}: {e!r} at {tb[-1].filename.split('/')[-1] if tb else '?'}:{tb[-1].lineno if tb else 0}")
        sys.stderr.write(tb_tail(e, 10))


def cold_start_permutations(prop, tier, recorded, ctx, max_orders=9):
    """The first case of every kind again, each ordering in a *fresh interpreter*: state that is set up lazily by whichever
    public function happens to run first (a table built on first use, a default captured at first call) must not matter."""
    first, later = {}, []
    for gname, a, k in recorded:
        try:
            c = [gname, _enc(a), _enc(k)]
        except TypeError:
            continue
        if gname not in first:
            first[gname] = c
        elif sum(1 for x in later if x[0] == gname) < 2:
            later.append(c)                    # two more cases of every kind, run after the first ones (they see the other environments too)
    cases = list(first.values())[:12]
    if len(cases) < 2:
        return
    # every kind goes first once (up to nine fresh processes), the rest follows in rotated order; plus the reversed order
    orders = ([cases[i:] + cases[:i] for i in range(1, min(len(cases), max_orders))] + [list(reversed(cases))])[:max_orders]
    tmp = tempfile.mkdtemp(prefix=f"spv-cold-{prop}-")
    try:
        for i, order in enumerate(orders):
            cf, of = os.path.join(tmp, f"c{i}.json"), os.path.join(tmp, f"o{i}.json")
            with open(cf, "w") as f:
                json.dump(order + later[:24], f)
            # ... and each fresh interpreter in another environment: optimised mode (assert statements and __debug__ blocks are
            # gone: validation must not live in them), another local time zone (calendar code must not depend on it), another
            # string-hash seed (set / dict iteration orders change)
            env = dict(os.environ, PYTHONHASHSEED=str(1 + 7919 * i))
            flags = []
            label = "hashseed"
            if i % 3 == 1:
                flags, label = ["-O"], "python -O"
            elif i % 3 == 2:
                env["TZ"] = ("Pacific/Kiritimati", "America/St_Johns", "Asia/Kathmandu")[(i // 3) % 3]
                label = "TZ=" + env["TZ"]
            envs = ctx.extra.setdefault("cold_start_environments", {})
            envs[label] = envs.get(label, 0) + 1
            try:
                p = subprocess.run([sys.executable, "-X", "dev", "-W", "ignore"] + flags + ["-m", "spverif", prop, tier, "--cases", cf, "--out", of],
                                   capture_output=True, text=True, cwd=VERIF_ROOT, timeout=900, env=env)
            except subprocess.TimeoutExpired:
                ctx.inconc("cold-start permutation timed out")
                continue
            if p.returncode != 0 or not os.path.exists(of):
                ctx.inconc(f"cold-start permutation {i} exited {p.returncode}: {(p.stdout + p.stderr)[-400:]!r}")
                continue
            with open(of) as f:
                part = json.load(f)
            part["extra"] = {}
            for reason in part.pop("inconclusive", []):
                ctx.inconc("cold start: " + reason)
            part["inconclusive"] = []
            ctx.merge(part)
            ctx.extra["cold_start_processes"] = ctx.extra.get("cold_start_processes", 0) + 1
            ctx.extra["cold_start_cases"] = ctx.extra.get("cold_start_cases", 0) + len(order)
    finally:
        shutil.rmtree(tmp, ignore_errors=True)


ENVPASS = {"flags": ["-O"], "TZ": "America/St_Johns", "PYTHONHASHSEED": "4242", "LC_ALL": "C", "PYTHONUTF8": "0"}


def environment_pass(prop, seed, ctx):
    """The quick workload once more (random parts at a third of their size, another seed) in an interpreter that differs from
    the one the test-suite and the main pass use in everything a library must not depend on: optimised mode (`python -O`:
    assert statements and `if __debug__` blocks are removed), a local time zone with a 3.5 h offset, another string-hash
    seed, the C locale with UTF-8 mode off.  Results are merged like those of a shard; witnesses carry the environment."""
    tmp = tempfile.mkdtemp(prefix=f"spv-env-{prop}-")
    label = "python -O, TZ=%s, PYTHONHASHSEED=%s, LC_ALL=C without UTF-8 mode or locale coercion (file-system encoding ASCII)" % (ENVPASS["TZ"], ENVPASS["PYTHONHASHSEED"])
    try:
        out = os.path.join(tmp, "env.json")
        env = dict(os.environ, TZ=ENVPASS["TZ"], PYTHONHASHSEED=ENVPASS["PYTHONHASHSEED"], LC_ALL=ENVPASS["LC_ALL"], PYTHONUTF8=ENVPASS["PYTHONUTF8"],
                   PYTHONCOERCECLOCALE="0", SPV_ENVPASS=label, SPV_NO_COLD="1", SPV_NO_REACH="1", SPV_QUICK_SCALE="0.34", VERIF_SEED=str(seed + 1_000_003))
        env.pop("LANG", None)
        try:
            p = subprocess.run([sys.executable, "-X", "dev", "-W", "ignore"] + ENVPASS["flags"] + ["-m", "spverif", prop, "quick", "--shard", "0/1", "--out", out],
                               capture_output=True, text=True, cwd=VERIF_ROOT, env=env, timeout=QUICK_TIMEOUT_S)
        except subprocess.TimeoutExpired:
            ctx.inconc("environment pass timed out")
            return
        if p.returncode != 0 or not os.path.exists(out):
            ctx.inconc(f"environment pass exited {p.returncode}: {(p.stdout + p.stderr)[-600:]!r}")
            return
        with open(out) as f:
            part = json.load(f)
        part["extra"] = {}
        ctx.extra["environment_pass"] = {"environment": label, "evaluations": part.get("evaluations", 0), "violation_signatures": sorted(part.get("violations", {}))[:20]}
        for reason in part.pop("inconclusive", []):
            ctx.inconc("environment pass: " + reason)
        part["inconclusive"] = []
        ctx.merge(part)
    finally:
        shutil.rmtree(tmp, ignore_errors=True)


def anchored_files(prop):
    try:
        for line in open(os.path.join(VERIF_ROOT, "properties.jsonl")):
            p = json.loads(line)
            if p["id"] == prop:
                return [f for f in p["anchors"]["files"] if f.endswith(".py")]
    except Exception:
        pass
    return []


def run_in_process(mod, ctx: Ctx):
    st = getattr(mod, "selftest", None)
    if st is not None and not os.environ.get("SPV_ENVPASS"):       # the oracle self-tests are written with assert statements: they ran in the main pass, `python -O` would skip them
        try:
            st(ctx)
        except Exception as e:  # noqa: BLE001 - an oracle that fails its own self-test decides nothing
            from spverif.core.util import tb_tail
            ctx.inconc(f"oracle self-test failed: {type(e).__name__}: {e!r}")
            sys.stderr.write(tb_tail(e, 8))
            return
    reach = None
    files = anchored_files(ctx.prop)
    if files and os.environ.get("SPV_NO_REACH") != "1":
        from spverif.san.reach import Reach
        reach = Reach(os.path.abspath(repo_mod.REPO).rstrip("/") + "/")
        reach.install()
    # Re-visit: the first cases of every kind are executed again at the very end of the workload, after thousands of other
    # values have passed through the code under test (a cache that has filled up and recycles its slots, a table that grew,
    # a counter that wrapped show only when an *early* input comes back).
    recorded = []
    named = []
    originals = {}
    kinds = getattr(mod, "KINDS", {})
    per_kind = {}
    for gname, gval in list(vars(mod).items()):
        if callable(gval) and any(gval is f for f in kinds.values()) and not gname.startswith("__"):
            def make(fn, kname):
                def rec(c, *a, **k):
                    n = per_kind.get(kname, 0)
                    if n < getattr(mod, "REVISIT_PER_KIND", 25) and c is ctx:
                        per_kind[kname] = n + 1
                        recorded.append((fn, a, k))
                        named.append((kname, a, k))
                    return fn(c, *a, **k)
                rec.__wrapped__ = fn
                return rec
            originals[gname] = gval
            setattr(mod, gname, make(gval, gname))
    try:
        mod.run(ctx)
        for gname, gval in originals.items():
            setattr(mod, gname, gval)
        for fn, a, k in recorded:
            fn(ctx, *a, **k)
        ctx.extra["revisited_early_cases"] = len(recorded)
        if ctx.shard[0] == 0 and os.environ.get("SPV_NO_COLD") != "1":
            cold_start_permutations(ctx.prop, ctx.tier, named, ctx, getattr(mod, "COLD_ORDERS", 9))
    except Exception as e:  # noqa: BLE001
        classify_exception(ctx, e)
    if getattr(mod, "SCRIBBLE", False):
        from spverif.san import scribble
        scribble.report(ctx)
    if reach is not None:
        ctx.extra["reach_calls_per_anchored_function_capped"] = reach.entered(set(files))
        ctx.extra["reach_lines_hit"] = reach.lines_hit(set(files))
        dump = os.environ.get("SPV_REACH_DUMP")
        if dump:       # analysis aid: every executed line of the tree under test, appended as one JSON line per process
            with open(dump, "a") as f:
                f.write(json.dumps({"prop": ctx.prop, "lines": sorted([fn[len(reach.prefix):], ln] for fn, ln in reach.lines)}) + "\n")


def main(argv=None) -> int:
    ap = argparse.ArgumentParser(prog="spverif")
    ap.add_argument("prop")
    ap.add_argument("tier", nargs="?", default=os.environ.get("VERIF_TIER", "quick"), choices=["quick", "thorough"])
    ap.add_argument("--replay")
    ap.add_argument("--shard")
    ap.add_argument("--out")
    ap.add_argument("--shards", type=int)
    ap.add_argument("--cases", help="internal: execute the listed (function, args) cases in this fresh process and write a partial result")
    a = ap.parse_args(argv)
    prop = a.prop.upper()
    seed = int(os.environ.get("VERIF_SEED", "0") or 0)
    repo = repo_mod.setup_repo_import()
    mod = importlib.import_module(f"spverif.props.{prop.lower()}")

    if a.replay:
        ctx = Ctx(prop, a.tier, seed, replaying=True)
        with open(a.replay) as f:
            rec = json.load(f)
        n = 0
        if getattr(mod, "SCRIBBLE", False):
            from spverif.san import scribble
            scribble.install()
        for w in rec["witnesses"]:
            case = w.get("case")
            if not case or "k" not in case:
                continue
            fn = mod.KINDS.get(case["k"])
            if fn is None:          # annotation-only witness: reproduced by re-executing the recorded workload below
                continue
            import inspect
            sig = inspect.signature(fn)
            accepts_any = any(p_.kind is inspect.Parameter.VAR_KEYWORD for p_ in sig.parameters.values())
            # witnesses carry extra annotations (failing step, letter names, ...): hand over only what the case kind takes
            params = {k: v for k, v in case.items() if k != "k" and (accepts_any or k in sig.parameters)}
            fn(ctx, **params)
            n += 1
        print(f"replayed {n} witness case(s) of {rec['signature']}")
        ctx.inconclusive = []
        if ctx.violations or os.environ.get("SPV_REPLAY_NO_HISTORY") == "1":
            rc = finish(ctx, mod, repo)
            return rc if rc != 2 else 0
        # The witness did not reproduce in isolation (or carries no stand-alone case): the violation may depend on what the
        # workload did before it (state carried between calls).  Re-execute the recorded workload - same tier, same seed,
        # deterministic - and report whether the same signature is observed again.
        tmp = tempfile.mkdtemp(prefix=f"spv-replay-{prop}-")
        try:
            env = dict(os.environ, VERIF_SEED=str(rec.get("seed", 0)), SPV_OUT=tmp)
            p = subprocess.run([sys.executable, "-X", "dev", "-W", "ignore", "-m", "spverif", prop, rec.get("tier", a.tier)],
                               capture_output=True, text=True, cwd=VERIF_ROOT, env=env, timeout=SHARD_TIMEOUT_S + 600)
            again = f"signature={rec['signature']} " in p.stdout
            print(f"re-executed the recorded workload (tier={rec.get('tier')}, seed={rec.get('seed')}): signature "
                  + ("observed again" if again else "not observed"))
            if again:
                print(f"VIOLATION property={prop} replay={a.replay}")
                print(f"  signature={rec['signature']} (reproduced by re-executing the recorded workload)")
                return 1
            return 0
        finally:
            shutil.rmtree(tmp, ignore_errors=True)

    if a.cases:
        _watchdog(prop, 600)
        ctx = Ctx(prop, a.tier, seed)
        if getattr(mod, "SCRIBBLE", False):
            from spverif.san import scribble
            scribble.install()
        with open(a.cases) as f:
            cases = json.load(f)
        for gname, args, kw in cases:
            try:
                getattr(mod, gname)(ctx, *_dec(args), **_dec(kw))
            except Exception as e:  # noqa: BLE001
                classify_exception(ctx, e, "workload.cold_start")
        ctx.extra = {}
        with open(a.out, "w") as f:
            json.dump(ctx.partial(), f)
        return 0

    if a.shard:
        i, n = map(int, a.shard.split("/"))
        _watchdog(prop, SHARD_TIMEOUT_S)
        ctx = Ctx(prop, a.tier, seed, shard=(i, n), scale=getattr(mod, "THOROUGH_SCALE", 4))
        run_in_process(mod, ctx)
        with open(a.out, "w") as f:
            json.dump(ctx.partial(), f)
        return 0

    nshards = a.shards or getattr(mod, "SHARDS", {}).get(a.tier, 1)
    if nshards <= 1:
        _watchdog(prop, QUICK_TIMEOUT_S if a.tier == "quick" else SHARD_TIMEOUT_S)
        ctx = Ctx(prop, a.tier, seed, scale=getattr(mod, "THOROUGH_SCALE", 4))
        run_in_process(mod, ctx)
    else:
        ctx = Ctx(prop, a.tier, seed, shard=(0, nshards), scale=getattr(mod, "THOROUGH_SCALE", 4))
        tmp = tempfile.mkdtemp(prefix=f"spv-{prop}-")
        try:
            procs = []
            for i in range(nshards):
                out = os.path.join(tmp, f"s{i}.json")
                log = open(os.path.join(tmp, f"s{i}.log"), "w")
                p = subprocess.Popen([sys.executable, "-X", "dev", "-W", "ignore", "-m", "spverif", prop, a.tier,
                                      "--shard", f"{i}/{nshards}", "--out", out],
                                     stdout=log, stderr=subprocess.STDOUT, cwd=VERIF_ROOT)
                procs.append((i, p, out, log))
            deadline = time.time() + SHARD_TIMEOUT_S + 60
            for i, p, out, log in procs:
                try:
                    rc = p.wait(timeout=max(1, deadline - time.time()))
                except subprocess.TimeoutExpired:
                    p.kill()
                    ctx.inconc(f"shard {i} timed out")
                    continue
                finally:
                    log.close()
                if rc != 0 or not os.path.exists(out):
                    tail = open(os.path.join(tmp, f"s{i}.log")).read()[-1500:]
                    ctx.inconc(f"shard {i} exited {rc}: {tail!r}")
                    continue
                with open(out) as f:
                    ctx.merge(json.load(f))
        finally:
            shutil.rmtree(tmp, ignore_errors=True)
    if os.environ.get("SPV_NO_ENVPASS") != "1" and not os.environ.get("SPV_ENVPASS"):
        environment_pass(prop, seed, ctx)
    if prop in SUITE_PROPS and os.environ.get("SPV_NO_SUITE") != "1":
        from spverif.core.suite import run_suite_under_contracts
        run_suite_under_contracts(ctx)
    files = anchored_files(prop)
    if files and "reach_calls_per_anchored_function_capped" in ctx.extra:
        from spverif.san.reach import defined_functions
        ent = ctx.extra["reach_calls_per_anchored_function_capped"]
        allf = defined_functions(os.path.abspath(repo_mod.REPO), files)
        never = sorted(allf - set(ent))
        ctx.extra["reach_summary"] = {"anchored_files": files, "functions_defined": len(allf), "functions_entered": len(set(ent) & allf),
                                      "functions_never_entered": never}
        hit = ctx.extra.pop("reach_lines_hit", None)
        if hit is not None:
            from spverif.san.reach import function_lines, ranges
            fl = function_lines(os.path.abspath(repo_mod.REPO), files)
            per = {}
            tot = got = 0
            for rel, lines in sorted(fl.items()):
                h = set(hit.get(rel, [])) & set(lines)
                miss = sorted(set(lines) - h)
                byfn = {}
                for ln in miss:
                    byfn.setdefault(lines[ln], []).append(ln)
                per[rel] = {"statement_lines_in_functions": len(lines), "executed": len(h),
                            "not_executed_by_function": {fn: ranges(v) for fn, v in sorted(byfn.items())}}
                tot += len(lines)
                got += len(h)
            ctx.extra["reach_lines"] = {"statement_lines_in_functions": tot, "executed_by_this_run": got, "per_file": per}
    concl = getattr(mod, "conclude", None)
    if concl is not None:
        concl(ctx)
    for name, m in ctx.monitors.items():
        if m["evaluations"] == 0:
            ctx.inconc(f"monitor {name} was never evaluated")
    if not ctx.monitors:
        ctx.inconc("no monitor was evaluated")
    return finish(ctx, mod, repo)


if __name__ == "__main__":
    sys.exit(main())
