#!/usr/bin/env python3
"""Which functions / methods / property accessors of the tree under test did the checks never enter?

Input: a file written with SPV_REACH_DUMP=<file> (one JSON line per check process: every executed line).
Output: per module, the functions none of whose body lines was executed by any check (analysis aid for widening the
workloads towards seldom-used public routes; DESIGN.md section 10, round 9)."""
import ast, json, os, sys

dump = sys.argv[1]
repo = os.environ.get("SPV_REPO", "/repo")
hit = set()
for line in open(dump):
    for fn, ln in json.loads(line)["lines"]:
        hit.add((fn.lstrip("/"), ln))
total = unreached = 0
for root, _, files in os.walk(os.path.join(repo, "spacepackets")):
    for f in sorted(files):
        if not f.endswith(".py"):
            continue
        path = os.path.join(root, f)
        rel = os.path.relpath(path, repo)
        tree = ast.parse(open(path).read())

        def visit(node, prefix):
            global total, unreached
            for ch in ast.iter_child_nodes(node):
                if isinstance(ch, ast.ClassDef):
                    visit(ch, prefix + ch.name + ".")
                elif isinstance(ch, (ast.FunctionDef, ast.AsyncFunctionDef)):
                    body = [n for n in ch.body if not (isinstance(n, ast.Expr) and isinstance(getattr(n, "value", None), ast.Constant))]
                    lines = {n.lineno for b in body for n in ast.walk(b) if hasattr(n, "lineno")}
                    if not lines:
                        continue
                    total += 1
                    deco = [ast.unparse(d) for d in ch.decorator_list]
                    if not any((rel, ln) in hit or (rel.replace("spacepackets/", "", 1), ln) in hit for ln in lines):
                        unreached += 1
                        tag = " [abstract]" if any("abstract" in d for d in deco) else " [deprecated]" if any("deprecat" in d for d in deco) else ""
                        print(f"{rel}:{ch.lineno} {prefix}{ch.name}{' @' + ','.join(deco) if deco else ''}{tag}")
                    visit(ch, prefix + ch.name + ".")
        visit(tree, "")
print(f"# {unreached} of {total} functions never entered", file=sys.stderr)
