#!/venv/bin/python
"""Regenerates MANIFEST.json from the table below (single source of truth for the interface)."""
import json
import os
import sys

HERE = os.path.dirname(os.path.dirname(os.path.abspath(__file__)))

BASELINE = ("cd /repo && /venv/bin/python -m pytest -ra -q -p no:cacheprovider --timeout=900 "
            "--continue-on-collection-errors")

# id -> (category, technique, level text, level note, design ref)
P = {
    "C01": ("exploration", "reference-model monitor (independent CCSDS header codec) on every pack/unpack call; exhaustive per 16-bit word + seeded sampling; refusal monitor",
            "Every observed SpacePacketHeader/PacketId/PacketSeqCtrl encode and decode is compared with an independent bit-level model; each 16-bit header word is enumerated completely in both directions, all 48 bits are seen as 0 and 1, every validated field is driven below and above its range on every constructor route. Held on the executions observed, not all 2^48 cross-word combinations.",
            "trusts spverif/ref/ccsds.py (30 lines) and CPython; setters after construction are informational", "DESIGN.md 5/C01"),
    "C02": ("exploration", "reference-model monitor (independent PUS-C TC codec + CRC model) with round-trip/relational checkers; crafted zero-CRC short-length buffers",
            "Every telecommand built through the three construction routes is compared octet-for-octet with an independent model, decoded back (also from model-built octets), compared field by field, re-packed and viewed as a generic space packet; all services, subservices, ack values and boundary data lengths up to the 65529-octet maximum; crafted buffers whose declared length cannot hold header+CRC and whose CRC is zero must be refused.",
            "trusts spverif/ref/pus.py, ref/crc.py (cross-checked against crcmod on every self-test)", "DESIGN.md 5/C02"),
    "C03": ("exploration", "reference-model monitor (independent PUS-C TM codec) over timestamp-length configurations; round-trip checkers; crafted zero-CRC short-length buffers",
            "As C02 for telemetry, with the timestamp length as configuration (0..32 octets), all 16 time references, all 8 packet versions, the Service17Tm wrapper and the space-packet view; declared totals that cannot hold header, timestamp and CRC must be refused even when the CRC over them is zero.",
            "trusts spverif/ref/pus.py; decoder is always given the timestamp length used to build", "DESIGN.md 5/C03"),
}

NOT_YET = {}


def main():
    props = [json.loads(l) for l in open(os.path.join(HERE, "properties.jsonl"))]
    checks = []
    na = []
    for p in props:
        pid = p["id"]
        if pid in P:
            cat, tech, text, note, ref = P[pid]
            checks.append({
                "property_id": pid,
                "quick_cmd": f"bin/check {pid} quick",
                "thorough_cmd": f"bin/check {pid} thorough",
                "evidence_file": f"/verif/evidence/{pid}.json",
                "replay_cmd_template": f"bin/check {pid} quick --replay {{path}}",
                "engine": "spverif",
                "level_claimed": {"category": cat, "text": text, "design_ref": ref},
                "level_note": note,
                "technique": tech,
            })
        else:
            na.append({"property_id": pid, "reason": NOT_YET.get(pid, "check under construction in this session (runtime monitor planned in DESIGN.md section 5); not claimed until it has run clean on the unchanged tree")})
    m = {
        "version": 1,
        "setup_cmd": "bin/setup",
        "hooks": {
            "guard": "SPACEPACKETS_VERIF",
            "enable": "no source hooks: monitors wrap the real callables of the working tree in place from /verif/spverif (bin/check sets SPACEPACKETS_VERIF=1 for the harness side only)",
            "baseline_off_cmd": BASELINE,
            "source_commits": [],
            "add_only": True,
        },
        "engines": [{
            "name": "spverif",
            "path": "/verif/spverif",
            "serves_properties": [c["property_id"] for c in checks],
            "kind_free_text": "stdlib-only runtime-monitoring harness: reference-model monitors, contracts on the real functions, history checkers, fault injection, sys.monitoring based sanitizers",
        }],
        "checks": checks,
        "not_applicable": na,
        "notes": "All checks import spacepackets from /repo's working tree (SPV_REPO overrides) with bytecode writing disabled; exit 0 held / 1 VIOLATION / 2 INCONCLUSIVE. Known findings: /verif/KNOWN_FINDINGS.txt.",
    }
    with open(os.path.join(HERE, "MANIFEST.json"), "w") as f:
        json.dump(m, f, indent=1)
        f.write("\n")
    print(f"MANIFEST.json: {len(checks)} checks, {len(na)} not claimed")


if __name__ == "__main__":
    main()
