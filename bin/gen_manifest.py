#!/venv/bin/python
"""Regenerates MANIFEST.json from the table below (single source of truth for the interface)."""
import json
import os
import sys

HERE = os.path.dirname(os.path.dirname(os.path.abspath(__file__)))

BASELINE = ("cd /repo && /venv/bin/python -m pytest -ra -q -p no:cacheprovider --timeout=900 "
            "--continue-on-collection-errors")

# id -> (category, technique, level text, level note, design ref)
P = {
    "C01": ("exploration", "reference-model monitor (independent CCSDS header codec) on every pack/unpack call; exhaustive per 16-bit word + seeded sampling; refusal monitor",
            "Every observed SpacePacketHeader/PacketId/PacketSeqCtrl encode and decode is compared with an independent bit-level model; each 16-bit header word is enumerated completely in both directions, all 48 bits are seen as 0 and 1, every validated field is driven below and above its range on every constructor route. Held on the executions observed, not all 2^48 cross-word combinations.",
            "trusts spverif/ref/ccsds.py (30 lines) and CPython; setters after construction are informational", "DESIGN.md 5/C01"),
    "C02": ("exploration", "reference-model monitor (independent PUS-C TC codec + CRC model) with round-trip/relational checkers; crafted zero-CRC short-length buffers",
            "Every telecommand built through the three construction routes is compared octet-for-octet with an independent model, decoded back (also from model-built octets), compared field by field, re-packed and viewed as a generic space packet; all services, subservices, ack values and boundary data lengths up to the 65529-octet maximum; crafted buffers whose declared length cannot hold header+CRC and whose CRC is zero must be refused.",
            "trusts spverif/ref/pus.py, ref/crc.py (cross-checked against crcmod on every self-test)", "DESIGN.md 5/C02"),
    "C03": ("exploration", "reference-model monitor (independent PUS-C TM codec) over timestamp-length configurations; round-trip checkers; crafted zero-CRC short-length buffers",
            "As C02 for telemetry, with the timestamp length as configuration (0..32 octets), all 16 time references, all 8 packet versions, the Service17Tm wrapper and the space-packet view; declared totals that cannot hold header, timestamp and CRC must be refused even when the CRC over them is zero.",
            "trusts spverif/ref/pus.py; decoder is always given the timestamp length used to build", "DESIGN.md 5/C03"),
}

P.update({
    "C04": ("fault_enumeration", "fault injection with an acceptance monitor: every single-bit flip and every <=16-bit burst position of each sampled packet; trailer-is-CRC monitor after setter histories",
            "For each sampled TC, TM and CFDP PDU (all 8 kinds, CRC flag set) every single-bit flip and every burst of length 2..16 at every bit offset outside the length-determining bits is applied and the decoder (class decoder and factory) must raise a documented error, never return an object; check_pus_crc must agree; every uncorrupted packet is accepted and its trailer equals the model CRC, also after random setter/pack/calc_crc histories.",
            "CRC-16 detects all enumerated faults (verified on the model itself in the self-test); the CRC-flag bit of the CFDP header is treated as length-determining", "DESIGN.md 5/C04"),
    "C05": ("exploration", "reference-model monitor (independent CFDP header codec), exhaustive over the 2048 flag x width configurations, all 2^16 lengths, all 2^16 (octet0, octet3) pairs for the decoder",
            "Every PduHeader pack/unpack is compared field by field with an independent model over all 2^7 flag combinations x 16 width combinations, every data-field length, boundary and random id / sequence values; the decoder is fed every (octet 0, octet 3) pair and must return the model's values or raise exactly the predicted documented class; unequal id widths and lengths above 65535 are refused.",
            "trusts spverif/ref/cfdp.py header/decode_header", "DESIGN.md 5/C05"),
    "C06": ("exploration", "reference-model monitor (independent encoder and decoder for the 7 directives) + round-trip/relational checkers over all 128 header configurations per kind",
            "Every packed directive PDU is compared octet-for-octet with an independent model, decoded (also from model-built octets), compared parameter by parameter and header field by header field, checked for == in both directions, packet_len and re-packing; all header configurations, all enum values, boundary sizes, TLV/LV lists; sizes that do not fit the selected width must make pack fail.",
            "trusts spverif/ref/cfdp.py; valid parameter sets per 727.0-B-5", "DESIGN.md 5/C06"),
    "C07": ("exploration", "reference-model monitor for File Data PDUs; exhaustive 64 metadata lengths x 4 states; behavioural check of the segment-length helper",
            "As C06 for File Data: offset, segment metadata and file data must come back exactly (not one octet more or fewer), incl. empty data, the maximal 65535-octet data field, CRC x large x widths x segmentation control; metadata > 63 octets refused; get_max_file_seg_len... checked by packing a PDU of that size.",
            "trusts spverif/ref/cfdp.py file_data/decode_pdu", "DESIGN.md 5/C07"),
    "C08": ("exploration", "reference-model monitor for LV/TLV and the six concrete TLV layouts; exhaustive type x length and (class x foreign type x route) type-safety matrix",
            "All 6 TLV types x all value lengths 0..255 and all LV lengths are packed/decoded against the model (consumed length = len+2 / len+1, over-long values refused); every filestore action x status code, names in multi-octet UTF-8, packet_len in octets; the complete 6 x 5 x 4 matrix of decoding a foreign TLV type through a concrete class must raise the type-mismatch error.",
            "trusts spverif/ref/cfdp.py lv/tlv/fs_* helpers", "DESIGN.md 5/C08"),
    "C09": ("exploration", "differential execution (suffix non-interference): decode(unit+suffix) vs decode(unit) for 20 unit kinds and 8 PDU kinds x 18 suffix classes; back-to-back splitting by reported lengths",
            "For every self-delimiting unit the decode of unit+suffix must equal the decode of the unit alone in every field, reported length and re-packed octets, for suffixes incl. other valid units, TLV/LV/segment-request/file-data shaped octets and a suffix that makes the whole-buffer CRC valid; units packed back to back are split purely by reported lengths; complete PDUs + suffix either decode to exactly the constructor arguments or are refused with a documented error.",
            "differential oracle; absolute correctness of decode(unit) is established by C01-C08, C14, C15, C17", "DESIGN.md 5/C09"),
    "C10": ("fault_enumeration", "escape monitor on ~100 decoder entry points + prefix monitor (every truncation point) + octet substitution + length-field edits, each call under a sys.monitoring backward-jump budget",
            "Every public decoder is called with random strings of every length 0..64, every strict prefix of valid units (which must be refused), single-octet substitutions at header/length/type offsets, edited length fields with cut/padded buffers, hand-shaped hostile structures and the units of all other kinds; the outcome must be a return value or a documented exception class, and the number of backward jumps inside spacepackets per call is bounded by 8*len+256.",
            "'never loops' is decided as bounded progress on the generated inputs only", "DESIGN.md 5/C10"),
    "C11": ("exploration", "history checker: after every setter step length / length-field / fresh-object / repeatable-pack checks on a deep copy; deep fingerprints + write-watch PduConfig for caller inputs",
            "Random setter histories (1..8 steps) and exhaustive histories to depth 3/4 over small alphabets for every mutable packet class, from constructed and from decoded objects, CRC on/off, large on/off, all widths: after each step len(pack()) == reported length, the embedded length field is right, the octets equal a freshly constructed object with the same final values, packing twice is identical and keeps equality; caller PduConfig / parameter objects are fingerprinted before and after construction and pack (a write-watch subclass names the writing source line).",
            "a fresh library object is the oracle for 'same final values'", "DESIGN.md 5/C11"),
    "C12": ("exploration", "factory kind / equality checker over 8 kinds x 128 header configurations; raw inspectors vs reference header decode; full 8 x 8 holder accessor matrix",
            "For every PDU kind and every header configuration the factory's generic decode must return exactly that class, equal to the original, re-packing identically; pdu_type / is_file_directive / pdu_directive_type must agree with the reference reading of the octets (directive octet at 4+2*idw+seqw); the holder's typed accessors succeed with the identical object on the diagonal and raise TypeError elsewhere.",
            "packed octets come from the reference encoder", "DESIGN.md 5/C12"),
    "C13": ("exploration", "receive-buffer re-use by the caller, queue-is-the-tail also with filler, streams built from library packet objects with the ids they report; history checker (conservation, exactly-once, order, idempotence) against a 12-line sequential parser model; exhaustive cut subsets x 4 append/parse schedules",
            "Every subset of cut positions of a small two-packet stream under four append/parse schedules, every single (thorough: pair of) cut of a three-packet stream, random streams up to 2 kB with random cuts/schedules and streams with inter-packet garbage: after every parser call returned ++ queue must equal what was appended, the returned list must equal the model's, a second parse without new data must change nothing, and at the end every packet is returned exactly once in order.",
            "schedules are orders of append/parse calls from one thread", "DESIGN.md 5/C13"),
    "C14": ("exploration", "reference-model monitor with exact integer/datetime arithmetic; exhaustive over all 65536 days and every calendar day; monotonicity checker; addition vs integer arithmetic",
            "All day counts x millisecond pool: octets, decode, as_datetime equal to 1958-01-01 + days + ms exactly, as_unix_seconds within 1 us, strict monotonicity also inside pre-1970 days; from_datetime on every calendar day at whole-millisecond and microsecond times; additions incl. exactly-to-midnight, multi-day and the overflow edge; all 256 first octets and short inputs.",
            "trusts CPython datetime calendar arithmetic and spverif/ref/cds.py", "DESIGN.md 5/C14"),
    "C15": ("exploration", "reference-model monitor for request ids (exhaustive per 16-bit half) + equality/hash law checker + service-1 report round-trip checker over the width grid",
            "Request ids through four construction routes: packed form, 32-bit form and decoded form agree with the first four header octets, equality <=> same 32 bits, equal => same hash, dictionary use; service-1 reports for all 8 subservices x step-id / error-code widths {1,2,4,8} x failure data x timestamp lengths incl. version bits: exact source data, decode with matching widths, re-pack, whole-object equality, and all 32 parameter/subservice combinations accepted iff matching.",
            "trusts spverif/ref/pus.py", "DESIGN.md 5/C15"),
    "C16": ("exploration", "lock-step reference state machine: all histories to depth 3/4 over a 37-letter alphabet for 3 telecommands + random long histories; model-independent isolation/monotonicity invariants",
            "After every add_tc / add_tm / remove_entry / remove_completed_entries call the return value and the entire verif_dict are compared with a reference model of the documented state machine, and model-independent invariants (isolation between telecommands, all_verifs_recvd never reverts, failed step never overwritten, completed flag <=> subservice in {2,4,6,7,8}, exact removal) are checked; the evidence reports abstract states and (state, input) transitions reached.",
            "the reference model is my reading of the class documentation (DESIGN appendix A)", "DESIGN.md 5/C16"),
    "C17": ("exploration", "reference-model monitor for USLP headers (all SCIDs, VCIDs, MAP ids, VCF lengths 0..7) and frames over the rule x protocol x size x zone grid; mismatch-class monitor",
            "Primary and truncated headers are compared with an independent model for every SCID, VCID, MAP id, flag and every VCF-count length incl. odd ones; out-of-range ids refused; frames over 8 construction rules x protocol ids x TFDZ sizes x insert zone x OCF x FECF x fixed/variable/truncated: order of parts, len() and the frame-length field, decode with matching managed parameters, and the detectable parameter mismatches must raise USLP errors / ValueError.",
            "trusts spverif/ref/uslp.py; only detectable mismatches are required to raise", "DESIGN.md 5/C17"),
    "C18": ("exploration", "round-trip checker for the 9 reserved message kinds against written-out layouts; never-raises classification monitor, exhaustive over short contents of a 7-symbol alphabet",
            "Every reserved message kind over id widths, enum values and names up to the 255-octet limit: packed TLV equals the model, decoding and recognising it returns exactly the original parameters through the matching getter and None through every other getter, classification flags as specified; is_reserved_cfdp_message / to_reserved_msg_tlv on arbitrary content (all strings up to length 6/7 over {c,f,d,p,00,80,ff}, random binary, near misses) must answer like the model and never raise.",
            "getters on malformed content of their own type are informational", "DESIGN.md 5/C18"),
    "C19": ("exploration", "lock-step counter model over call histories with restart injection at every inter-call point (new instance, and fresh interpreter process); file-content monitor with an audit hook",
            "In-memory provider for every width 1..16 over more than two wraps; file provider for widths 1..8 with a new instance before every call, width 14 / PUS provider across the wrap with random restarts, a history in which every call runs in a fresh interpreter process; after every call value = model, in range, acceptable as packet sequence count, and the first line of the file holds the model's next value; bad file contents give ValueError, a missing file FileNotFoundError.",
            "process stops are injected between calls only", "DESIGN.md 5/C19"),
    "C20": ("exploration", "contracts vs int.to_bytes over all routes; exhaustive for widths 0,1,2; equality/hash law checker; conversion helpers vs two's complement",
            "All (width, value) pairs for widths 0-2 and boundary/random values for 4 and 8 through seven construction/assignment routes: octets, int, len, hex and value views agree with int.to_bytes, from-bytes and generator routes give back an equal field, equality and hash depend on exactly (value, width); negative / too large values, unsupported widths and short octet strings give ValueError; to_unsigned / to_signed equal big-endian two's complement on every value they accept (exhaustive for 1 and 2 octets).",
            "trusts CPython int.to_bytes", "DESIGN.md 5/C20"),
})

NOT_YET = {}

# additions made after the first build (monitors added in response to independently seeded changes, DESIGN.md section 10)
SCRIB = ("; hostile-caller sanitizers (every pack() result is scribbled over after a copy is handed out; decoders get bytes / bytearray "
         "alternately and their input buffer is overwritten after the call); early cases re-visited at the end of the run")
TECH_ADD = {
    "C01": "; header setter history, composite-sibling and fresh-result monitors; constants harvested from the live modules as inputs" + SCRIB,
    "C02": "; setter/view history monitor with injected failed operations; block-boundary sizes; crafted CRC-register-at-boundary packets" + SCRIB,
    "C03": "; setter/view history monitor (also through the service-17 wrapper) with injected failed operations; block-boundary sizes; crafted CRC-boundary packets" + SCRIB,
    "C04": "; octets produced along setter histories (pack, space-packet view, forwarded decoded packets) with injected failed operations; PDUs built through setters; block-boundary sizes; crafted CRC-boundary packets" + SCRIB,
    "C05": "; header re-use history (every setter, in-place id assignment); isolation monitor over earlier decoded objects" + SCRIB,
    "C06": "; construction through setters; isolation monitor (octets and accessor views of earlier decoded objects)" + SCRIB,
    "C07": "; construction through setters; isolation monitor" + SCRIB,
    "C08": "; isolation monitor and defaulted-argument monitor" + SCRIB,
    "C09": SCRIB,
    "C11": "; untouched-sibling / built-later monitor for objects sharing the caller's configuration" + SCRIB,
    "C12": "; holder re-use history over all 64 (previous kind, new kind) transitions; isolation monitor" + SCRIB,
    "C14": "; sub-millisecond boundary grid" + SCRIB,
    "C15": "; request-id attribute-assignment history (whole attributes and nested in place); structured equality / hash sets of ~1500 ids; three packet-field construction styles; isolation monitor over decoded reports" + SCRIB,
    "C16": "; report objects built by constructor, Service1Tm.unpack and from_tm (parsed as a batch) and decoded from reference-model octets; 400 neighbouring request ids in one tracker growing past 256 entries",
    "C17": SCRIB,
    "C20": "; assignment history with aliasing and refused assignments (refusal atomicity); structured equality / hash sets; fresh-result and handed-over-field monitors; early cases re-visited at the end of the run",
    "C10": "; crafted TLV areas, short service-1 reports with valid CRC, non-aligned field codes; early cases re-visited at the end of the run",
    "C18": "; parameter / LV object re-use across messages" + SCRIB,
    "C19": "; widths up to 64 bits; width changes through the max_bit_width setter; returned counts carried through a packet round trip",
}
for _k, _v in TECH_ADD.items():
    _c = P[_k]
    P[_k] = (_c[0], _c[1] + _v) + _c[2:]
ENVP = ("; cold-start stage (first cases of every kind in fresh interpreters, each under python -O / another TZ / another hash seed) and "
        "environment pass (the quick workload once more under python -O, TZ=America/St_Johns, PYTHONHASHSEED=4242, C locale with an ASCII file-system encoding)")
for _k in list(P):
    _c = P[_k]
    P[_k] = (_c[0], _c[1] + ENVP) + _c[2:]


def main():
    props = [json.loads(l) for l in open(os.path.join(HERE, "properties.jsonl"))]
    checks = []
    na = []
    for p in props:
        pid = p["id"]
        if pid in P:
            cat, tech, text, note, ref = P[pid]
            checks.append({
                "property_id": pid,
                "quick_cmd": f"bin/check {pid} quick",
                "thorough_cmd": f"bin/check {pid} thorough",
                "evidence_file": f"/verif/evidence/{pid}.json",
                "replay_cmd_template": f"bin/check {pid} quick --replay {{path}}",
                "engine": "spverif",
                "level_claimed": {"category": cat, "text": text, "design_ref": ref},
                "level_note": note,
                "technique": tech,
            })
        else:
            na.append({"property_id": pid, "reason": NOT_YET.get(pid, "check under construction in this session (runtime monitor planned in DESIGN.md section 5); not claimed until it has run clean on the unchanged tree")})
    m = {
        "version": 1,
        "setup_cmd": "bin/setup",
        "hooks": {
            "guard": "SPACEPACKETS_VERIF",
            "enable": "no source hooks: monitors wrap the real callables of the working tree in place from /verif/spverif (bin/check sets SPACEPACKETS_VERIF=1 for the harness side only)",
            "baseline_off_cmd": BASELINE,
            "source_commits": [],
            "add_only": True,
        },
        "engines": [{
            "name": "spverif",
            "path": "/verif/spverif",
            "serves_properties": [c["property_id"] for c in checks],
            "kind_free_text": "stdlib-only runtime-monitoring harness: reference-model monitors, contracts on the real functions, history checkers, fault injection, sys.monitoring based sanitizers",
        }],
        "checks": checks,
        "not_applicable": na,
        "notes": "All checks import spacepackets from /repo's working tree (SPV_REPO overrides) with bytecode writing disabled; exit 0 held / 1 VIOLATION / 2 INCONCLUSIVE. Known findings: /verif/KNOWN_FINDINGS.txt.",
    }
    with open(os.path.join(HERE, "MANIFEST.json"), "w") as f:
        json.dump(m, f, indent=1)
        f.write("\n")
    print(f"MANIFEST.json: {len(checks)} checks, {len(na)} not claimed")


if __name__ == "__main__":
    main()
