#!/venv/bin/python
"""Import finished sub-agent mutants from /tmp/wt/out/<prop>/mutN into /verif/seeded/<prop>-mN and evaluate them.

usage: bin/seeded_import.py C01 [C03 ...] [--all-checks] [--tier quick]
"""
import json
import os
import shutil
import subprocess
import sys
from concurrent.futures import ThreadPoolExecutor

VERIF = os.path.dirname(os.path.dirname(os.path.abspath(__file__)))


def one(prop, n, extra):
    src = f"/tmp/wt/out/{prop}/mut{n}"
    if not os.path.exists(os.path.join(src, "patch.diff")):
        return None
    dst = os.path.join(VERIF, "seeded", f"{prop}-m{n}")
    os.makedirs(dst, exist_ok=True)
    for f in ("patch.diff", "demo.py"):
        shutil.copy(os.path.join(src, f), os.path.join(dst, f))
    meta_path = os.path.join(dst, "meta.json")
    meta = json.load(open(os.path.join(src, "meta.json")))
    meta["property"] = prop
    if os.path.exists(meta_path):
        old = json.load(open(meta_path))
        meta = {**old, **{k: v for k, v in meta.items() if k not in old}}
    json.dump(meta, open(meta_path, "w"), indent=1)
    p = subprocess.run([os.path.join(VERIF, "bin", "seeded_eval.py"), dst] + extra, capture_output=True, text=True)
    try:
        res = json.loads(p.stdout.strip().splitlines()[-1])
    except Exception:
        res = {"error": (p.stdout + p.stderr)[-500:]}
    meta = json.load(open(meta_path))
    runs = meta.setdefault("runs", [])
    runs.append({"ran": "bin/seeded_eval.py " + " ".join(extra) + " (patch applied to a scratch git worktree of /repo HEAD; pytest 304; demo on clean and on patched tree; checks with SPV_REPO=<worktree>)",
                 **{k: res.get(k) for k in ("patch_applies", "tests_ok", "tests_passed", "demo_clean_rc", "demo_mutant_rc", "caught_by", "tier", "error") if k in res},
                 "checks": {c: {"rc": v["rc"], "signatures": v["signatures"][:3]} for c, v in res.get("checks", {}).items()}})
    meta["confirmed"] = bool(res.get("patch_applies") and res.get("tests_ok") and res.get("demo_clean_rc") == 0 and res.get("demo_mutant_rc") not in (0, None))
    caught = set(meta.get("caught_by", [])) | set(res.get("caught_by", []))
    meta["caught_by"] = sorted(caught)
    json.dump(meta, open(meta_path, "w"), indent=1)
    return f"{prop}-m{n}: confirmed={meta['confirmed']} caught_by={meta['caught_by']} own={res.get('checks', {}).get(prop, {}).get('rc')} | {meta.get('summary', '')[:110]}"


def main():
    args = sys.argv[1:]
    extra = []
    if "--all-checks" in args:
        extra.append("--all")
        args.remove("--all-checks")
    if "--tier" in args:
        i = args.index("--tier")
        extra += ["--tier", args[i + 1]]
        del args[i:i + 2]
    jobs = [(p, n) for p in args for n in range(1, 60)]
    with ThreadPoolExecutor(max_workers=8) as ex:
        for r in ex.map(lambda j: one(j[0], j[1], extra), jobs):
            if r:
                print(r, flush=True)


if __name__ == "__main__":
    main()
