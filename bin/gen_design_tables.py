#!/venv/bin/python
"""Regenerates the generated tables inside DESIGN.md (between BEGIN/END markers) from KNOWN_FINDINGS.txt and seeded/*/meta.json."""
import glob
import json
import os
import re

HERE = os.path.dirname(os.path.dirname(os.path.abspath(__file__)))


def fixes_table():
    rows = ["| property | fix commit | what failed (signature of the witnessing monitor) |", "|---|---|---|"]
    for line in open(os.path.join(HERE, "KNOWN_FINDINGS.txt")):
        m = re.match(r"fixed: property=(C\d+) (\w+) (.*)", line.strip())
        if m:
            rows.append(f"| {m.group(1)} | `{m.group(2)}` | {m.group(3).replace('|', '/')} |")
    findings = [json.loads(l) for l in open(os.path.join(HERE, "KNOWN_FINDINGS.txt")) if l.startswith("{")]
    txt = "\n".join(rows) + f"\n\n{len(rows) - 2} defects repaired; {len(findings)} recorded as known findings.\n"
    return txt


def seeded_table():
    rows = ["| id | property | site | what it needs to manifest | caught by (quick tier) |", "|---|---|---|---|---|"]
    n = caught = own = 0
    for d in sorted(glob.glob(os.path.join(HERE, "seeded", "*"))):
        mp = os.path.join(d, "meta.json")
        if not os.path.exists(mp):
            continue
        m = json.load(open(mp))
        if m.get("retired"):
            rows.append(f"| {os.path.basename(d)} | {m['property']} | `{m.get('site', '')}` | {m.get('needs', '').replace('|', '/')[:200]} | *retired*: {m['retired'][:260]} |")
            continue
        n += 1
        cb = m.get("caught_by", [])
        caught += bool(cb)
        own += m["property"] in cb
        rows.append(f"| {os.path.basename(d)} | {m['property']} | `{m.get('site', '')}` | {m.get('needs', '').replace('|', '/')[:260]} | {', '.join(cb) or '**missed**'} |")
    return "\n".join(rows) + f"\n\n{n} seeded changes, {caught} caught by at least one check, {own} caught by the check of the property they were written against.\n"


def monitors_table():
    """Monitors as built, from the committed evidence files (evaluations of the last run in /verif against /repo)."""
    def find(o, k):
        if isinstance(o, dict):
            for a, b in o.items():
                if a == k:
                    return b
                r = find(b, k)
                if r is not None:
                    return r
        return None
    rows = ["| check | tier / seed | oracle evaluations | monitors (evaluations) | environment pass |", "|---|---|---|---|---|"]
    for f in sorted(glob.glob(os.path.join(HERE, "evidence", "C*.json"))):
        d = json.load(open(f))
        m = find(d, "monitors") or {}
        ev = find(d, "evaluations")
        env = find(d, "environment_pass") or {}
        mons = ", ".join(f"{k} ({v.get('evaluations', 0)})" for k, v in sorted(m.items()))
        rows.append(f"| {d.get('property_id')} | {d.get('tier')} / {d.get('seed')} | {ev} | {mons} | {env.get('evaluations', '-')} evaluations |")
    return "\n".join(rows) + "\n"


def main():
    p = os.path.join(HERE, "DESIGN.md")
    s = open(p).read()
    for name, fn in (("fixes", fixes_table), ("seeded", seeded_table), ("monitors", monitors_table)):
        a, b = f"<!-- BEGIN:{name} -->", f"<!-- END:{name} -->"
        if a in s and b in s:
            s = s[:s.index(a) + len(a)] + "\n" + fn() + s[s.index(b):]
    open(p, "w").write(s)
    print("DESIGN.md tables regenerated")


if __name__ == "__main__":
    main()
