#!/venv/bin/python
"""Evaluate seeded changes against the checks without touching /repo.

usage: bin/seeded_eval.py <mutant dir> [--checks C01,C09 | --all] [--tier quick]
A mutant dir holds patch.diff, demo.py, meta.json.  The patch is applied to a scratch git worktree of /repo's
HEAD (outside /repo and /verif), the pinned test-suite and the demonstration are run there, then the requested
checks are run with SPV_REPO pointing at the worktree and SPV_OUT at a scratch directory (so evidence/ and
replays/ of /verif are not touched).  The worktree is removed afterwards.  Prints one JSON object.
"""
import json
import os
import re
import shutil
import subprocess
import sys
import tempfile

VERIF = os.path.dirname(os.path.dirname(os.path.abspath(__file__)))
PY = "/venv/bin/python"
ALL = [f"C{i:02d}" for i in range(1, 21)]


def sh(cmd, cwd=None, env=None, timeout=1800):
    p = subprocess.run(cmd, cwd=cwd, env=env, capture_output=True, text=True, timeout=timeout)
    return p.returncode, p.stdout + p.stderr


def main():
    args = sys.argv[1:]
    mdir = os.path.abspath(args[0])
    tier = "quick"
    checks = None
    if "--tier" in args:
        tier = args[args.index("--tier") + 1]
    meta = json.load(open(os.path.join(mdir, "meta.json")))
    prop = meta["property"]
    if "--all" in args:
        checks = ALL
    elif "--checks" in args:
        checks = [c for c in args[args.index("--checks") + 1].split(",") if c != "NONE"]
    else:
        checks = [prop]
    base = tempfile.mkdtemp(prefix="spv-seeded-")
    wt = os.path.join(base, "wt")
    out = os.path.join(base, "out")
    res = {"mutant": mdir, "property": prop, "tier": tier}
    try:
        rc, o = sh(["git", "-C", "/repo", "worktree", "add", "-q", "--detach", wt, "HEAD"])
        assert rc == 0, o
        rc, o = sh(["git", "-C", wt, "apply", os.path.join(mdir, "patch.diff")])
        res["patch_applies"] = rc == 0
        if rc != 0:
            res["apply_error"] = o[-400:]
            print(json.dumps(res))
            return
        rc, o = sh([PY, "-m", "pytest", "-q", "-p", "no:cacheprovider", "--timeout=900"], cwd=wt)
        m = re.search(r"(\d+) passed", o)
        res["tests_passed"] = int(m.group(1)) if m else 0
        res["tests_ok"] = rc == 0 and res["tests_passed"] == 304
        rc, o = sh([PY, os.path.join(mdir, "demo.py")], cwd="/repo", timeout=600)
        res["demo_clean_rc"] = rc
        rc, o = sh([PY, os.path.join(mdir, "demo.py")], cwd=wt, timeout=600)
        res["demo_mutant_rc"] = rc
        res["demo_mutant_tail"] = o[-300:]
        env = dict(os.environ, SPV_REPO=wt, SPV_OUT=out)
        res["checks"] = {}
        if "--seeds" in args:
            # robustness of the catch: the property's own check at several other seeds
            res["by_seed"] = {}
            for sd in args[args.index("--seeds") + 1].split(","):
                rc, o = sh([os.path.join(VERIF, "bin", "check"), prop, tier], cwd=VERIF, env=dict(env, VERIF_SEED=sd, SPV_NO_SUITE="1"), timeout=3600)
                res["by_seed"][sd] = bool(rc == 1 and re.search(r"^VIOLATION", o, re.M))
        for c in checks:
            rc, o = sh([os.path.join(VERIF, "bin", "check"), c, tier], cwd=VERIF, env=env, timeout=3600)
            sigs = re.findall(r"signature=(\S+)", o)
            res["checks"][c] = {"rc": rc, "violations": len(re.findall(r"^VIOLATION", o, re.M)), "signatures": sigs[:6],
                                "inconclusive": re.findall(r"^INCONCLUSIVE.*", o, re.M)[:3]}
            if "--replay-test" in args and rc == 1:
                # every replay file must reproduce the violation on the changed tree and be silent on the unchanged one
                paths = re.findall(r"^VIOLATION property=\S+ replay=(\S+)", o, re.M)[:4]
                rt = []
                for pth in paths:
                    r1, o1 = sh([os.path.join(VERIF, "bin", "check"), c, tier, "--replay", pth], cwd=VERIF, env=env, timeout=900)
                    r0, o0 = sh([os.path.join(VERIF, "bin", "check"), c, tier, "--replay", pth], cwd=VERIF, env=dict(os.environ, SPV_OUT=out), timeout=900)
                    rt.append({"replay": os.path.basename(pth), "rc_changed_tree": r1, "rc_unchanged_tree": r0,
                               "tail": (o1[-300:] if r1 != 1 else "") + (o0[-300:] if r0 != 0 else "")})
                res["checks"][c]["replay_test"] = rt
        # caught = the check printed a VIOLATION line and exited 1 (a crash of the harness is reported separately, never as a catch)
        res["caught_by"] = sorted(c for c, v in res["checks"].items() if v["rc"] == 1 and v["violations"] > 0)
        res["harness_errors"] = sorted(c for c, v in res["checks"].items() if v["rc"] not in (0, 1, 2) or (v["rc"] == 1 and v["violations"] == 0))
        print(json.dumps(res))
    finally:
        sh(["git", "-C", "/repo", "worktree", "remove", "--force", wt])
        shutil.rmtree(base, ignore_errors=True)


if __name__ == "__main__":
    main()
