#!/venv/bin/python
"""Mechanical mutation analysis of the checks (DESIGN.md section 10, "mechanical mutants").

Complements the independently written seeded changes: small syntactic changes (operator, constant, condition, removed
raise, slice bound) are generated for every function of the source files the properties are anchored in, each in a scratch
git worktree of /repo's HEAD (outside /repo and /verif, removed afterwards).  A mutant counts only if the pinned test-suite
still passes with it (the brief's notion of a realistic breaking change); those are then run against the quick checks of
the properties that anchor the file (own environment pass / cold-start stage off for speed) until one reports a violation.

usage: bin/mutation_campaign.py --jobs 14 --per-file 60 --seed 1 --out mutation/<name>.jsonl [--files a.py,b.py]
Output: one JSON line per mutant {file, line, op, before, after, suite: killed|survived, caught_by, checks_run}.
Survivors of suite *and* checks are printed at the end; they are either equivalent mutants or gaps of the checks and are
triaged by hand (section 10)."""
import argparse
import ast
import copy
import json
import os
import random
import re
import shutil
import subprocess
import sys
import tempfile
from concurrent.futures import ThreadPoolExecutor

VERIF = os.path.dirname(os.path.dirname(os.path.abspath(__file__)))
PY = "/venv/bin/python"
EXTRA = []          # --extra: checks run in addition to those of the properties that anchor the file (neighbouring properties)


def anchors():
    m = {}
    for line in open(os.path.join(VERIF, "properties.jsonl")):
        p = json.loads(line)
        for f in p["anchors"]["files"]:
            if f.endswith(".py"):
                m.setdefault(f, []).append(p["id"])
    return m


CMP = {ast.Lt: ast.LtE, ast.LtE: ast.Lt, ast.Gt: ast.GtE, ast.GtE: ast.Gt, ast.Eq: ast.NotEq, ast.NotEq: ast.Eq, ast.Is: ast.IsNot, ast.IsNot: ast.Is, ast.In: ast.NotIn, ast.NotIn: ast.In}
BIN = {ast.Add: ast.Sub, ast.Sub: ast.Add, ast.Mult: ast.FloorDiv, ast.FloorDiv: ast.Mult, ast.BitAnd: ast.BitOr, ast.BitOr: ast.BitAnd, ast.LShift: ast.RShift, ast.RShift: ast.LShift,
       ast.Mod: ast.FloorDiv, ast.BitXor: ast.BitOr}


class Sites(ast.NodeVisitor):
    """Collect (node id, operator name) pairs inside function bodies."""

    def __init__(self):
        self.sites = []
        self.depth = 0

    def visit_FunctionDef(self, node):
        if node.name in ("__repr__", "__str__"):
            return
        self.depth += 1
        self.generic_visit(node)
        self.depth -= 1

    visit_AsyncFunctionDef = visit_FunctionDef

    def generic_visit(self, node):
        if self.depth:
            if isinstance(node, ast.Compare) and len(node.ops) == 1 and type(node.ops[0]) in CMP:
                self.sites.append((node, "cmp"))
            elif isinstance(node, ast.BinOp) and type(node.op) in BIN:
                self.sites.append((node, "binop"))
            elif isinstance(node, ast.BoolOp):
                self.sites.append((node, "boolop"))
            elif isinstance(node, ast.UnaryOp) and isinstance(node.op, ast.Not):
                self.sites.append((node, "not"))
            elif isinstance(node, ast.Constant) and isinstance(node.value, int) and not isinstance(node.value, bool) and 0 <= node.value <= 0xFFFFFFFF:
                self.sites.append((node, "const+1"))
                self.sites.append((node, "const-1"))
                if node.value > 2 and (node.value & (node.value + 1)) == 0:
                    self.sites.append((node, "mask>>1"))
            elif isinstance(node, ast.Raise):
                self.sites.append((node, "raise->pass"))
            elif isinstance(node, ast.If):
                self.sites.append((node, "if->true"))
                self.sites.append((node, "if->false"))
            elif isinstance(node, ast.Return) and node.value is not None and not (isinstance(node.value, ast.Constant) and node.value.value is None):
                self.sites.append((node, "return->none"))
            elif isinstance(node, ast.Slice):
                if node.lower is not None:
                    self.sites.append((node, "slice.lower+1"))
                if node.upper is not None:
                    self.sites.append((node, "slice.upper-1"))
        super().generic_visit(node)


def mutate(src: str, index: int):
    """-> (mutated source, line, op, before, after) for site `index` of the file, or None."""
    tree = ast.parse(src)
    v = Sites()
    v.visit(tree)
    if index >= len(v.sites):
        return None
    node, op = v.sites[index]
    before = ast.unparse(node)[:80]
    line = getattr(node, "lineno", 0)

    class T(ast.NodeTransformer):
        def visit(self, n):
            if n is node:
                return self.apply(n)
            return super().visit(n)

        def apply(self, n):
            n = copy.deepcopy(n)
            if op == "cmp":
                n.ops = [CMP[type(n.ops[0])]()]
            elif op == "binop":
                n.op = BIN[type(n.op)]()
            elif op == "boolop":
                n.op = ast.Or() if isinstance(n.op, ast.And) else ast.And()
            elif op == "not":
                return n.operand
            elif op == "const+1":
                n.value += 1
            elif op == "const-1":
                n.value -= 1
            elif op == "mask>>1":
                n.value >>= 1
            elif op == "raise->pass":
                return ast.Pass()
            elif op == "if->true":
                n.test = ast.Constant(True)
            elif op == "if->false":
                n.test = ast.Constant(False)
            elif op == "return->none":
                n.value = ast.Constant(None)
            elif op == "slice.lower+1":
                n.lower = ast.BinOp(n.lower, ast.Add(), ast.Constant(1))
            elif op == "slice.upper-1":
                n.upper = ast.BinOp(n.upper, ast.Sub(), ast.Constant(1))
            return n

    new = T().visit(tree)
    ast.fix_missing_locations(new)
    try:
        out = ast.unparse(new)
        compile(out, "<mutant>", "exec")
    except Exception:
        return None
    after = "?"
    return out, line, op, before, after


def count_sites(src):
    v = Sites()
    v.visit(ast.parse(src))
    return len(v.sites)


def sh(cmd, cwd=None, env=None, timeout=900):
    try:
        p = subprocess.run(cmd, cwd=cwd, env=env, capture_output=True, text=True, timeout=timeout)
        return p.returncode, p.stdout + p.stderr
    except subprocess.TimeoutExpired:
        return 124, "timeout"


def worker(wid, jobs, amap, outf, lock):
    base = tempfile.mkdtemp(prefix=f"spv-mut-{wid}-")
    wt = os.path.join(base, "wt")
    try:
        rc, o = sh(["git", "-C", "/repo", "worktree", "add", "-q", "--detach", wt, "HEAD"])
        assert rc == 0, o
        for rel, idx in jobs:
            path = os.path.join(wt, rel)
            orig = open(path).read()
            m = mutate(orig, idx)
            if m is None:
                continue
            new, line, op, before, _ = m
            rec = {"file": rel, "site": idx, "line": line, "op": op, "before": before}
            try:
                open(path, "w").write(new)
                rc, o = sh([PY, "-m", "pytest", "-q", "-x", "-p", "no:cacheprovider", "--timeout=120"], cwd=wt, timeout=600)
                mm = re.search(r"(\d+) passed", o)
                if rc != 0 or not mm or int(mm.group(1)) != 304:
                    rec["suite"] = "killed"
                else:
                    rec["suite"] = "survived"
                    rec["caught_by"] = []
                    rec["checks_run"] = []
                    for prop in amap.get(rel, []) + [p_ for p_ in EXTRA if p_ not in amap.get(rel, [])]:
                        out = os.path.join(base, "out")
                        env = dict(os.environ, SPV_REPO=wt, SPV_OUT=out, SPV_NO_SUITE="1", SPV_NO_COLD="1", SPV_NO_ENVPASS="1", PYTHONPATH=VERIF, PYTHONHASHSEED="0", PYTHONDONTWRITEBYTECODE="1")
                        rc, o = sh([PY, "-X", "dev", "-W", "ignore", "-m", "spverif", prop, "quick"], cwd=VERIF, env=env, timeout=900)
                        rec["checks_run"].append(prop)
                        shutil.rmtree(out, ignore_errors=True)
                        if rc == 1 and "VIOLATION property=" in o:
                            rec["caught_by"].append(prop)
                            sig = re.search(r"signature=(\S+)", o)
                            rec["signature"] = sig.group(1) if sig else ""
                            break
                        if rc not in (0, 1):
                            rec.setdefault("inconclusive", []).append(prop)
            finally:
                open(path, "w").write(orig)
            with lock:
                outf.write(json.dumps(rec) + "\n")
                outf.flush()
    finally:
        sh(["git", "-C", "/repo", "worktree", "remove", "--force", wt])
        shutil.rmtree(base, ignore_errors=True)
        sh(["git", "-C", "/repo", "worktree", "prune"])


def main():
    ap = argparse.ArgumentParser()
    ap.add_argument("--jobs", type=int, default=12)
    ap.add_argument("--per-file", type=int, default=40)
    ap.add_argument("--seed", type=int, default=1)
    ap.add_argument("--out", required=True)
    ap.add_argument("--files")
    ap.add_argument("--skip", help="result file(s), comma separated: sites already mutated there are left out")
    ap.add_argument("--recheck", help="re-run only the mutants of this result file that survived suite and checks (same file / site index)")
    ap.add_argument("--extra", help="comma separated property ids whose checks are run on every mutant in addition to the anchoring ones")
    a = ap.parse_args()
    EXTRA.extend(a.extra.split(",") if a.extra else [])
    amap = anchors()
    files = sorted(amap) if not a.files else a.files.split(",")
    r = random.Random(a.seed)
    done = set()
    for fn in (a.skip.split(",") if a.skip else []):
        for l in open(fn):
            x = json.loads(l)
            done.add((x["file"], x["site"]))
    todo = []
    for rel in files:
        p = os.path.join("/repo", rel)
        if not os.path.exists(p):
            continue
        n = count_sites(open(p).read())
        idx = [i for i in range(n) if (rel, i) not in done]
        r.shuffle(idx)
        todo += [(rel, i) for i in idx[: a.per_file]]
    if a.recheck:
        prev = [json.loads(l) for l in open(a.recheck)]
        todo = [(x["file"], x["site"]) for x in prev if x["suite"] == "survived" and not x["caught_by"]]
    r.shuffle(todo)
    os.makedirs(os.path.dirname(os.path.abspath(a.out)), exist_ok=True)
    import threading
    lock = threading.Lock()
    with open(a.out, "a") as outf, ThreadPoolExecutor(a.jobs) as ex:
        parts = [todo[i::a.jobs] for i in range(a.jobs)]
        list(ex.map(lambda t: worker(t[0], t[1], amap, outf, lock), enumerate(parts)))
    recs = [json.loads(l) for l in open(a.out)]
    surv = [x for x in recs if x["suite"] == "survived"]
    missed = [x for x in surv if not x["caught_by"]]
    print(f"{len(recs)} mutants, {len(recs) - len(surv)} killed by the test-suite, {len(surv)} survive it; of those {len(surv) - len(missed)} caught by a check, {len(missed)} not")
    for x in missed:
        print(f"  NOT CAUGHT {x['file']}:{x['line']} {x['op']}  {x['before']}")


if __name__ == "__main__":
    main()
