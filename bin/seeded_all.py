#!/venv/bin/python
"""Re-evaluate every seeded change under /verif/seeded against the current checks and record the result in its meta.json.

usage: bin/seeded_all.py [--all-checks] [--tier quick] [--replay-test] [--only C05,C08-m4] [--jobs 6]
Each change is applied to its own scratch worktree (bin/seeded_eval.py), never to /repo.  meta.json keeps the first
evaluation ("first_pass") and the latest one ("latest"); caught_by is the latest result.
"""
import glob
import json
import os
import subprocess
import sys
from concurrent.futures import ThreadPoolExecutor

VERIF = os.path.dirname(os.path.dirname(os.path.abspath(__file__)))


def one(d, extra):
    p = subprocess.run([os.path.join(VERIF, "bin", "seeded_eval.py"), d] + extra, capture_output=True, text=True)
    try:
        res = json.loads(p.stdout.strip().splitlines()[-1])
    except Exception:
        return f"{os.path.basename(d)}: ERROR {(p.stdout + p.stderr)[-300:]}"
    mp = os.path.join(d, "meta.json")
    meta = json.load(open(mp))
    rec = {"ran": "bin/seeded_eval.py " + " ".join(extra) + " (scratch git worktree of /repo HEAD; pytest 304; demo on clean and changed tree; checks with SPV_REPO=<worktree>)",
           **{k: res.get(k) for k in ("patch_applies", "tests_ok", "tests_passed", "demo_clean_rc", "demo_mutant_rc", "caught_by", "harness_errors", "tier") if k in res},
           "checks": {c: {k: v[k] for k in ("rc", "signatures", "replay_test") if k in v} | {"signatures": v["signatures"][:3]} for c, v in res.get("checks", {}).items()
                      if v["rc"] != 0 or c == meta["property"]}}
    if "runs" in meta:                      # older format: keep the first recorded run as first_pass
        runs = meta.pop("runs")
        if runs and "first_pass" not in meta:
            meta["first_pass"] = {k: runs[0].get(k) for k in ("ran", "caught_by", "tier")}
    meta.setdefault("first_pass", {k: rec.get(k) for k in ("ran", "caught_by", "tier")})
    meta["latest"] = rec
    meta["confirmed"] = bool(res.get("patch_applies") and res.get("tests_ok") and res.get("demo_clean_rc") == 0 and res.get("demo_mutant_rc") not in (0, None))
    if "by_seed" in res:
        meta["caught_at_other_seeds"] = res["by_seed"]
    if "--checks" in extra and "NONE" in extra:
        json.dump(meta | {"latest": meta.get("latest")}, open(mp, "w"), indent=1) if False else None
        return f"{os.path.basename(d)}: by_seed={res.get('by_seed')}" + ("" if all(res.get("by_seed", {}).values()) else "  <-- NOT CAUGHT AT EVERY SEED")
    meta["caught_by"] = sorted(res.get("caught_by", []))
    json.dump(meta, open(mp, "w"), indent=1)
    rt = [x for v in res.get("checks", {}).values() for x in v.get("replay_test", [])]
    bad = [x for x in rt if x["rc_changed_tree"] != 1 or x["rc_unchanged_tree"] != 0]
    return (f"{os.path.basename(d)}: confirmed={meta['confirmed']} caught_by={meta['caught_by']} own={'Y' if meta['property'] in meta['caught_by'] else 'N'}"
            f" harness_errors={res.get('harness_errors')} replays={len(rt)} bad_replays={len(bad)}" + (f" {bad[:1]}" if bad else ""))


def main():
    args = sys.argv[1:]
    extra = []
    if "--all-checks" in args:
        extra.append("--all")
    if "--replay-test" in args:
        extra.append("--replay-test")
    if "--tier" in args:
        extra += ["--tier", args[args.index("--tier") + 1]]
    if "--seeds" in args:
        extra += ["--seeds", args[args.index("--seeds") + 1]]
    if "--no-own" in args:
        extra += ["--checks", "NONE"]
    jobs = int(args[args.index("--jobs") + 1]) if "--jobs" in args else 6
    only = args[args.index("--only") + 1].split(",") if "--only" in args else None
    dirs = sorted(glob.glob(os.path.join(VERIF, "seeded", "*")))
    if only:
        dirs = [d for d in dirs if any(os.path.basename(d) == o or os.path.basename(d).startswith(o + "-") for o in only)]
    with ThreadPoolExecutor(max_workers=jobs) as ex:
        for r in ex.map(lambda d: one(d, extra), dirs):
            print(r, flush=True)


if __name__ == "__main__":
    main()
